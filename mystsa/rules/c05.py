"""C05 - heading levels determine section nesting; nested headings never make sections."""

from __future__ import annotations

import ast
import itertools

from ..corpus import (
    Corpus,
    FunctionInfo,
    Unsupported,
    dotted,
    kwarg,
    parent,
    short,
    site_packages,
    splice,
    unparse,
    walk_local,
)
from ..flow import ENTRY, EXIT, facts as branch_facts, get_cfg
from ..mutant import Mutant
from ..report import Report
from .common import find_node, rule

PROP = "C05"
READY = False
TECHNIQUE = (
    "CFG dominance plus a truth-table evaluation of the structural guard (through predicate helpers and the helper methods the heading code "
    "was split into), reaching-definition sums for the heading level, abstract simulation of the level-map operations over the key classes "
    "{<L, =L, >L}, grid evaluation of the warning condition, save/restore pairing of nested-render state"
)

META = {
    "explanation": (
        "The 'heading code' is render_heading plus the private renderer methods only it (transitively) calls; every rule follows code into those helpers. "
        "R1: each statement of the heading code that constructs nodes.section, calls update_section_level_state or stores current_node is reached only under branch "
        "facts (of its own function and of every call site up to render_heading) that imply 'current node is a document/section or equals "
        "md_env[temp_root_node]'. The facts are read as a propositional formula over the atoms isinstance(current_node, C) (with the docutils class hierarchy "
        "read from the parsed sibling source), current_node ==/is temp root, 'a temp root is set'; single-assignment locals (also as operands of the comparisons, e.g. the temp root fetched into a local) and "
        "boolean predicate helpers (`return <test>`) are expanded; implications are decided by truth table. Conversely the rubric branch is reached only under 'neither document nor section'. "
        "Nobody outside the heading code constructs nodes.section in the rendering modules or calls the level-state update. The children of a scratch document that "
        "an rST parser filled (eval-rst: they may be sections made by rST titles) are moved below current_node only under the same structural guard, or after a "
        "conversion of the sections to rubrics that runs whenever the guard does not hold - on the current tree render_restructuredtext does neither (KNOWN finding). "
        "R2: from the rubric construction (in render_heading or a helper) to the exit there is no write to the level map, no level-state update and no direct "
        "current_node store, also not in the directly called renderer methods; current_node_context saves current_node before its yield and restores the saved "
        "name on every normal path after it (plain or try/finally); the rubric's level= and the level passed to the level-state update are the same signed sum "
        "of terms (reaching definitions, through helper parameters and augmented assignments); the rubric is attached to current_node exactly once on every path. "
        "R3 (update_section_level_state): every definition of the parent level that can reach the parent lookup is either max over the open levels strictly below "
        "the new level (deeper levels are still open at that point: a filter such as != or <= is a violation) or the shortcut level - 1 used only where that level "
        "is known to be open; the section is attached exactly once on every path to map[parent]; no use of the level parameter is reached by a definition that replaces it by another linear quantity; the map operations (map[level]=section, "
        "filtering dict comprehension, removal loops over a key range or over a copy of the keys, counting while-loops - a walk `while level+k in map` stops at the "
        "first level that is not open and is a violation because levels may be skipped) are simulated over the key classes {<L, =L, >L} and must leave "
        "(ancestors kept, own level = new section, deeper levels dropped) - range bounds are level+c, constants or max(open levels)+c, and a constant bound only "
        "covers the deeper levels if the heading level is statically bounded, which it is not once the heading offset is added; the MD_HEADING_NON_CONSECUTIVE "
        "warning (one or several sites) is emitted at most once per path and, evaluated before the map is changed on the grid (deepest open level M 0..8, new level L "
        "1..10, every consistent parent p), exactly when L - M >= 2: M = max(open levels) is the level of the preceding heading, so siblings of a heading reached by a "
        "skip and steps back down are not reported again (repair 2e8531b; comparing with the parent level instead is a violation) - its tests are linear forms of L, "
        "p, M and single-assignment locals; other leaves that read renderer state changed during the render are free booleans and the verdict must hold for every value (a memo of reported skips "
        "is therefore a violation); the map starts as {0: document} (in setup_render or a helper only it calls); every other change of the map during a render "
        "must restore a value read from it in the same function or be bracketed by its own save(copy)/restore. "
        "R4: the context manager around _render_tokens in nested_render_text saves _heading_offset, md_env[temp_root_node] and (by copy) _level_to_section before "
        "the yield and restores each to its saved name under the same guard (plain, try/finally, several branches that cover every path, a restore that also runs where nothing was changed, or += / -= inverse "
        "update); a restore that is skipped for some caller for which the change happens (facts on nested_render_text parameters evaluated per call site: omitted -> "
        "default, constant -> value, other explicit argument -> not None) is a violation; a caller that passes no heading offset leaves the offset unchanged (the write "
        "is skipped under the parameter's default or writes the current offset itself; repair fce582c), and inside an include the offset in force is the enclosing "
        "offset + the :heading-offset: option exactly once when the option is given and the enclosing offset alone when it is not (both cases are evaluated: "
        "`options.get(k, default)` yields the option or its default, `A if k in options else B` selects a branch; composed by the include or by nested_render_text); "
        "while a temp root is set the level map is re-rooted at it: EVERY entry maps to the temp root (conditional values, a copied entry or a filter that drops "
        "level 0 are violations; {0: root} and dict.fromkeys are accepted; repair 4629fdf), so sections of a match_titles body are attached to the directive's node; every other change of the offset or "
        "the temp root during a render must be such a pair itself; a non-None temp_root_node is passed only as `<node> if <flag> else None` where <flag> is traced "
        "to the match_titles parameter of a docutils-state nested_parse and <node> is the argument of the enclosing current_node_context - any other caller "
        "passing a temp root is a violation; the level registered by the section path is exactly tag digit + "
        "heading offset (R5: the section treated as top-level - MathJax ignore classes - is recognised by `not isinstance(section.parent, section)` / parent is the document, "
        "evaluated after the level-state update attached it, or the same test on the node the update returns when it returns, on every path, the node it appended the section to; a comparison of the heading level with a constant in that condition is a violation, repair 2e8a339), the tag digit being int() of tag[1] / tag[1:] / tag.lstrip('h') / tag.removeprefix('h'); a level derived from token.markup is decided against "
        "the parsed markdown-it sources (every heading_open producer must set markup to exactly <level> characters - the setext rule does not, so it is a violation) "
        "(thorough: markdown-it pushes heading_open with 'h'+str(level))."
    ),
    "not_decided": (
        "the resulting nesting for all level sequences as a computed value; what the inline renderers reached through render_children do; third-party directives "
        "that nested-parse into a nodes.section container; "
        "warning conditions that differ only outside the grid (deepest open level > 8, level > 10); extra warning conditions on configuration values (answered ANALYSIS-ERROR); "
        "save/restore conditions that differ in spelling only, e.g. `if x:` vs `if x is not None:` (answered ANALYSIS-ERROR); a level - 1 shortcut that reaches the "
        "parent lookup without a membership test (KeyError territory, answered ANALYSIS-ERROR)"
    ),
    "trusted_base": [
        "CPython ast",
        "mystsa CFG/dominators/post-dominators",
        "docutils/nodes.py class statements (parsed, for the class hierarchy)",
        "markdown-it sets heading tags to 'h'+digit (re-read in the thorough tier)",
    ],
    "assumptions": [
        "docutils node classes do not override __eq__ (current_node == temp_root is identity)",
        "heading-offset is validated as a non-negative int by the include mock's option_spec, so heading levels are unbounded above but >= 1",
        "a renderer attribute written by a non-initialiser function can differ between two headings of one document (used to call a warning condition history-dependent)",
    ],
}

BASE = "mdit_to_docutils.base"
RENDERER = "DocutilsRenderer"
LEVEL_MAP = "_level_to_section"
OFFSET = "_heading_offset"
TEMP_ROOT_KEY = "temp_root_node"
UPDATE = "update_section_level_state"
MUTATORS = {"add", "update", "append", "extend", "insert", "pop", "remove", "discard", "clear", "setdefault", "sort", "popitem", "__setitem__", "__delitem__"}
SECTION = "docutils.nodes.section"
DOCUMENT = "docutils.nodes.document"
RUBRIC = "docutils.nodes.rubric"
# modules whose functions take part in rendering (section constructors elsewhere are listed, not judged)
RENDER_MODULE_MARKS = (".mdit_to_docutils.", ".mocking")


# ---------------------------------------------------------------------------
# small syntactic helpers


def own_exprs(st) -> list[ast.AST]:
    """Expression subtrees that belong to the CFG node of ``st`` itself (compound statements stand for their header)."""
    if not isinstance(st, ast.AST):
        return []
    if isinstance(st, (ast.If, ast.While)):
        return [st.test]
    if isinstance(st, ast.For):
        return [st.iter, st.target]
    if isinstance(st, ast.With):
        out: list[ast.AST] = []
        for i in st.items:
            out.append(i.context_expr)
            if i.optional_vars is not None:
                out.append(i.optional_vars)
        return out
    if isinstance(st, (ast.Try, ast.FunctionDef, ast.AsyncFunctionDef, ast.ClassDef)):
        return []
    if isinstance(st, ast.Match):
        return [st.subject]
    return [st]


def own_nodes(st) -> list[ast.AST]:
    out = []
    for e in own_exprs(st):
        out.extend(n for n in ast.walk(e) if not isinstance(n, (ast.FunctionDef, ast.AsyncFunctionDef, ast.ClassDef)))
    return out


def is_attr(node: ast.AST, attr: str) -> bool:
    return isinstance(node, ast.Attribute) and node.attr == attr


def is_self_attr(node: ast.AST, attr: str) -> bool:
    return is_attr(node, attr) and isinstance(node.value, ast.Name) and node.value.id == "self"


def store_targets(n: ast.AST) -> list[ast.AST]:
    if isinstance(n, ast.Assign):
        out = []
        for t in n.targets:
            out.extend(t.elts if isinstance(t, (ast.Tuple, ast.List)) else [t])
        return out
    if isinstance(n, (ast.AugAssign, ast.AnnAssign)):
        return [n.target] if not (isinstance(n, ast.AnnAssign) and n.value is None) else []
    if isinstance(n, ast.Delete):
        return list(n.targets)
    if isinstance(n, (ast.With,)):
        return [i.optional_vars for i in n.items if i.optional_vars is not None]
    if isinstance(n, ast.For):
        return [n.target]
    return []


def writes_attr(nodes, attr: str) -> list[ast.AST]:
    """Constructs among ``nodes`` that write ``<x>.attr`` (rebinding, item store, mutator call, setattr)."""
    out = []
    for n in nodes:
        for t in store_targets(n) if isinstance(n, ast.stmt) else []:
            if is_attr(t, attr) or (isinstance(t, ast.Subscript) and is_attr(t.value, attr)):
                out.append(n)
        if isinstance(n, ast.Call):
            f = n.func
            if isinstance(f, ast.Attribute) and f.attr in MUTATORS and is_attr(f.value, attr):
                out.append(n)
            if isinstance(f, ast.Name) and f.id in ("setattr", "delattr") and len(n.args) >= 2 and isinstance(n.args[1], ast.Constant) and n.args[1].value == attr:
                out.append(n)
    return out


def rebinds_attr(nodes, attr: str) -> list[ast.AST]:
    out = []
    for n in nodes:
        if isinstance(n, ast.stmt):
            for t in store_targets(n):
                if is_attr(t, attr):
                    out.append(n)
        if isinstance(n, ast.Call) and isinstance(n.func, ast.Name) and n.func.id == "setattr" and len(n.args) >= 2 and isinstance(n.args[1], ast.Constant) and n.args[1].value == attr:
            out.append(n)
    return out


def method_calls(nodes, name: str) -> list[ast.Call]:
    return [n for n in nodes if isinstance(n, ast.Call) and isinstance(n.func, ast.Attribute) and n.func.attr == name]


def resolves_to(call_or_expr: ast.AST, fi: FunctionInfo, full: str) -> bool:
    d = dotted(call_or_expr.func if isinstance(call_or_expr, ast.Call) else call_or_expr)
    return bool(d) and fi.module.resolve(d) == full


def name_assignments(fi: FunctionInfo, name: str) -> list[ast.stmt]:
    """Every statement of ``fi`` that binds the local ``name``."""
    out = []
    for n in fi.local_nodes():
        if isinstance(n, ast.stmt):
            for t in store_targets(n):
                if isinstance(t, ast.Name) and t.id == name:
                    out.append(n)
        if isinstance(n, ast.NamedExpr) and n.target.id == name:
            out.append(n)
        if isinstance(n, ast.comprehension):
            for t in ast.walk(n.target):
                if isinstance(t, ast.Name) and t.id == name:
                    pass  # comprehension scope: not a binding of the function local
    return out


def single_def(fi: FunctionInfo, name: str) -> ast.expr | None:
    """Value of the only plain assignment to local ``name`` (None if it is a parameter or bound more than once)."""
    if name in fi.params:
        return None
    defs = name_assignments(fi, name)
    if len(defs) != 1:
        return None
    d = defs[0]
    if isinstance(d, ast.Assign) and len(d.targets) == 1 and isinstance(d.targets[0], ast.Name):
        return d.value
    if isinstance(d, ast.AnnAssign) and d.value is not None:
        return d.value
    return None


def isinstance_classes(e: ast.expr, fi: FunctionInfo) -> list[str] | None:
    """Resolved class names of the second argument of isinstance (A | B, (A, B), A)."""
    if isinstance(e, ast.BinOp) and isinstance(e.op, ast.BitOr):
        a, b = isinstance_classes(e.left, fi), isinstance_classes(e.right, fi)
        return None if a is None or b is None else a + b
    if isinstance(e, ast.Tuple):
        out: list[str] = []
        for x in e.elts:
            r = isinstance_classes(x, fi)
            if r is None:
                return None
            out += r
        return out
    d = dotted(e)
    if d is None:
        return None
    return [fi.module.resolve(d)]


def is_temp_root_lookup(e: ast.AST) -> str | None:
    """'get' for md_env.get("temp_root_node"[, None]); 'item' for md_env["temp_root_node"]."""
    if isinstance(e, ast.Subscript) and is_attr(e.value, "md_env") and isinstance(e.slice, ast.Constant) and e.slice.value == TEMP_ROOT_KEY:
        return "item"
    if (
        isinstance(e, ast.Call)
        and isinstance(e.func, ast.Attribute)
        and e.func.attr == "get"
        and is_attr(e.func.value, "md_env")
        and e.args
        and isinstance(e.args[0], ast.Constant)
        and e.args[0].value == TEMP_ROOT_KEY
        and (len(e.args) == 1 or (isinstance(e.args[1], ast.Constant) and e.args[1].value is None))
    ):
        return "get"
    return None


# ---------------------------------------------------------------------------
# propositional reading of the structural guard (finite: every atom is a free boolean)

A_TEMPROOT = ("temproot",)
A_HASROOT = ("hasroot",)


class Guard:
    """Turns branch tests of one function into formulas over atoms and decides implications by truth table."""

    def __init__(self, fi: FunctionInfo, corpus: Corpus | None = None, shared: "Guard | None" = None):
        self.fi = fi
        self.opaque: dict[tuple, ast.expr] = shared.opaque if shared is not None else {}
        self.corpus = corpus
        self._supers: dict[str, set[str]] = shared._supers if shared is not None else {}

    def _predicate_helper(self, e: ast.Call):
        """``self.m()`` where m (one implementation) is local assignments followed by ``return <test>``: the formula of <test>."""
        f = e.func
        if self.corpus is None or e.args or e.keywords or not (isinstance(f, ast.Attribute) and isinstance(f.value, ast.Name) and f.value.id == "self") or self.fi.module.name != self.corpus.mod(BASE).name:
            return None
        impls = self.corpus.method_impls(self.corpus.mod(BASE).cls(RENDERER), f.attr)
        if len(impls) != 1:
            return None
        h = impls[0]
        body = [st for st in h.node.body if not (isinstance(st, ast.Expr) and isinstance(st.value, ast.Constant))]
        if not body or not isinstance(body[-1], ast.Return) or body[-1].value is None:
            return None
        if not all(isinstance(st, (ast.Assign, ast.AnnAssign)) and all(isinstance(t, ast.Name) for t in store_targets(st)) for st in body[:-1]):
            return None
        if sum(isinstance(n, ast.Return) for n in h.local_nodes()) != 1:
            return None
        return Guard(h, self.corpus, shared=self).build(body[-1].value, 1)

    def supers(self, cls: str) -> set[str]:
        """Proper superclasses of a docutils.nodes class, read from the (parsed, not imported) sibling source."""
        if cls in self._supers:
            return self._supers[cls]
        out: set[str] = set()
        self._supers[cls] = out
        modname, _, cname = cls.rpartition(".")
        m = self.corpus.sibling_module(modname) if self.corpus is not None and modname.startswith("docutils") else None
        if m is not None and cname in m.classes:
            for b in m.classes[cname].bases:
                out.add(b)
                out |= self.supers(b)
        return out

    def build(self, e: ast.expr, depth: int = 0):
        fi = self.fi
        if depth > 8:
            return self._opaque(e)
        if isinstance(e, ast.Constant) and isinstance(e.value, bool):
            return ("const", e.value)
        if isinstance(e, ast.UnaryOp) and isinstance(e.op, ast.Not):
            return ("not", self.build(e.operand, depth + 1))
        if isinstance(e, ast.BoolOp):
            return ("and" if isinstance(e.op, ast.And) else "or", [self.build(v, depth + 1) for v in e.values])
        if isinstance(e, ast.Name):
            v = single_def(fi, e.id)
            if v is not None and self._def_still_valid(e):
                return self.build(v, depth + 1)
            return self._opaque(e)
        if isinstance(e, ast.Call) and isinstance(e.func, ast.Attribute):
            ph = self._predicate_helper(e) if depth < 6 else None
            if ph is not None:
                return ph
        if isinstance(e, ast.Call) and dotted(e.func) == "isinstance" and len(e.args) == 2 and not e.keywords:
            if is_self_attr(e.args[0], "current_node"):
                classes = isinstance_classes(e.args[1], fi)
                if classes:
                    return ("or", [("atom", ("inst", c)) for c in classes])
            return self._opaque(e)
        if isinstance(e, ast.Compare) and len(e.ops) == 1:
            l, r, op = self._deref(e.left), self._deref(e.comparators[0]), e.ops[0]
            for a, b in ((l, r), (r, l)):
                if is_self_attr(a, "current_node") and is_temp_root_lookup(b):
                    if isinstance(op, (ast.Eq, ast.Is)):
                        return ("atom", A_TEMPROOT)
                    if isinstance(op, (ast.NotEq, ast.IsNot)):
                        return ("not", ("atom", A_TEMPROOT))
                if is_temp_root_lookup(a) == "get" and isinstance(b, ast.Constant) and b.value is None:
                    if isinstance(op, (ast.IsNot, ast.NotEq)):
                        return ("atom", A_HASROOT)
                    if isinstance(op, (ast.Is, ast.Eq)):
                        return ("not", ("atom", A_HASROOT))
            return self._opaque(e)
        return self._opaque(e)

    def _deref(self, e: ast.expr) -> ast.expr:
        """A local that was assigned once, in the same block and with only local assignments in between, stands for its value."""
        if isinstance(e, ast.Name):
            v = single_def(self.fi, e.id)
            if v is not None and not isinstance(v, ast.Name) and self._def_still_valid(e):
                return v
        return e

    def _def_still_valid(self, use: ast.Name) -> bool:
        """The single definition and the use sit in one block with only local-name assignments between them."""
        defs = name_assignments(self.fi, use.id)
        d = defs[0]
        st = use
        while st is not None and not isinstance(st, ast.stmt):
            st = parent(st)
        blk = None
        p = parent(d)
        for fld in ("body", "orelse", "finalbody"):
            if d in getattr(p, fld, []):
                blk = getattr(p, fld)
        if blk is None or st not in blk:
            return False
        i, j = blk.index(d), blk.index(st)
        if i >= j:
            return False
        for mid in blk[i + 1 : j]:
            if not (isinstance(mid, (ast.Assign, ast.AnnAssign)) and all(isinstance(t, ast.Name) for t in store_targets(mid))):
                return False
            if any(isinstance(c, ast.Call) and isinstance(c.func, ast.Attribute) and isinstance(c.func.value, ast.Name) and c.func.value.id == "self" for c in ast.walk(mid)):
                return False
        return True

    def _opaque(self, e: ast.expr):
        a = ("opaque", unparse(e))
        self.opaque[a] = e
        return ("atom", a)

    def conj(self, facts: list[tuple[ast.expr, bool]]):
        parts = []
        for t, pol in facts:
            f = self.build(t)
            parts.append(f if pol else ("not", f))
        return ("and", parts)

    @staticmethod
    def atoms(f, acc: set | None = None) -> set:
        acc = set() if acc is None else acc
        if f[0] == "atom":
            acc.add(f[1])
        elif f[0] == "not":
            Guard.atoms(f[1], acc)
        elif f[0] in ("and", "or"):
            for x in f[1]:
                Guard.atoms(x, acc)
        return acc

    @staticmethod
    def ev(f, env: dict) -> bool:
        if f[0] == "const":
            return f[1]
        if f[0] == "atom":
            return env[f[1]]
        if f[0] == "not":
            return not Guard.ev(f[1], env)
        if f[0] == "and":
            return all(Guard.ev(x, env) for x in f[1])
        return any(Guard.ev(x, env) for x in f[1])

    def implies(self, premise, conclusion) -> dict | None:
        """None if premise => conclusion for every valuation, else a counter-valuation."""
        atoms = sorted(self.atoms(premise) | self.atoms(conclusion))
        if len(atoms) > 12:
            raise Unsupported("structural guard has too many atoms")
        for vals in itertools.product((False, True), repeat=len(atoms)):
            env = dict(zip(atoms, vals))
            # a node has one class: document and section are exclusive
            if env.get(("inst", DOCUMENT)) and env.get(("inst", SECTION)):
                continue
            # an instance of a class is an instance of its superclasses
            insts = [a[1] for a in atoms if a[0] == "inst"]
            if any(env[("inst", c)] and not env[("inst", sup)] for c in insts for sup in insts if sup in self.supers(c)):
                continue
            if self.ev(premise, env) and not self.ev(conclusion, env):
                return env
        return None

    def unknown_idiom(self, formula) -> str | None:
        """An opaque atom that may hide the structural test (a call, a bare name, anything about current_node/md_env)."""
        for a in self.atoms(formula):
            if a[0] != "opaque":
                continue
            e = self.opaque[a]
            for n in ast.walk(e):
                if isinstance(n, ast.Attribute) and n.attr in ("current_node", "md_env"):
                    return a[1]
                # a call that could be a structural predicate: a method of the renderer, or a plain function (helper) call
                if isinstance(n, ast.Call) and (isinstance(n.func, ast.Name) or (isinstance(n.func, ast.Attribute) and isinstance(n.func.value, ast.Name) and n.func.value.id == "self")):
                    return a[1]
            if isinstance(e, ast.Name):
                return a[1]
        return None


def describe_env(env: dict) -> str:
    parts = []
    for a, v in sorted(env.items()):
        if a[0] == "inst":
            txt = f"current_node is{'' if v else ' not'} a {a[1].rsplit('.', 1)[-1]}"
        elif a == A_TEMPROOT:
            txt = f"current_node is{'' if v else ' not'} the temp root"
        elif a == A_HASROOT:
            txt = f"a temp root is{'' if v else ' not'} set"
        else:
            txt = f"{a[1]} is {v}"
        parts.append(txt)
    return "; ".join(parts)


STRUCT_OR_ROOT = ("or", [("atom", ("inst", DOCUMENT)), ("atom", ("inst", SECTION)), ("atom", A_TEMPROOT)])
NOT_STRUCT = ("and", [("not", ("atom", ("inst", DOCUMENT))), ("not", ("atom", ("inst", SECTION)))])


# ---------------------------------------------------------------------------
# anchors


def _renderer_funcs(corpus: Corpus):
    base = corpus.mod(BASE)
    return base, base.func(f"{RENDERER}.render_heading"), base.func(f"{RENDERER}.{UPDATE}")


def _helper_constructs(corpus: Corpus, base, call: ast.Call, full: str) -> bool:
    """``call`` is ``self.<helper>(...)`` and every implementation of the helper returns a node it constructs as ``full``."""
    f = call.func
    if not (isinstance(f, ast.Attribute) and isinstance(f.value, ast.Name) and f.value.id == "self"):
        return False
    impls = corpus.method_impls(base.cls(RENDERER), f.attr)
    if not impls:
        return False
    for impl in impls:
        rets = [n for n in impl.local_nodes() if isinstance(n, ast.Return)]
        if not rets:
            return False
        for r in rets:
            v = r.value
            if isinstance(v, ast.Name):
                v = single_def(impl, v.id)
            if not (isinstance(v, ast.Call) and resolves_to(v, impl, full)):
                return False
    return True


def _in_render_scope(fi: FunctionInfo) -> bool:
    return any(m in fi.module.name + "." for m in RENDER_MODULE_MARKS)


def _all_plain_functions(corpus: Corpus):
    return [f for f in corpus.all_functions() if not f.is_lambda]


def _callers_by_name(corpus: Corpus, name: str) -> list[tuple[FunctionInfo, ast.Call]]:
    out = []
    for fi in _all_plain_functions(corpus):
        for c in method_calls(fi.local_nodes(), name):
            out.append((fi, c))
    return out


# ---------------------------------------------------------------------------
# the heading code: render_heading plus the private helper methods only it (transitively) calls


class HeadingCode:
    def __init__(self, corpus: Corpus, base, rh: FunctionInfo, upd: FunctionInfo):
        self.corpus, self.base, self.rh, self.upd = corpus, base, rh, upd
        self.rcls = base.cls(RENDERER)
        self.funcs: dict[str, FunctionInfo] = {rh.fq: rh}
        self.sites: dict[str, list[tuple[FunctionInfo, ast.Call]]] = {}
        self._callers: dict[str, list] = {}
        for _round in range(3):
            grown = False
            for f in list(self.funcs.values()):
                for c in f.local_nodes():
                    if not (isinstance(c, ast.Call) and isinstance(c.func, ast.Attribute) and isinstance(c.func.value, ast.Name) and c.func.value.id == "self"):
                        continue
                    impls = corpus.method_impls(self.rcls, c.func.attr)
                    if len(impls) != 1 or impls[0].fq in self.funcs or impls[0].fq == upd.fq or impls[0].is_generator():
                        continue
                    callers = self.callers(c.func.attr)
                    if callers and all(cf.fq in self.funcs for cf, _ in callers):
                        self.funcs[impls[0].fq] = impls[0]
                        self.sites[impls[0].fq] = callers
                        grown = True
            if not grown:
                break
        self.g0 = Guard(rh, corpus)
        self._guards: dict[str, Guard] = {rh.fq: self.g0}

    def callers(self, name: str):
        if name not in self._callers:
            self._callers[name] = _callers_by_name(self.corpus, name)
        return self._callers[name]

    def guard(self, f: FunctionInfo) -> Guard:
        if f.fq not in self._guards:
            self._guards[f.fq] = Guard(f, self.corpus, shared=self.g0)
        return self._guards[f.fq]

    def premises(self, f: FunctionInfo, st, depth: int = 0) -> list:
        """One formula per call chain from render_heading: everything known to hold when ``st`` of ``f`` executes."""
        local = self.guard(f).conj(get_cfg(f).guards(st))
        if f.fq == self.rh.fq:
            return [local]
        if depth > 3:
            raise Unsupported("helper chain too deep")
        out = []
        for cf, call in self.sites.get(f.fq, []):
            for p in self.premises(cf, get_cfg(cf).stmt_of(call), depth + 1):
                out.append(("and", [local, p]))
        return out

    def find(self, pred) -> list[tuple[FunctionInfo, ast.AST]]:
        out = []
        for f in self.funcs.values():
            for n in f.local_nodes():
                if pred(f, n):
                    out.append((f, n))
        return out

    def update_call(self) -> tuple[FunctionInfo, ast.Call]:
        calls = self.find(lambda f, n: isinstance(n, ast.Call) and isinstance(n.func, ast.Attribute) and n.func.attr == UPDATE)
        if len(calls) != 1 or None in _update_args(calls[0][1]) or any(isinstance(a, ast.Starred) for a in calls[0][1].args):
            raise Unsupported(f"the heading code calls the level-state update {len(calls)} time(s) / not as (section, level)")
        return calls[0]

    # -- symbolic value of a local as a signed sum of terms (reaching definitions, through helper parameters) ------
    def reaching(self, f: FunctionInfo, name: str, at) -> tuple[set, bool]:
        cfg = get_cfg(f)
        defs = {cfg.stmt_of(d) for d in name_assignments(f, name)}
        seen, found, entry = set(), set(), False
        work = list(cfg.pred.get(at, []))
        while work:
            n = work.pop()
            if n in seen:
                continue
            seen.add(n)
            if n in defs:
                found.add(n)
                continue
            if n == ENTRY:
                entry = True
                continue
            work.extend(cfg.pred.get(n, []))
        return found, entry

    def terms(self, e: ast.expr, f: FunctionInfo, at, depth: int = 0) -> list[tuple[int, str]]:
        """``e`` evaluated at CFG statement ``at`` of ``f`` as a sorted signed sum, e.g. [(1, 'TAG'), (1, 'OFFSET')]."""
        if depth > 12:
            raise Unsupported("level expression too deep")
        if isinstance(e, ast.BinOp) and isinstance(e.op, (ast.Add, ast.Sub)):
            sgn = 1 if isinstance(e.op, ast.Add) else -1
            return sorted(self.terms(e.left, f, at, depth + 1) + [(sgn * s_, t) for s_, t in self.terms(e.right, f, at, depth + 1)])
        if _is_tag_digit(e):
            return [(1, "TAG")]
        if is_self_attr(e, OFFSET):
            return [(1, "OFFSET")]
        if isinstance(e, ast.Name):
            found, entry = self.reaching(f, e.id, at)
            if not found:
                if e.id in f.params and f.fq != self.rh.fq:
                    sites = self.sites.get(f.fq, [])
                    if len(sites) != 1:
                        raise Unsupported(f"parameter `{e.id}` of {f.qualname} has {len(sites)} call sites")
                    cf, call = sites[0]
                    idx = f.params.index(e.id) - (1 if f.params and f.params[0] == "self" else 0)
                    arg = call.args[idx] if 0 <= idx < len(call.args) and not any(isinstance(a, ast.Starred) for a in call.args) else kwarg(call, e.id)
                    if arg is None:
                        raise Unsupported(f"no argument for parameter `{e.id}` of {f.qualname}")
                    return self.terms(arg, cf, get_cfg(cf).stmt_of(call), depth + 1)
                return [(1, f"{e.id}")]
            if len(found) > 1 or entry:
                raise Unsupported(f"`{e.id}` merges several definitions at {f.module.site(at)}")
            d = next(iter(found))
            if isinstance(d, ast.Assign) and len(d.targets) == 1 and isinstance(d.targets[0], ast.Name):
                return self.terms(d.value, f, d, depth + 1)
            if isinstance(d, ast.AnnAssign) and d.value is not None:
                return self.terms(d.value, f, d, depth + 1)
            if isinstance(d, ast.AugAssign) and isinstance(d.op, (ast.Add, ast.Sub)) and isinstance(d.target, ast.Name):
                sgn = 1 if isinstance(d.op, ast.Add) else -1
                return sorted(self.terms(d.target, f, d, depth + 1) + [(sgn * s_, t) for s_, t in self.terms(d.value, f, d, depth + 1)])
            raise Unsupported(f"definition `{short(d, 40)}` of `{e.id}` not understood")
        if _markup_derived(e):
            return [(1, "MARKUP:" + unparse(e))]
        return [(1, unparse(e))]


def terms_text(ts: list[tuple[int, str]]) -> str:
    names = {"TAG": "int(token.tag[1])", "OFFSET": "self._heading_offset"}
    out = ""
    for sgn, t in ts:
        out += (" + " if sgn > 0 else " - ") + names.get(t, t.removeprefix("MARKUP:"))
    return out[3:] if out.startswith(" + ") else out.strip()


def _heading_code(corpus: Corpus) -> HeadingCode:
    base, rh, upd = _renderer_funcs(corpus)
    return corpus.cache("c05-heading-code", lambda: HeadingCode(corpus, base, rh, upd))


# ---------------------------------------------------------------------------
# R1


def _scratch_document_transfers(fi: FunctionInfo) -> list[tuple[str, ast.AST]]:
    """(local, attaching construct) where ``local`` is a fresh document (make_document / new_document) that is handed to a
    ``.parse(text, local)`` call and whose children are then appended to ``self.current_node``."""
    out = []
    for d in fi.local_nodes():
        if not (isinstance(d, ast.Assign) and len(d.targets) == 1 and isinstance(d.targets[0], ast.Name) and isinstance(d.value, ast.Call)):
            continue
        full = fi.module.resolve(dotted(d.value.func) or "")
        if not (full.endswith(".make_document") or full.endswith(".new_document") or full in ("make_document", "new_document")):
            continue
        loc = d.targets[0].id
        parsed = any(
            isinstance(c, ast.Call) and isinstance(c.func, ast.Attribute) and c.func.attr in ("parse", "run") and any(isinstance(a_, ast.Name) and a_.id == loc for a_ in c.args)
            for c in fi.local_nodes()
        )
        if not parsed:
            continue

        def is_children(e: ast.AST) -> bool:
            return (isinstance(e, ast.Attribute) and e.attr == "children" and isinstance(e.value, ast.Name) and e.value.id == loc) or (isinstance(e, ast.Name) and e.id == loc) or (
                isinstance(e, ast.Starred) and is_children(e.value)
            ) or (isinstance(e, ast.Call) and dotted(e.func) in ("list", "tuple") and len(e.args) == 1 and is_children(e.args[0]))

        for n in fi.local_nodes():
            if isinstance(n, ast.Call) and isinstance(n.func, ast.Attribute) and n.func.attr in ("extend", "append", "insert") and is_attr(n.func.value, "current_node") and any(is_children(a_) for a_ in n.args):
                out.append((loc, n))
            if isinstance(n, ast.AugAssign) and isinstance(n.op, ast.Add) and is_attr(n.target, "current_node") and is_children(n.value):
                out.append((loc, n))
    return out


@rule("C05.R1")
def r1_context_guard(corpus: Corpus, rep: Report, tier: str):
    rep.rule("C05.R1", "section construction, level-state update and current_node stores of render_heading lie behind the structural guard; the rubric branch only outside document/section")
    base, rh, upd = _renderer_funcs(corpus)
    hc = _heading_code(corpus)
    g = hc.g0
    rcls = base.cls(RENDERER)
    for f in hc.funcs.values():
        rep.saw_function(f.fq)
    for name in ("render_heading", UPDATE, "nested_render_text", "current_node_context", "setup_render"):
        impls = corpus.method_impls(rcls, name)
        if len(impls) != 1:
            raise Unsupported(f"{name} has {len(impls)} implementations (a renderer subclass overrides it): the rules read the base implementation only")

    # S-statements of the heading code (render_heading and the helpers only it calls): (kind, function, node)
    s_stmts: list[tuple[str, FunctionInfo, ast.AST]] = []
    for fi in _all_plain_functions(corpus):
        for n in fi.local_nodes():
            if isinstance(n, ast.Call) and resolves_to(n, fi, SECTION):
                rep.saw_call(fi.module.site(n))
                if fi.fq in hc.funcs:
                    s_stmts.append(("constructs nodes.section", fi, n))
                elif _in_render_scope(fi):
                    rep.error("C05.R1", f"nodes.section is constructed in {fi.fq}, which is not render_heading or a helper called only from it: not understood")
                else:
                    rep.listed("C05.R1", f"{fi.fq}|constructs nodes.section", fi.module.site(n), "outside the rendering modules: not judged")
    for fi, c in hc.callers(UPDATE):
        rep.saw_call(fi.module.site(c))
        if fi.fq in hc.funcs:
            s_stmts.append((f"calls {UPDATE}", fi, c))
        else:
            rep.error("C05.R1", f"{UPDATE} is called from {fi.fq} ({fi.module.site(c)}): a caller outside the heading code is not understood")
    for f in hc.funcs.values():
        for n in rebinds_attr(f.local_nodes(), "current_node"):
            s_stmts.append(("stores current_node", f, n))

    for need in ("constructs nodes.section", f"calls {UPDATE}"):
        if not any(need in k for k, _, _ in s_stmts):
            raise Unsupported(f"render_heading: no statement that {need} (moved to an idiom this rule does not know)")

    def judge(k: str, site: str, label: str, prems: list, goal, ok_txt: str, bad_txt) -> None:
        if not prems:
            raise Unsupported(f"no call chain from render_heading to {label}")
        for prem in prems:
            cex = g.implies(prem, goal)
            if cex is None:
                continue
            unk = g.unknown_idiom(prem)
            if unk:
                rep.error("C05.R1", f"{site}: guard of {label} contains `{unk}`, which this rule cannot read as a structural test")
            else:
                rep.violation("C05.R1", k, site, bad_txt(cex))
            return
        rep.ok("C05.R1", k, site, ok_txt)

    for kind, f, node in s_stmts:
        judge(
            f"{f.fq}|{kind}|{short(node, 60)}",
            f.module.site(node),
            f"`{short(node, 50)}`",
            hc.premises(f, get_cfg(f).stmt_of(node)),
            STRUCT_OR_ROOT,
            "dominated by: current node is document/section or the match_titles temp root",
            lambda cex, kind=kind: f"render_heading {kind} on a path where the structural guard does not hold ({describe_env(cex) or 'no guard at all'}): "
            "a heading inside a container opens a section / disturbs the section state",
        )

    # converse: the rubric branch is only taken outside document/section
    rs = _rubric_site(corpus, base, rh)
    n = rs.rcall if rs.hcall is None else rs.hcall
    judge(
        f"{rh.fq}|rubric branch only outside document/section|{short(n, 50)}",
        base.site(n),
        "the rubric branch",
        hc.premises(rh, rs.entry),
        NOT_STRUCT,
        "dominated by: current node is neither document nor section",
        lambda cex: f"the rubric branch can be taken at document level ({describe_env(cex) or 'unguarded'}): a heading directly under the document or a section becomes a rubric instead of a section",
    )
    # rST titles: the children of a scratch document that an rST parser filled (they may be sections) are moved below
    # current_node only where a section may live, or after the sections were turned into rubrics where it may not
    for fi in _all_plain_functions(corpus):
        if not _in_render_scope(fi):
            continue
        for loc, attach in _scratch_document_transfers(fi):
            rep.saw_function(fi.fq)
            cfg_f = get_cfg(fi)
            gf = Guard(fi, corpus, shared=g)
            k = f"{fi.fq}|sections of an rST scratch document attached below current_node without the structural guard"
            st = cfg_f.stmt_of(attach)
            prem = gf.conj(cfg_f.guards(st))
            if g.implies(prem, STRUCT_OR_ROOT) is None:
                rep.ok("C05.R1", k, fi.module.site(attach), "the transfer is dominated by: current node is document/section or the temp root")
                continue
            converted = False
            for c in fi.local_nodes():
                if isinstance(c, ast.Call) and any(isinstance(a_, ast.Name) and a_.id == loc for a_ in c.args) and c.lineno < attach.lineno:
                    tgt = corpus.find_function(fi.module.resolve(dotted(c.func) or "")) if dotted(c.func) else None
                    if tgt is None and isinstance(c.func, ast.Attribute) and isinstance(c.func.value, ast.Name) and c.func.value.id == "self":
                        tgt = corpus.lookup_method(base.cls(RENDERER), c.func.attr)
                    if tgt is not None and any(isinstance(n_, ast.Call) and resolves_to(n_, tgt, RUBRIC) for n_ in tgt.local_nodes()):
                        pc = gf.conj(cfg_f.guards(cfg_f.stmt_of(c)))
                        # the conversion runs whenever a section may not live here: not(guard of the conversion) => structural
                        if g.implies(("not", pc), STRUCT_OR_ROOT) is None:
                            converted = True
            if converted:
                rep.ok("C05.R1", k, fi.module.site(attach), "sections are converted to rubrics whenever the current node is not a document/section/temp root")
            elif g.unknown_idiom(prem):
                rep.error("C05.R1", f"{fi.module.site(attach)}: guard of the scratch-document transfer contains `{g.unknown_idiom(prem)}`, not readable as a structural test")
            else:
                rep.violation(
                    "C05.R1",
                    k,
                    fi.module.site(attach),
                    f"{fi.qualname} moves the children of the rST-parsed scratch document `{loc}` below current_node (`{short(attach, 60)}`) whatever that node is: an rST section title in an "
                    "{eval-rst} block inside a block quote, list item or directive body opens a <section> below that container, while the Markdown heading at the same place becomes a rubric",
                )

    # evidence only: the one deliberate exception to "a heading inside a container never opens a section"
    rep.listed(
        "C05.R1",
        f"{rh.fq}|temp-root exception",
        rh.site(),
        "a heading directly under the node of a nested parse with match_titles=True takes the section path (by design of the code; "
        "R4 checks that the level map is re-rooted at that node for the duration of the nested parse, so the section is attached to it)",
    )
    rep.expect_min("C05.R1", 4, "section construction, level-state update, current_node store, rubric branch")


# ---------------------------------------------------------------------------
# R2 rubric path purity


def _cm_restores(fi: FunctionInfo, attr: str) -> bool:
    """``fi`` is a @contextmanager generator that saves ``self.<attr>`` before its single yield and restores the saved
    name on every normal path after it (plain or try/finally layout)."""
    if not fi.is_generator() or not any(d.endswith("contextmanager") for d in fi.decorators()):
        return False
    ys = [n for n in fi.local_nodes() if isinstance(n, (ast.Yield, ast.YieldFrom))]
    if len(ys) != 1:
        return False
    cfg = get_cfg(fi)
    yst = cfg.stmt_of(ys[0])
    stmts = [s for s in fi.local_nodes() if isinstance(s, ast.stmt) and s in cfg.succ]
    after = cfg.reachable_from(yst)
    pre = [s for s in stmts if s is not yst and s not in after and yst in cfg.reachable_from(s)]
    post = [s for s in stmts if s is not yst and s in after]
    if set(pre) & set(post):
        return False
    saves = [s for s in pre if isinstance(s, ast.Assign) and len(s.targets) == 1 and isinstance(s.targets[0], ast.Name) and is_self_attr(s.value, attr) and not cfg.guards(s)]
    if not saves:
        return False
    save = saves[-1]
    saved = save.targets[0].id
    if len(name_assignments(fi, saved)) != 1:
        return False
    # every pre-yield store of the attribute comes after the save
    for s in pre:
        if s is not save and rebinds_attr(own_nodes(s), attr) and not cfg.dominates(save, s):
            return False
    restores = [s for s in post if isinstance(s, ast.Assign) and len(s.targets) == 1 and is_self_attr(s.targets[0], attr) and isinstance(s.value, ast.Name) and s.value.id == saved]
    others = [s for s in post if s not in restores and rebinds_attr(own_nodes(s), attr)]
    return len(restores) == 1 and not others and cfg.postdominates(restores[0], yst)


def _attach_events(st, var: str, fi: FunctionInfo) -> tuple[int, list[str]]:
    """(number of attachments of local ``var`` performed by CFG node ``st``, unknown receivers)."""
    n_att = 0
    unknown: list[str] = []

    def receiver_ok(r: ast.expr) -> bool:
        if is_self_attr(r, "current_node"):
            return True
        if isinstance(r, ast.Name):
            v = single_def(fi, r.id)
            return v is not None and is_self_attr(v, "current_node")
        return False

    for n in own_nodes(st):
        if isinstance(n, ast.Call) and isinstance(n.func, ast.Attribute):
            f = n.func
            names_in_args = [a for a in n.args if isinstance(a, ast.Name) and a.id == var] + [
                e for a in n.args if isinstance(a, (ast.List, ast.Tuple)) for e in a.elts if isinstance(e, ast.Name) and e.id == var
            ]
            if f.attr in ("append", "extend", "insert") and names_in_args:
                n_att += 1
                if not receiver_ok(f.value):
                    unknown.append(unparse(f.value))
            if f.attr == "current_node_context" and n.args and isinstance(n.args[0], ast.Name) and n.args[0].id == var:
                ap = n.args[1] if len(n.args) > 1 else kwarg(n, "append")
                if ap is None or (isinstance(ap, ast.Constant) and ap.value is False):
                    pass
                elif isinstance(ap, ast.Constant) and ap.value is True:
                    n_att += 1
                else:
                    unknown.append(f"append={unparse(ap)}")
        if isinstance(n, ast.AugAssign) and isinstance(n.op, ast.Add) and any(isinstance(x, ast.Name) and x.id == var for x in ast.walk(n.value)):
            n_att += 1
            if not receiver_ok(n.target):
                unknown.append(unparse(n.target))
    return n_att, unknown


class RubricSite:
    """Where the non-structural rubric is built: in render_heading itself or in a helper method it calls."""

    def __init__(self, corpus: Corpus, base, rh: FunctionInfo):
        self.rh = rh
        cfg = get_cfg(rh)
        direct = [n for n in rh.local_nodes() if isinstance(n, ast.Call) and resolves_to(n, rh, RUBRIC)]
        self.hcall: ast.Call | None = None
        self.rh_var: str | None = None
        if len(direct) > 1:
            raise Unsupported(f"render_heading constructs nodes.rubric {len(direct)} times (expected one non-structural branch)")
        if direct:
            self.fi, self.rcall = rh, direct[0]
        else:
            cands = []
            for c in rh.local_nodes():
                if isinstance(c, ast.Call) and isinstance(c.func, ast.Attribute) and isinstance(c.func.value, ast.Name) and c.func.value.id == "self":
                    impls = corpus.method_impls(base.cls(RENDERER), c.func.attr)
                    if len(impls) == 1:
                        rc = [n for n in impls[0].local_nodes() if isinstance(n, ast.Call) and resolves_to(n, impls[0], RUBRIC)]
                        if len(rc) == 1:
                            cands.append((c, impls[0], rc[0]))
            if len(cands) != 1:
                raise Unsupported(f"render_heading constructs no nodes.rubric itself and calls {len(cands)} helper(s) that do (non-structural branch not found)")
            self.hcall, self.fi, self.rcall = cands[0]
            if any(isinstance(a, ast.Starred) for a in self.hcall.args) or any(kw.arg is None for kw in self.hcall.keywords):
                raise Unsupported("rubric helper called with */** arguments")
        fcfg = get_cfg(self.fi)
        self.rst = fcfg.stmt_of(self.rcall)
        if isinstance(self.rst, ast.Return) and self.rst.value is self.rcall:
            self.rvar = None  # returned at once: never attached inside the helper
        elif isinstance(self.rst, ast.Assign) and len(self.rst.targets) == 1 and isinstance(self.rst.targets[0], ast.Name) and self.rst.value is self.rcall:
            self.rvar = self.rst.targets[0].id
            if len(name_assignments(self.fi, self.rvar)) != 1:
                raise Unsupported(f"local `{self.rvar}` is bound more than once")
        else:
            raise Unsupported("the rubric is not bound to a local name")
        self.entry = self.rst if self.hcall is None else cfg.stmt_of(self.hcall)
        if self.hcall is not None:
            rets = [n for n in self.fi.local_nodes() if isinstance(n, ast.Return) and n.value is not None]
            returns_rubric = bool(rets) and all((isinstance(r.value, ast.Name) and r.value.id == self.rvar) or r.value is self.rcall for r in rets)
            if rets and not returns_rubric:
                raise Unsupported("rubric helper returns something other than the rubric")
            if returns_rubric:
                e = self.entry
                if isinstance(e, ast.Assign) and len(e.targets) == 1 and isinstance(e.targets[0], ast.Name) and e.value is self.hcall and len(name_assignments(rh, e.targets[0].id)) == 1:
                    self.rh_var = e.targets[0].id
                elif not (isinstance(e, ast.Expr) and e.value is self.hcall):
                    raise Unsupported("the rubric returned by the helper is not bound to a single-assignment local")

    def rh_region(self) -> list[ast.AST]:
        """CFG statements of render_heading from the start of the rubric path to the exit."""
        region = [n for n in get_cfg(self.rh).reachable_from(self.entry) if isinstance(n, ast.AST)]
        region.sort(key=lambda s: (s.lineno, s.col_offset))
        return region

    def helper_region(self) -> list[ast.AST]:
        if self.hcall is None:
            return []
        region = [n for n in get_cfg(self.fi).reachable_from(self.rst) if isinstance(n, ast.AST)]
        region.sort(key=lambda s: (s.lineno, s.col_offset))
        return region

    def argument_for(self, name: str) -> ast.expr | None:
        """The expression render_heading passes for helper parameter ``name``."""
        if self.hcall is None or name not in self.fi.params or name_assignments(self.fi, name):
            return None
        idx = self.fi.params.index(name) - (1 if self.fi.params and self.fi.params[0] == "self" else 0)
        if 0 <= idx < len(self.hcall.args):
            return self.hcall.args[idx]
        return kwarg(self.hcall, name)


def _rubric_site(corpus: Corpus, base, rh: FunctionInfo) -> RubricSite:
    return corpus.cache("c05-rubric-site", lambda: RubricSite(corpus, base, rh))


@rule("C05.R2")
def r2_rubric_path_purity(corpus: Corpus, rep: Report, tier: str):
    rep.rule("C05.R2", "rubric path: no level-map write, no level-state update, current_node only through the restoring context manager; rubric carries the level and is attached once")
    base, rh, upd = _renderer_funcs(corpus)
    cfg = get_cfg(rh)
    rcls = base.cls(RENDERER)
    rs = _rubric_site(corpus, base, rh)
    rcall, rst, rvar = rs.rcall, rs.rst, rs.rvar
    rmod = rs.fi.module
    region = rs.rh_region() + rs.helper_region()
    region_nodes = [n for st in region for n in own_nodes(st)]
    if rs.hcall is not None:
        rep.saw_function(rs.fi.fq)

    # (a) direct effects in the region
    k0 = f"{rh.fq}|rubric path"
    bad = False
    for n in writes_attr(region_nodes, LEVEL_MAP):
        bad = True
        rep.violation("C05.R2", f"{k0}|writes {LEVEL_MAP}|{short(n, 50)}", base.site(n), f"the non-structural (rubric) path writes the level map: `{short(n, 60)}` - the surrounding section structure is affected by a nested heading")
    for n in method_calls(region_nodes, UPDATE):
        bad = True
        rep.violation("C05.R2", f"{k0}|calls {UPDATE}|{short(n, 50)}", base.site(n), "the rubric path calls the level-state update: a nested heading changes the open sections")
    for n in rebinds_attr(region_nodes, "current_node"):
        bad = True
        rep.violation("C05.R2", f"{k0}|stores current_node|{short(n, 50)}", base.site(n), f"the rubric path rebinds current_node directly (`{short(n, 50)}`): after a nested heading the following blocks are rendered into the wrong node")
    if not bad:
        rep.ok("C05.R2", f"{k0}|no direct write to the level map / current_node, no level-state update", base.site(rst), f"{len(region)} statement(s) from the rubric construction to the exit")

    # (b) directly called renderer methods
    seen: set[str] = set()
    for n in region_nodes:
        if not (isinstance(n, ast.Call) and isinstance(n.func, ast.Attribute) and isinstance(n.func.value, ast.Name) and n.func.value.id == "self"):
            continue
        for impl in corpus.method_impls(rcls, n.func.attr):
            if impl.fq in seen or (rs.hcall is not None and impl.fq == rs.fi.fq):
                continue
            seen.add(impl.fq)
            rep.saw_function(impl.fq)
            k = f"{k0}|callee {impl.fq}"
            nodes_ = impl.local_nodes()
            w = writes_attr(nodes_, LEVEL_MAP) or method_calls(nodes_, UPDATE)
            cn = rebinds_attr(nodes_, "current_node")
            if w:
                rep.violation("C05.R2", k, impl.module.site(w[0]), f"{impl.qualname}, called on the rubric path, changes the section level state (`{short(w[0], 50)}`)")
            elif cn and not _cm_restores(impl, "current_node"):
                rep.violation("C05.R2", k, impl.module.site(cn[0]), f"{impl.qualname}, called on the rubric path, rebinds current_node and is not a context manager that restores the saved node after its yield")
            else:
                rep.ok("C05.R2", k, impl.site(), "saves and restores current_node around the yield" if cn else "no write to level map / current_node")

    # (c) the rubric records the level: the same quantity the section path registers
    hc = _heading_code(corpus)
    uf, ucall = hc.update_call()
    sec_terms = hc.terms(_update_args(ucall)[1], uf, get_cfg(uf).stmt_of(ucall))
    lv = kwarg(rcall, "level")
    k = f"{rh.fq}|rubric level= is the heading level"
    if lv is None:
        rep.violation("C05.R2", k, rmod.site(rcall), "the rubric is built without level=: the nested heading does not record its level")
    else:
        if rs.fi.fq not in hc.funcs:
            raise Unsupported("the rubric helper is not part of the heading code")
        rub_terms = hc.terms(lv, rs.fi, rst)
        if rub_terms == sec_terms:
            rep.ok("C05.R2", k, rmod.site(rcall), f"level={unparse(lv)} = {terms_text(rub_terms)}, the value also passed to {UPDATE}")
        else:
            rep.violation(
                "C05.R2",
                k,
                rmod.site(rcall),
                f"the rubric records level={unparse(lv)} = {terms_text(rub_terms)} but the section path registers {terms_text(sec_terms)}: the recorded level is not the heading's level",
            )

    # (d) attached exactly once on every path to the exit
    unknown: list[str] = []

    def count_in(fi: FunctionInfo, start, var: str | None) -> set[int] | None:
        if var is None:
            return {0}

        def weight(st):
            n, unk = _attach_events(st, var, fi)
            unknown.extend(unk)
            return n

        return get_cfg(fi).counts(start, [EXIT], weight).get(EXIT)

    total = count_in(rs.fi, rst, rvar)
    if rs.hcall is not None and total is not None:
        outer = count_in(rh, rs.entry, rs.rh_var)
        total = None if outer is None else {min(2, a + b) for a in total for b in outer}
    k = f"{rh.fq}|rubric attached exactly once"
    if unknown:
        rep.error("C05.R2", f"the rubric is attached to `{unknown[0]}`, which this rule cannot relate to current_node")
    elif total is None:
        rep.error("C05.R2", "no normal path from the rubric construction to the exit")
    elif total == {1}:
        rep.ok("C05.R2", k, rmod.site(rcall), "one attachment to current_node on every path")
    else:
        rep.violation("C05.R2", k, rmod.site(rcall), f"the rubric is attached {sorted(total)} time(s) on the paths to the exit (2 = two or more): expected exactly once (nested heading lost or duplicated)")
    rep.expect_min("C05.R2", 6, "region purity, >=3 callees, level=, attached once")


# ---------------------------------------------------------------------------
# R3 ordering roles in update_section_level_state

FLIP = {ast.Lt: ast.Gt, ast.Gt: ast.Lt, ast.LtE: ast.GtE, ast.GtE: ast.LtE, ast.Eq: ast.Eq, ast.NotEq: ast.NotEq}
REL_TXT = {ast.Lt: "<", ast.Gt: ">", ast.LtE: "<=", ast.GtE: ">=", ast.Eq: "==", ast.NotEq: "!="}
# which key classes (lt, eq, gt relative to the new level) a filter `key REL level` keeps
KEEPS = {ast.Lt: (True, False, False), ast.LtE: (True, True, False), ast.Gt: (False, False, True), ast.GtE: (False, True, True), ast.Eq: (False, True, False), ast.NotEq: (True, False, True)}


def key_rel(test: ast.expr, key: str, level: str):
    """Normalise ``key REL level`` / ``level REL key`` (also under ``not``) to the operator class of key REL level."""
    neg = False
    while isinstance(test, ast.UnaryOp) and isinstance(test.op, ast.Not):
        neg = not neg
        test = test.operand
    if not (isinstance(test, ast.Compare) and len(test.ops) == 1):
        return None
    l, r, op = test.left, test.comparators[0], type(test.ops[0])
    if op not in FLIP:
        return None
    if isinstance(l, ast.Name) and isinstance(r, ast.Name):
        if l.id == key and r.id == level:
            rel = op
        elif l.id == level and r.id == key:
            rel = FLIP[op]
        else:
            return None
        if neg:
            rel = {ast.Lt: ast.GtE, ast.GtE: ast.Lt, ast.Gt: ast.LtE, ast.LtE: ast.Gt, ast.Eq: ast.NotEq, ast.NotEq: ast.Eq}[rel]
        return rel
    return None


# resolver of single-assignment locals inside linear forms (set by R3 for the function it reads)
LIN_LOCALS = None


def lin(e: ast.expr, level: str, par: str):
    """Linear form (a, b, c) = a*level + b*parent + c, or None."""
    if isinstance(e, ast.Constant) and isinstance(e.value, int) and not isinstance(e.value, bool):
        return (0, 0, e.value)
    if isinstance(e, ast.Name):
        if e.id == level:
            return (1, 0, 0)
        if e.id == par:
            return (0, 1, 0)
        d = LIN_LOCALS(e.id) if LIN_LOCALS is not None else None
        return lin(d, level, par) if d is not None else None
    if isinstance(e, ast.UnaryOp) and isinstance(e.op, ast.USub):
        x = lin(e.operand, level, par)
        return None if x is None else (-x[0], -x[1], -x[2])
    if isinstance(e, ast.BinOp) and isinstance(e.op, (ast.Add, ast.Sub)):
        x, y = lin(e.left, level, par), lin(e.right, level, par)
        if x is None or y is None:
            return None
        s = 1 if isinstance(e.op, ast.Add) else -1
        return (x[0] + s * y[0], x[1] + s * y[1], x[2] + s * y[2])
    return None


def lin_m(e: ast.expr, level: str, par: str, depth: int = 0):
    """(a, b, m, c) = a*level + b*parent + m*M + c with M = max(open levels), or None."""
    if depth > 10:
        return None
    if isinstance(e, ast.Call) and dotted(e.func) == "max" and len(e.args) == 1 and _map_keys_iter(e.args[0]) == "keys":
        return (0, 0, 1, 0)
    if isinstance(e, ast.Constant) and isinstance(e.value, int) and not isinstance(e.value, bool):
        return (0, 0, 0, e.value)
    if isinstance(e, ast.Name):
        if e.id == level:
            return (1, 0, 0, 0)
        if e.id == par:
            return (0, 1, 0, 0)
        d = LIN_LOCALS(e.id) if LIN_LOCALS is not None else None
        return lin_m(d, level, par, depth + 1) if d is not None else None
    if isinstance(e, ast.UnaryOp) and isinstance(e.op, ast.USub):
        x = lin_m(e.operand, level, par, depth + 1)
        return None if x is None else tuple(-v for v in x)
    if isinstance(e, ast.BinOp) and isinstance(e.op, (ast.Add, ast.Sub)):
        x, y = lin_m(e.left, level, par, depth + 1), lin_m(e.right, level, par, depth + 1)
        if x is None or y is None:
            return None
        sg = 1 if isinstance(e.op, ast.Add) else -1
        return tuple(p_ + sg * q_ for p_, q_ in zip(x, y))
    return None


def _linear_compare(test: ast.expr, level: str, par: str):
    if isinstance(test, ast.Compare) and len(test.ops) == 1 and type(test.ops[0]) in REL_TXT:
        x, y = lin_m(test.left, level, par), lin_m(test.comparators[0], level, par)
        if x is not None and y is not None:
            return tuple(p_ - q_ for p_, q_ in zip(x, y)) + (type(test.ops[0]),)
    return None


def uses_deepest(test: ast.expr, level: str, par: str) -> bool:
    if isinstance(test, ast.UnaryOp):
        return uses_deepest(test.operand, level, par)
    if isinstance(test, ast.BoolOp):
        return any(uses_deepest(v, level, par) for v in test.values)
    lc = _linear_compare(test, level, par)
    return lc is not None and lc[2] != 0


def condition_atoms(test: ast.expr, level: str, par: str) -> list[ast.expr]:
    """Leaves of a branch test that are not linear comparisons of level / parent level."""
    if isinstance(test, ast.UnaryOp) and isinstance(test.op, ast.Not):
        return condition_atoms(test.operand, level, par)
    if isinstance(test, ast.BoolOp):
        return [a for v in test.values for a in condition_atoms(v, level, par)]
    if _linear_compare(test, level, par) is not None or (isinstance(test, ast.Constant) and isinstance(test.value, bool)):
        return []
    return [test]


def eval_level_condition(test: ast.expr, level_v: int, parent_v: int, level: str, par: str, free: dict[str, bool] | None = None, deepest_v: int = 0) -> bool:
    """Truth of a branch test for concrete (level, parent level, deepest open level); other leaves take their value from ``free``."""
    if isinstance(test, ast.UnaryOp) and isinstance(test.op, ast.Not):
        return not eval_level_condition(test.operand, level_v, parent_v, level, par, free, deepest_v)
    if isinstance(test, ast.BoolOp):
        vals = [eval_level_condition(v, level_v, parent_v, level, par, free, deepest_v) for v in test.values]
        return all(vals) if isinstance(test.op, ast.And) else any(vals)
    if isinstance(test, ast.Constant) and isinstance(test.value, bool):
        return test.value
    lc = _linear_compare(test, level, par)
    if lc is not None:
        v = lc[0] * level_v + lc[1] * parent_v + lc[2] * deepest_v + lc[3]
        return {ast.Lt: v < 0, ast.LtE: v <= 0, ast.Gt: v > 0, ast.GtE: v >= 0, ast.Eq: v == 0, ast.NotEq: v != 0}[lc[4]]
    if free is not None and unparse(test) in free:
        return free[unparse(test)]
    raise Unsupported(f"warning condition `{short(test, 60)}` is not a boolean combination of linear comparisons of level and parent level")


def render_state_read(corpus: Corpus, fi: FunctionInfo, atom: ast.expr) -> tuple[str, str] | None:
    """(attribute, site of a write) if ``atom`` reads a ``self.<attr>`` that some function changes during a render."""
    exprs = [atom]
    for n in ast.walk(atom):
        if isinstance(n, ast.Name):
            d = single_def(fi, n.id)
            if d is not None:
                exprs.append(d)
    attrs = []
    for e in exprs:
        for n in ast.walk(e):
            if isinstance(n, ast.Attribute) and isinstance(n.value, ast.Name) and n.value.id == "self" and n.attr not in attrs:
                attrs.append(n.attr)
    for attr in attrs:
        for f in _all_plain_functions(corpus):
            if _is_initialiser(corpus, f):
                continue
            ws = writes_attr(f.local_nodes(), attr)
            if ws:
                return (attr, f"{f.qualname} ({f.module.site(ws[0])})")
    return None


def _map_keys_iter(it: ast.expr) -> str | None:
    """'keys' if ``it`` iterates the keys of the level map, 'items' for .items()."""
    if is_attr(it, LEVEL_MAP):
        return "keys"
    if isinstance(it, ast.Call) and isinstance(it.func, ast.Attribute) and is_attr(it.func.value, LEVEL_MAP) and not it.args:
        if it.func.attr == "keys":
            return "keys"
        if it.func.attr == "items":
            return "items"
    if isinstance(it, ast.Call) and dotted(it.func) in ("list", "tuple", "sorted", "iter", "set") and len(it.args) == 1:
        return _map_keys_iter(it.args[0])
    return None


# -- level-map operations of the update: extraction and simulation over the key classes {<L, =L, >L} ------------


def _is_tag_digit(e: ast.AST) -> bool:
    """int() of the digit part of the heading tag: tag[1], tag[1:], tag.lstrip("h"), tag.removeprefix("h")."""
    if not (isinstance(e, ast.Call) and dotted(e.func) == "int" and len(e.args) == 1 and not e.keywords):
        return False
    x = e.args[0]
    if isinstance(x, ast.Subscript) and is_attr(x.value, "tag"):
        sl = x.slice
        if isinstance(sl, ast.Constant) and sl.value == 1:
            return True
        if isinstance(sl, ast.Slice) and isinstance(sl.lower, ast.Constant) and sl.lower.value == 1 and sl.upper is None and sl.step is None:
            return True
    if isinstance(x, ast.Call) and isinstance(x.func, ast.Attribute) and x.func.attr in ("lstrip", "removeprefix") and is_attr(x.func.value, "tag"):
        return len(x.args) == 1 and isinstance(x.args[0], ast.Constant) and x.args[0].value == "h"
    return False


def _markup_derived(e: ast.AST) -> bool:
    return any(isinstance(n, ast.Attribute) and n.attr == "markup" for n in ast.walk(e))


def _level_bound(corpus: Corpus) -> int | None:
    """Static upper bound of a heading level: 6 without an offset, None (unbounded) when the offset is added."""
    hc = _heading_code(corpus)
    uf, ucall = hc.update_call()
    ts = hc.terms(_update_args(ucall)[1], uf, get_cfg(uf).stmt_of(ucall))
    if any(t == "OFFSET" for _s, t in ts):
        return None
    if ts == [(1, "TAG")]:
        return 6
    raise Unsupported(f"cannot bound the heading level `{terms_text(ts)}`")


def _update_args(call: ast.Call) -> tuple[ast.expr | None, ast.expr | None]:
    """(section argument, level argument) of a call of the level-state update (positional or keyword)."""
    sec = call.args[0] if len(call.args) > 0 else None
    lvl = call.args[1] if len(call.args) > 1 else None
    for kw in call.keywords:
        if kw.arg == "section":
            sec = kw.value
        elif kw.arg == "level":
            lvl = kw.value
    return sec, lvl


def _range_bound(e: ast.expr, p_lvl: str) -> tuple[str, int]:
    """('L', c) = level + c; ('C', c) = constant; ('M', c) = max(open levels) + c."""
    x = lin(e, p_lvl, "\0")
    if x is not None and x[1] == 0 and x[0] in (0, 1):
        return ("L" if x[0] == 1 else "C", x[2])

    def is_max(m):
        return isinstance(m, ast.Call) and dotted(m.func) == "max" and len(m.args) == 1 and _map_keys_iter(m.args[0]) == "keys"

    if is_max(e):
        return ("M", 0)
    if isinstance(e, ast.BinOp) and isinstance(e.op, (ast.Add, ast.Sub)) and isinstance(e.right, ast.Constant) and isinstance(e.right.value, int) and is_max(e.left):
        return ("M", e.right.value if isinstance(e.op, ast.Add) else -e.right.value)
    if isinstance(e, ast.BinOp) and isinstance(e.op, ast.Add) and isinstance(e.left, ast.Constant) and isinstance(e.left.value, int) and is_max(e.right):
        return ("M", e.left.value)
    raise Unsupported(f"range bound `{short(e, 40)}` is not level+c, a constant or max(open levels)+c")


def _removal_of(n: ast.AST, key: str) -> str | None:
    """'safe' / 'raises' if ``n`` removes map[key] (pop with default / del or pop without)."""
    if isinstance(n, ast.Expr):
        n = n.value
    if isinstance(n, ast.Call) and isinstance(n.func, ast.Attribute) and n.func.attr == "pop" and is_attr(n.func.value, LEVEL_MAP) and n.args and isinstance(n.args[0], ast.Name) and n.args[0].id == key:
        return "safe" if len(n.args) > 1 else "raises"
    if isinstance(n, ast.Delete) and len(n.targets) == 1:
        t = n.targets[0]
        if isinstance(t, ast.Subscript) and is_attr(t.value, LEVEL_MAP) and isinstance(t.slice, ast.Name) and t.slice.id == key:
            return "raises"
    return None


def _loop_op(st: ast.For, p_lvl: str):
    """A ``for`` statement that removes keys from the level map -> (kind, payload, text)."""
    if st.orelse or not isinstance(st.target, ast.Name) or len(st.body) != 1:
        raise Unsupported(f"removal loop `{short(st, 50)}` has an else part / several statements")
    kv = st.target.id
    inner = st.body[0]
    test = None
    if isinstance(inner, ast.If) and not inner.orelse and len(inner.body) == 1:
        test, inner = inner.test, inner.body[0]
    how = _removal_of(inner, kv)
    if how is None:
        raise Unsupported(f"loop body `{short(inner, 50)}` is not a removal of map[{kv}]")
    member = test is not None and isinstance(test, ast.Compare) and len(test.ops) == 1 and isinstance(test.ops[0], ast.In) and isinstance(test.left, ast.Name) and test.left.id == kv and is_attr(test.comparators[0], LEVEL_MAP)
    it = st.iter
    if isinstance(it, ast.Call) and dotted(it.func) == "range" and not it.keywords:
        if len(it.args) == 3 and not (isinstance(it.args[2], ast.Constant) and it.args[2].value == 1):
            raise Unsupported("range with a step")
        if test is not None and not member:
            raise Unsupported(f"guard `{short(test, 40)}` inside a range removal loop")
        if how == "raises" and not member:
            raise Unsupported("del / pop without default over a range of levels raises KeyError for a level that is not open")
        lo = _range_bound(it.args[0], p_lvl) if len(it.args) >= 2 else ("C", 0)
        hi = _range_bound(it.args[1] if len(it.args) >= 2 else it.args[0], p_lvl)
        return ("remove_range", (lo, hi), f"remove keys in range({unparse(it.args[0]) if len(it.args) >= 2 else 0}, {unparse(it.args[1] if len(it.args) >= 2 else it.args[0])})")
    # a materialised copy of the keys, removal under a comparison with the level
    rel = None
    if isinstance(it, ast.Call) and dotted(it.func) in ("list", "tuple", "sorted", "set") and len(it.args) == 1 and _map_keys_iter(it.args[0]) == "keys":
        if test is None or member:
            raise Unsupported("loop removes every open level")
        rel = key_rel(test, kv, p_lvl)
    elif isinstance(it, ast.ListComp) and len(it.generators) == 1 and _map_keys_iter(it.generators[0].iter) == "keys" and isinstance(it.generators[0].target, ast.Name) and isinstance(it.elt, ast.Name) and it.elt.id == it.generators[0].target.id and len(it.generators[0].ifs) == 1 and (test is None or member):
        rel = key_rel(it.generators[0].ifs[0], it.elt.id, p_lvl)
    else:
        raise Unsupported(f"removal loop iterates `{short(it, 40)}` (not a range and not a copy of the map's keys)")
    if rel is None:
        raise Unsupported("removal condition is not one comparison of the open level with the new level")
    return ("remove_if", rel, f"remove keys {REL_TXT[rel]} level")


def _while_op(st: ast.While, upd: FunctionInfo, p_lvl: str):
    """``c = level + a`` ... ``while <test on c>: remove map[c]; c += 1`` -> (kind, payload, text)."""
    t = st.test
    if st.orelse or not (isinstance(t, ast.Compare) and len(t.ops) == 1 and isinstance(t.left, ast.Name)):
        raise Unsupported(f"removal loop `while {short(t, 40)}` is not a test on a running level")
    c = t.left.id
    defs = name_assignments(upd, c)
    inits = [d for d in defs if isinstance(d, ast.Assign) and d in upd.node.body and upd.node.body.index(d) < upd.node.body.index(st)]
    steps = [d for d in defs if isinstance(d, ast.AugAssign) and d in st.body]
    if len(defs) != 2 or len(inits) != 1 or len(steps) != 1 or not (isinstance(steps[0].op, ast.Add) and isinstance(steps[0].value, ast.Constant) and steps[0].value.value == 1):
        raise Unsupported(f"running level `{c}` of the removal loop is not `{c} = level + a` before the loop and `{c} += 1` inside it")
    start = lin(inits[0].value, p_lvl, "\0")
    if start is None or start[0] != 1 or start[1] != 0:
        raise Unsupported(f"removal loop starts at `{short(inits[0].value, 30)}`, not at level + a")
    rest = [x for x in st.body if x is not steps[0]]
    if len(rest) != 1 or st.body.index(rest[0]) > st.body.index(steps[0]):
        raise Unsupported("removal loop body is not `remove map[c]; c += 1`")
    inner, guard = rest[0], None
    if isinstance(inner, ast.If) and not inner.orelse and len(inner.body) == 1:
        guard, inner = inner.test, inner.body[0]
    how = _removal_of(inner, c)
    if how is None:
        raise Unsupported(f"loop body `{short(inner, 50)}` is not a removal of map[{c}]")
    member_guard = guard is not None and isinstance(guard, ast.Compare) and len(guard.ops) == 1 and isinstance(guard.ops[0], ast.In) and isinstance(guard.left, ast.Name) and guard.left.id == c and is_attr(guard.comparators[0], LEVEL_MAP)
    if guard is not None and not member_guard:
        raise Unsupported(f"guard `{short(guard, 40)}` inside the removal loop")
    if isinstance(t.ops[0], ast.In) and _map_keys_iter(t.comparators[0]) == "keys":
        return ("remove_run", start[2], f"remove level{start[2]:+d}, level{start[2] + 1:+d}, ... while that level is open")
    if isinstance(t.ops[0], (ast.Lt, ast.LtE)):
        if how == "raises" and not member_guard:
            raise Unsupported("del / pop without default in a counting loop raises KeyError for a level that is not open")
        hk, hc = _range_bound(t.comparators[0], p_lvl)
        if isinstance(t.ops[0], ast.LtE):
            hc += 1
        return ("remove_range", (("L", start[2]), (hk, hc)), f"remove keys from level{start[2]:+d} while {unparse(t)}")
    raise Unsupported(f"removal loop condition `{short(t, 40)}` not understood")


def _map_ops(upd: FunctionInfo, cfg, p_sec: str, p_lvl: str) -> list[tuple[str, object, ast.AST, str]]:
    body = upd.node.body
    ops: list[tuple[str, object, ast.AST, str]] = []
    done: set[int] = set()
    for n in writes_attr(upd.local_nodes(), LEVEL_MAP):
        top = n
        while parent(top) is not upd.node:
            top = parent(top)
            if top is None:
                raise Unsupported("level map operation outside the function body")
        if id(top) in done:
            continue
        if isinstance(top, ast.For):
            done.add(id(top))
            kind, payload, text = _loop_op(top, p_lvl)
            ops.append((kind, payload, top, text))
            continue
        if isinstance(top, ast.While):
            done.add(id(top))
            kind, payload, text = _while_op(top, upd, p_lvl)
            ops.append((kind, payload, top, text))
            continue
        if top is not cfg.stmt_of(n) or isinstance(top, (ast.If, ast.While, ast.Try, ast.With)):
            raise Unsupported(f"level map operation `{short(n, 50)}` is conditional: straight-line simulation does not apply")
        if isinstance(n, ast.Assign) and len(n.targets) == 1:
            t = n.targets[0]
            if isinstance(t, ast.Subscript) and is_attr(t.value, LEVEL_MAP):
                if isinstance(t.slice, ast.Name) and t.slice.id == p_lvl and isinstance(n.value, ast.Name) and n.value.id == p_sec:
                    ops.append(("store", None, n, "map[level]=section"))
                    continue
                raise Unsupported(f"level map store `{short(n, 50)}` is not map[level] = section")
            if is_attr(t, LEVEL_MAP) and isinstance(n.value, ast.DictComp) and len(n.value.generators) == 1:
                gen = n.value.generators[0]
                if (
                    _map_keys_iter(gen.iter) == "items"
                    and isinstance(gen.target, ast.Tuple)
                    and len(gen.target.elts) == 2
                    and all(isinstance(e, ast.Name) for e in gen.target.elts)
                    and unparse(n.value.key) == gen.target.elts[0].id
                    and unparse(n.value.value) == gen.target.elts[1].id
                    and len(gen.ifs) == 1
                ):
                    r = key_rel(gen.ifs[0], gen.target.elts[0].id, p_lvl)
                    if r is not None:
                        ops.append(("filter", r, n, f"keep keys {REL_TXT[r]} level"))
                        continue
        raise Unsupported(f"level map operation `{short(n, 60)}` is outside the understood subset (map[level]=section, filtering dict comprehension, removal loop)")
    ops.sort(key=lambda o: body.index(o[2] if o[2] in body else cfg.stmt_of(o[2])))
    return ops


NEGATE = {ast.Lt: ast.GtE, ast.GtE: ast.Lt, ast.Gt: ast.LtE, ast.LtE: ast.Gt, ast.Eq: ast.NotEq, ast.NotEq: ast.Eq}


def _simulate(ops, level_bound) -> tuple[dict[str, str], list[str]]:
    """Abstract state of the three key classes after the operations: old / new / dropped / partly."""
    state = {"lt": "old", "eq": "old", "gt": "old"}
    reasons: list[str] = []
    stored = False

    def drop(c: str, fully: bool) -> None:
        if state[c] == "dropped":
            return
        state[c] = "dropped" if fully else "partly"

    for kind, payload, _n, _text in ops:
        if kind == "store":
            state["eq"] = "new"
            stored = True
        elif kind in ("filter", "remove_if"):
            rel = payload if kind == "filter" else NEGATE[payload]
            for c, kept in zip(("lt", "eq", "gt"), KEEPS[rel]):
                if not kept:
                    drop(c, True)
        elif kind == "remove_run":
            a = payload
            reasons.append(
                f"the loop removes level{a:+d}, level{a + 1:+d}, ... only while each is open and stops at the first level that is not: heading levels may be skipped, "
                "so open levels above such a gap are never removed"
            )
            if a <= 0:
                drop("eq", stored)
                reasons.append(f"the loop starts at level{a:+d}: the entry of the new level itself is removed")
                if a < 0:
                    drop("lt", False)
            drop("gt", False)
        else:
            (lk, lc), (hk, hc) = payload
            if lk == "M":
                raise Unsupported("removal range starts at max(open levels)")
            # does the range reach above every open level?
            if hk == "M":
                top_covered = hc >= 1
                if not top_covered:
                    reasons.append(f"the range ends at max(open levels){hc:+d} (exclusive): the deepest open level is never removed")
            else:
                b = level_bound()
                if b is None:
                    top_covered = False
                    reasons.append(
                        (f"the range ends at the constant {hc}" if hk == "C" else f"the range ends at level{hc:+d}")
                        + ": the heading level is the tag digit plus the heading offset of an include, so open levels above that bound exist and are never removed"
                    )
                else:
                    top_covered = (hk == "C" and hc > b) or (hk == "L" and hc >= b)
                    if not top_covered:
                        reasons.append(f"the range does not reach level {b}")
            if lk == "C":
                reasons.append(f"the range starts at the constant {lc}, not at level+1: for a heading of level >= {lc} its own entry and ancestors are removed, for a lower one the levels below {lc} stay open")
                drop("lt", False)
                drop("eq", False)
                drop("gt", False)
                continue
            # lk == "L"
            if lc <= 0:
                certain = (hk == "L" and hc >= 1) or (hk == "M" and hc >= 1 and stored)
                drop("eq", certain)
                reasons.append(f"the range starts at level{lc:+d}: the entry of the new level itself is removed")
                if lc < 0:
                    drop("lt", False)
            if lc >= 2:
                reasons.append(f"the range starts at level+{lc}: levels level+1..level+{lc - 1} stay open")
            drop("gt", lc <= 1 and top_covered)
    return state, reasons


@rule("C05.R3")
def r3_ordering_roles(corpus: Corpus, rep: Report, tier: str):
    rep.rule("C05.R3", "level-state update: parent = max over open levels strictly below; attach once to it; map ends as (ancestors, own=new, deeper dropped); warning iff >= 2 levels deeper than the deepest open level, at most once; map rooted at {0: document}")
    global LIN_LOCALS
    LIN_LOCALS = None
    base, rh, upd = _renderer_funcs(corpus)
    rep.saw_function(upd.fq)
    cfg = get_cfg(upd)
    params = upd.params
    if len(params) != 3 or params[0] != "self":
        raise Unsupported(f"{UPDATE} signature is {params}, expected (self, section, level)")
    p_sec, p_lvl = params[1], params[2]
    # the roles of the two parameters are confirmed at the call site in the heading code
    hc = _heading_code(corpus)
    uf, ucall = hc.update_call()
    a_sec, a_lvl = _update_args(ucall)
    sec_def = a_sec
    if isinstance(a_sec, ast.Name):
        found, entry = hc.reaching(uf, a_sec.id, get_cfg(uf).stmt_of(ucall))
        d = next(iter(found)) if len(found) == 1 and not entry else None
        sec_def = d.value if isinstance(d, (ast.Assign, ast.AnnAssign)) else None
    k = f"{rh.fq}|{UPDATE}(section, level) argument roles"
    if isinstance(sec_def, ast.Call) and (resolves_to(sec_def, uf, SECTION) or _helper_constructs(corpus, base, sec_def, SECTION)):
        rep.ok("C05.R3", k, uf.module.site(ucall), f"section argument is the constructed section, level argument `{unparse(a_lvl)}`")
    else:
        raise Unsupported("section argument of the level-state update is not traced to the nodes.section constructed for this heading")
    if name_assignments(upd, p_sec):
        raise Unsupported(f"parameter `{p_sec}` of {UPDATE} is rebound: its role is no longer fixed")
    # (a) parent selection: every definition of the parent level that can reach its use is judged
    sels = [
        n
        for n in upd.local_nodes()
        if isinstance(n, ast.Assign) and len(n.targets) == 1 and isinstance(n.targets[0], ast.Name) and isinstance(n.value, ast.Call) and dotted(n.value.func) in ("max", "min")
        and n.value.args and isinstance(n.value.args[0], (ast.GeneratorExp, ast.ListComp, ast.SetComp))
        and len(n.value.args[0].generators) == 1 and _map_keys_iter(n.value.args[0].generators[0].iter) == "keys"
    ]
    if not sels or len({n.targets[0].id for n in sels}) != 1:
        raise Unsupported(f"parent level selection: expected `x = max(<comprehension over the level map>)`, found {len(sels)} candidate(s)")
    par = sels[0].targets[0].id
    budget = [200]

    def _resolve_local(name: str):
        budget[0] -= 1
        if name in (p_lvl, par, p_sec) or budget[0] < 0:
            return None
        return single_def(upd, name)

    LIN_LOCALS = _resolve_local
    par_defs = name_assignments(upd, par)
    for d in par_defs:
        multi = len(par_defs) > 1
        if d in sels:
            comp = d.value.args[0]
            k = f"{upd.fq}|parent level selection" + (f"|{short(d.value, 60)}" if multi else "")
            site = base.site(d)
            if not isinstance(comp.generators[0].target, ast.Name):
                raise Unsupported("parent selection does not iterate the keys of the level map")
            kv = comp.generators[0].target.id
            if not (isinstance(comp.elt, ast.Name) and comp.elt.id == kv):
                raise Unsupported("parent selection does not select a key of the level map")
            ifs = comp.generators[0].ifs
            rel = key_rel(ifs[0], kv, p_lvl) if len(ifs) == 1 else None
            if len(ifs) != 1 or rel is None:
                raise Unsupported("parent selection filter is not one comparison of the open level with the new level")
            agg = dotted(d.value.func)
            if agg != "max":
                rep.violation("C05.R3", k, site, f"the parent level is the {agg} of the open lower levels: the heading is attached to the outermost, not the closest preceding open heading of lower level")
            elif rel is not ast.Lt:
                rep.violation(
                    "C05.R3",
                    k,
                    site,
                    f"open levels are filtered with `open {REL_TXT[rel]} new`: the parent must be strictly lower (`<`), otherwise a heading becomes the child of its own sibling / of a deeper heading "
                    "(deeper levels are still open when the parent is selected: they are pruned afterwards)",
                )
            else:
                rep.ok("C05.R3", k, site, "max over open levels strictly below the new level")
            continue
        # a shortcut `parent = level - 1`: only sound for c == -1 and only where that level is known to be open
        if not (isinstance(d, ast.Assign) and len(d.targets) == 1 and isinstance(d.targets[0], ast.Name)):
            raise Unsupported(f"definition `{short(d, 50)}` of the parent level is not understood")
        form = lin(d.value, p_lvl, "\0")
        if form is None or form[0] != 1 or form[1] != 0:
            raise Unsupported(f"definition `{short(d, 50)}` of the parent level is neither max(<open levels below>) nor level - 1")
        k = f"{upd.fq}|parent level shortcut|{short(d, 50)}"
        dst = cfg.stmt_of(d)
        uses = [cfg.stmt_of(n) for n in upd.local_nodes() if isinstance(n, ast.Subscript) and is_attr(n.value, LEVEL_MAP) and isinstance(n.slice, ast.Name) and n.slice.id == par and isinstance(n.ctx, ast.Load)]
        others = {cfg.stmt_of(x) for x in par_defs if x is not d}
        reaching_uses = [u for u in uses if cfg.paths_avoiding(dst, u, lambda n: n in others)]
        if not reaching_uses:
            rep.ok("C05.R3", k, base.site(d), "never reaches the parent lookup")
            continue
        if form[2] != -1:
            rep.violation("C05.R3", k, base.site(d), f"the parent level is taken as `{unparse(d.value)}`: only level - 1 can be the closest open lower level without looking at the map")
            continue

        def is_member_edge(n) -> bool:
            """Branch edge on which `<par or level-1> in level map` is known to hold."""
            if not (isinstance(n, tuple) and n[0] in ("T", "F") and isinstance(n[1], ast.If)):
                return False
            for t, pol in branch_facts(n[1].test, n[0] == "T"):
                if isinstance(t, ast.Compare) and len(t.ops) == 1 and isinstance(t.ops[0], (ast.In, ast.NotIn)) and _map_keys_iter(t.comparators[0]) == "keys":
                    lhs = t.left
                    same = (isinstance(lhs, ast.Name) and lhs.id == par) or lin(lhs, p_lvl, "\0") == (1, 0, -1)
                    if same and (isinstance(t.ops[0], ast.In)) == pol:
                        return True
            return False

        guarded_def = any(is_member_edge(g_) for g_ in cfg.dom().get(dst, set()))
        ok_all = True
        for u in reaching_uses:
            if not guarded_def and cfg.paths_avoiding(dst, u, lambda n: n in others or is_member_edge(n)):
                ok_all = False
        if ok_all:
            rep.ok("C05.R3", k, base.site(d), "level - 1, used only where that level is known to be open (then it is the maximum open level below)")
        else:
            raise Unsupported(f"`{short(d, 40)}` reaches the parent lookup on a path where level - 1 is not known to be open (KeyError or wrong parent): not decided here")

    # (a') the heading level keeps its role: no use of `level` is reached by a definition that replaces it by another quantity
    for d in name_assignments(upd, p_lvl):
        dst = cfg.stmt_of(d)
        if isinstance(d, ast.Assign) and len(d.targets) == 1 and isinstance(d.targets[0], ast.Name):
            value = d.value
        elif isinstance(d, ast.AugAssign) and isinstance(d.op, (ast.Add, ast.Sub)):
            value = ast.BinOp(left=ast.Name(id=p_lvl, ctx=ast.Load()), op=d.op, right=d.value)
        else:
            raise Unsupported(f"parameter `{p_lvl}` of {UPDATE} is rebound by `{short(d, 40)}`: its role is no longer fixed")
        form = lin(value, p_lvl, par)
        if form is None:
            raise Unsupported(f"`{short(d, 50)}` rebinds the heading level to something this rule cannot relate to level / parent level")
        uses = [n for n in upd.local_nodes() if isinstance(n, ast.Name) and n.id == p_lvl and isinstance(n.ctx, ast.Load) and dst in hc.reaching(upd, p_lvl, cfg.stmt_of(n))[0]]
        kk = f"{upd.fq}|heading level replaced before use|{short(d, 50)}"
        if form == (1, 0, 0) or not uses:
            rep.ok("C05.R3", kk, base.site(d), "identity / never used afterwards")
        else:
            first = min(uses, key=lambda n: (n.lineno, n.col_offset))
            rep.violation(
                "C05.R3",
                kk,
                base.site(d),
                f"`{short(d, 50)}` replaces the heading level before `{short(cfg.stmt_of(first), 60)}`: the open-section map is keyed/compared by {unparse(value)} instead of the heading's level, "
                "so after a level-skipping heading it no longer reflects the real heading levels (a later heading of the skipped level nests under a sibling or warns wrongly)",
            )

    # (b) attached once to the selected parent on every path
    attaches = []
    for n in upd.local_nodes():
        if isinstance(n, ast.Call) and isinstance(n.func, ast.Attribute) and n.func.attr in ("append", "extend", "insert") and any(isinstance(x, ast.Name) and x.id == p_sec for a in n.args for x in ast.walk(a)):
            attaches.append((n, n.func.value))
        if isinstance(n, ast.AugAssign) and isinstance(n.op, ast.Add) and any(isinstance(x, ast.Name) and x.id == p_sec for x in ast.walk(n.value)):
            attaches.append((n, n.target))
    k = f"{upd.fq}|section attached once to the selected parent"
    if not attaches:
        rep.violation("C05.R3", k, upd.site(), "the new section is never attached to a parent")
    else:
        wrong = None
        for n, recv in attaches:
            r = recv
            if isinstance(r, ast.Name):
                v = single_def(upd, r.id)
                if v is None:
                    raise Unsupported(f"receiver `{r.id}` of the section attachment is not a single-assignment local")
                r = v
            if isinstance(r, ast.Subscript) and is_attr(r.value, LEVEL_MAP):
                if not (isinstance(r.slice, ast.Name) and r.slice.id == par):
                    wrong = (n, f"level map entry [{unparse(r.slice)}], not the selected parent level `{par}`")
            elif is_self_attr(r, "current_node") or is_self_attr(r, "document"):
                wrong = (n, f"{unparse(r)}, not the section selected from the level map")
            else:
                raise Unsupported(f"section attached to `{unparse(recv)}`: receiver not understood")
        attach_stmts = {cfg.stmt_of(n) for n, _ in attaches}
        res = cfg.counts(ENTRY, [EXIT], lambda st: 1 if st in attach_stmts else 0)
        if wrong:
            rep.violation("C05.R3", k, base.site(wrong[0]), f"the new section is appended to {wrong[1]}: nesting no longer follows the heading levels")
        elif res.get(EXIT) != {1}:
            rep.violation("C05.R3", k, base.site(attaches[0][0]), f"the new section is attached {sorted(res.get(EXIT, []))} time(s) depending on the path (expected exactly once on every path): some heading produces no section or two")
        else:
            rep.ok("C05.R3", k, base.site(attaches[0][0]), f"{LEVEL_MAP}[{par}].append({p_sec}) on every path")

    # (c) abstract simulation of the map operations over key classes (lt, eq, gt)
    ops = _map_ops(upd, cfg, p_sec, p_lvl)
    state, reasons = _simulate(ops, lambda: _level_bound(corpus))
    k = f"{upd.fq}|level map after the update"
    site = base.site(ops[-1][2]) if ops else upd.site()
    problems = []
    if state["lt"] != "old":
        problems.append("open sections of lower level (the ancestors, incl. the document) are dropped: a following heading has no / the wrong parent")
    if state["eq"] != "new":
        problems.append(f"the new section is not the open section of its own level afterwards (entry is {state['eq']}): a following deeper heading attaches to a stale/grand-parent section")
    if state["gt"] != "dropped":
        problems.append(
            ("some sections" if state["gt"] == "partly" else "sections")
            + " deeper than the new level stay open: a later heading can become the child of a section that was closed by this heading (and its non-consecutive warning is lost)"
        )
    if problems:
        rep.violation("C05.R3", k, site, "; ".join(problems) + ("  [" + "; ".join(reasons) + "]" if reasons else ""))
    else:
        rep.ok("C05.R3", k, site, " then ".join(o[3] for o in ops))

    # (d) the non-consecutive warning: exactly when the heading is >= 2 levels deeper than the deepest open level (= the level of
    # the preceding heading: the map is pruned to it), at most once per path, only here
    def names_member(n: ast.AST) -> bool:
        return any(isinstance(x, ast.Attribute) and x.attr == "MD_HEADING_NON_CONSECUTIVE" for x in ast.walk(n))

    wcalls = [n for n in upd.local_nodes() if isinstance(n, ast.Call) and isinstance(n.func, ast.Attribute) and n.func.attr == "create_warning" and names_member(n)]
    for fi in _all_plain_functions(corpus):
        if fi.fq != upd.fq and not fi.module.name.endswith("warnings_"):
            for n in fi.local_nodes():
                if isinstance(n, ast.Call) and names_member(n):
                    rep.error("C05.R3", f"MD_HEADING_NON_CONSECUTIVE is also emitted at {fi.module.site(n)} ({fi.qualname}): not understood")
    k = f"{upd.fq}|non-consecutive warning iff the heading is 2 or more levels deeper than the deepest open level"
    if not wcalls:
        rep.violation("C05.R3", k, upd.site(), "no MD_HEADING_NON_CONSECUTIVE warning is emitted: an upward skip of more than one level passes silently")
    else:
        wst = {cfg.stmt_of(n) for n in wcalls}
        res = cfg.counts(ENTRY, [EXIT], lambda st: 1 if st in wst else 0)
        if 2 in res.get(EXIT, set()):
            rep.violation("C05.R3", f"{upd.fq}|non-consecutive warning at most once", base.site(wcalls[0]), "some path emits the non-consecutive-heading warning twice")
        else:
            rep.ok("C05.R3", f"{upd.fq}|non-consecutive warning at most once", base.site(wcalls[0]))
        sites: list[tuple[ast.stmt, list[tuple[ast.If, bool]]]] = []
        for wc in wcalls:
            w = cfg.stmt_of(wc)
            conds: list[tuple[ast.If, bool]] = []
            node, p = w, parent(w)
            while p is not upd.node:
                if isinstance(p, ast.If):
                    conds.append((p, node in p.body))
                else:
                    raise Unsupported(f"the warning is nested in a {type(p).__name__}: condition not extracted")
                node, p = p, parent(p)
            sites.append((w, conds))
        uncond = [w for w, conds in sites if not conds]
        if uncond:
            rep.violation("C05.R3", k, base.site(uncond[0]), "the non-consecutive-heading warning is unconditional: consecutive headings warn too")
        else:
            for w, conds in sites:
                wrong_edges = {("F" if pol else "T", i) for i, pol in conds}
                if cfg.paths_avoiding(ENTRY, EXIT, lambda n: n is w or n in wrong_edges):
                    raise Unsupported("some path reaches the exit without passing the warning's branch decision: the warning condition is not the conjunction of its enclosing tests")
            # evaluate the branch tests on the grid parent level 0..8 x skip 1..12 (level = parent + skip);
            # leaves that read state changed during the render are free booleans: the verdict must hold for every value
            free_atoms: dict[str, tuple[str, str]] = {}
            for _w, conds in sites:
                for i, _pol in conds:
                    for atom in condition_atoms(i.test, p_lvl, par):
                        hs = render_state_read(corpus, upd, atom)
                        if hs is None:
                            raise Unsupported(f"warning condition `{short(atom, 60)}` is neither a linear comparison of level and parent level nor a test of state that changes during the render")
                        free_atoms[unparse(atom)] = hs
            if len(free_atoms) > 4:
                raise Unsupported("too many state-dependent tests in the warning condition")
            # when the tests read the deepest open level they must be evaluated before the map is changed
            if any(uses_deepest(i.test, p_lvl, par) for _w, conds in sites for i, _pol in conds):
                first_if = min((conds[-1][0] for _w, conds in sites), key=lambda n_: n_.lineno)
                for o in ops:
                    st_o = o[2] if o[2] in upd.node.body else cfg.stmt_of(o[2])
                    if st_o.lineno < first_if.lineno:
                        raise Unsupported("the warning condition reads max(open levels) after the level map has already been changed")
            bad = None
            names = sorted(free_atoms)
            for vals in itertools.product((True, False), repeat=len(names)):
                free = dict(zip(names, vals))
                # states: deepest open level M, new level L, parent p = max open level below L (p == M when M < L)
                for mv in range(0, 9):
                    for lv in range(1, 11):
                        for pv in ([mv] if mv < lv else range(0, lv)):
                            emitted = sum(all(eval_level_condition(i.test, lv, pv, p_lvl, par, free, mv) == pol for i, pol in conds) for _w, conds in sites)
                            if (emitted >= 1) != (lv - mv >= 2) and bad is None:
                                bad = (mv, pv, lv, emitted, free)
            cond_txt = " | ".join(" and ".join(("" if pol else "not ") + short(i.test, 70) for i, pol in reversed(conds)) for _w, conds in sites)
            outer = sites[0][1][-1][0]
            if bad:
                mv, pv, lv, emitted, free = bad
                hist = ""
                if free:
                    hist = " when " + " and ".join(f"`{n}` is {v}" for n, v in free.items()) + "; " + "; ".join(
                        f"`{n}` reads self.{free_atoms[n][0]}, which {free_atoms[n][1]} changes during the render, so whether a skip is reported depends on what was rendered before" for n in free
                    )
                shape = (
                    "an upward skip that must be reported" if lv - mv >= 2 else ("a sibling / step down after an earlier skip, not a new upward skip" if lv <= mv else "a consecutive level")
                )
                rep.violation(
                    "C05.R3",
                    k,
                    base.site(outer),
                    f"preceding heading (deepest open level) H{mv}, new heading H{lv}, attached below H{pv}: {shape}, but the warning is {'emitted' if emitted else 'not emitted'}{hist}; "
                    f"required: exactly one warning for each heading that is two or more levels deeper than the preceding heading (condition: `{cond_txt}`)",
                )
            else:
                rep.ok("C05.R3", k, base.site(outer), "emitted exactly when the new level exceeds the deepest open level by 2 or more (deepest 0..8, level 1..10, every consistent parent)")
            # nothing but the message and the warning inside the branch (not re-judged when the condition is already a violation)
            for _w, conds in sites if not bad else []:
                for st in ast.walk(conds[-1][0]):
                    if isinstance(st, ast.stmt) and not isinstance(st, ast.If):
                        plain = (isinstance(st, ast.Assign) and all(isinstance(t, ast.Name) for t in st.targets)) or (isinstance(st, ast.Expr) and st.value in wcalls)
                        if not plain and not isinstance(st, (ast.Return, ast.Raise)):
                            raise Unsupported(f"statement `{short(st, 50)}` inside the warning branch is not a local assignment or the warning")

    # (e) the map starts as {0: document}; closed list of writers
    sr = base.func(f"{RENDERER}.setup_render")
    init = []
    for f in _all_plain_functions(corpus):
        found = [n for n in f.local_nodes() if isinstance(n, (ast.Assign, ast.AnnAssign)) and any(is_self_attr(t, LEVEL_MAP) for t in store_targets(n))]
        if found and (f.fq == sr.fq or (f.cls is not None and _is_initialiser(corpus, f))):
            init += found
    k = f"{sr.fq}|level map starts as {{0: document}}"
    if len(init) != 1 or not isinstance(init[0].value, ast.Dict):
        raise Unsupported("setup_render (or a helper only it calls) does not initialise the level map with one dict literal")
    dk, dv = init[0].value.keys, init[0].value.values
    if len(dk) == 1 and isinstance(dk[0], ast.Constant) and dk[0].value == 0 and is_self_attr(dv[0], "document"):
        rep.ok("C05.R3", k, base.site(init[0]))
    else:
        rep.violation("C05.R3", k, base.site(init[0]), f"the level map is initialised as {short(init[0].value, 40)}: level 0 must be the document so that a first heading of any level has a parent")
    own = {upd.fq}
    rep.ok("C05.R3", f"{upd.fq}|writes {LEVEL_MAP}", upd.site(), "the level-state update (simulated above)")
    _nrt = base.func(f"{RENDERER}.nested_render_text")
    _rc, _cms3, _unw = _restoring_cms(corpus, base, _nrt)
    if _inline_restore(_nrt, _rc, _cms3, _unw) is not None:
        _cms3 = [(_nrt, _rc[0])]  # the bracket is written in nested_render_text itself
    for fi, _call in _cms3:
        if writes_attr(fi.local_nodes(), LEVEL_MAP):
            own.add(fi.fq)
            rep.ok("C05.R3", f"{fi.fq}|writes {LEVEL_MAP}", fi.site(), "the save/re-root/restore of nested_render_text's context manager (judged by R4)")
    _judge_foreign_writers(corpus, rep, "C05.R3", "map", own)
    rep.expect_min("C05.R3", 8, "argument roles, selection, attach, map simulation, 2 warning items, initial map, >=3 writers")


# ---------------------------------------------------------------------------
# R4 save/restore pairing around nested renders


def _cell_of(e: ast.AST) -> str | None:
    """Which of the three state cells an lvalue / read expression denotes."""
    if is_self_attr(e, OFFSET):
        return "offset"
    if is_self_attr(e, LEVEL_MAP):
        return "map"
    if is_temp_root_lookup(e):
        return "root"
    return None


def _save_kind(v: ast.expr) -> tuple[str, str] | None:
    """(cell, how) if ``v`` reads one of the cells for saving."""
    c = _cell_of(v)
    if c == "offset":
        return ("offset", "value")
    if c == "map":
        return ("map", "reference")
    if c == "root":
        return ("root", "value") if is_temp_root_lookup(v) == "get" else ("root", "item")
    # copies of the map: dict(map), dict(map.items()), map.copy(), {**map}, {k: v for ...}
    if isinstance(v, ast.Call) and dotted(v.func) == "dict" and len(v.args) == 1 and _map_keys_iter(v.args[0]) in ("keys", "items"):
        return ("map", "copy")
    if isinstance(v, ast.Call) and isinstance(v.func, ast.Attribute) and v.func.attr == "copy" and is_self_attr(v.func.value, LEVEL_MAP):
        return ("map", "copy")
    if isinstance(v, ast.Dict) and len(v.keys) == 1 and v.keys[0] is None and is_self_attr(v.values[0], LEVEL_MAP):
        return ("map", "copy")
    if isinstance(v, ast.DictComp) and len(v.generators) == 1 and _map_keys_iter(v.generators[0].iter) == "items" and not v.generators[0].ifs:
        return ("map", "copy")
    return None


def _guard_set(cfg, st) -> frozenset:
    return frozenset((unparse(t), pol) for t, pol in cfg.guards(st))


CELL_TXT = {"offset": "_heading_offset", "map": "_level_to_section", "root": 'md_env["temp_root_node"]'}


# -- writers of nested-render state outside the save/restore pairing ------------------------------------------


def _x_root_lookup(e: ast.AST) -> bool:
    return is_temp_root_lookup(e) is not None


def _x_cell_read(e: ast.AST, cell: str, copy_only: bool = False) -> bool:
    """``e`` reads the cell (any receiver: self, self.renderer, renderer ...)."""
    if cell == "offset":
        return is_attr(e, OFFSET)
    if cell == "root":
        return _x_root_lookup(e)
    if is_attr(e, LEVEL_MAP):
        return not copy_only
    if isinstance(e, ast.Call) and dotted(e.func) == "dict" and len(e.args) == 1 and _map_keys_iter(e.args[0]) in ("keys", "items"):
        return True
    if isinstance(e, ast.Call) and isinstance(e.func, ast.Attribute) and e.func.attr == "copy" and is_attr(e.func.value, LEVEL_MAP):
        return True
    return False


def _x_cell_writes(fi: FunctionInfo, cell: str) -> list[ast.AST]:
    """Constructs of ``fi`` that change the cell."""
    nodes_ = fi.local_nodes()
    if cell == "offset":
        return writes_attr(nodes_, OFFSET)
    if cell == "map":
        return writes_attr(nodes_, LEVEL_MAP)
    out = []
    for n in nodes_:
        if isinstance(n, ast.stmt):
            for t in store_targets(n):
                if is_temp_root_lookup(t) == "item":
                    out.append(n)
        if isinstance(n, ast.Call) and isinstance(n.func, ast.Attribute) and n.func.attr in ("pop", "setdefault", "__setitem__", "__delitem__") and is_attr(n.func.value, "md_env"):
            if n.args and isinstance(n.args[0], ast.Constant) and n.args[0].value == TEMP_ROOT_KEY:
                out.append(n)
    return out


def _is_initialiser(corpus: Corpus, fi: FunctionInfo, depth: int = 0) -> bool:
    """setup_render / __init__ of a renderer class, or a helper only they call: runs before a render, not during it."""
    if fi.cls is not None and fi.name in ("setup_render", "__init__") and ".mdit_to_docutils." in fi.module.name + ".":
        return True
    if depth >= 2 or fi.cls is None:
        return False
    callers = _callers_by_name(corpus, fi.name)
    return bool(callers) and all(_is_initialiser(corpus, c, depth + 1) for c, _ in callers)


def _unpaired_write(fi: FunctionInfo, w: ast.AST, cell: str) -> str | None:
    """None if the write ``w`` restores a saved value or is bracketed by its own save/restore; else what is wrong."""
    cfg = get_cfg(fi)
    wst = cfg.stmt_of(w)
    is_plain = isinstance(w, ast.Assign) and len(w.targets) == 1 and (is_attr(w.targets[0], OFFSET if cell == "offset" else LEVEL_MAP) if cell != "root" else is_temp_root_lookup(w.targets[0]) == "item")
    if is_plain and isinstance(w.value, ast.Name):
        d = single_def(fi, w.value.id)
        if d is not None and _x_cell_read(d, cell):
            return None  # puts a value back that was read from the cell in this function
    # own bracket: saved before, restored on every path after
    for s in fi.local_nodes():
        if not (isinstance(s, ast.Assign) and len(s.targets) == 1 and isinstance(s.targets[0], ast.Name) and _x_cell_read(s.value, cell, copy_only=(cell == "map"))):
            continue
        name = s.targets[0].id
        if len(name_assignments(fi, name)) != 1 or not cfg.dominates(cfg.stmt_of(s), wst):
            continue
        for r in fi.local_nodes():
            if isinstance(r, ast.Assign) and len(r.targets) == 1 and isinstance(r.value, ast.Name) and r.value.id == name and r is not w:
                t = r.targets[0]
                same = (cell == "offset" and is_attr(t, OFFSET)) or (cell == "map" and is_attr(t, LEVEL_MAP)) or (cell == "root" and is_temp_root_lookup(t) == "item")
                rst_ = cfg.stmt_of(r)
                if same and cfg.postdominates(rst_, wst):
                    return None
                # the same condition guards change and restore (e.g. `if root is not None:` before and after a yield):
                # every path from the change to the exit meets the restore or leaves through the other edge of that condition
                if same and _guard_set(cfg, rst_) == _guard_set(cfg, wst) and _guard_set(cfg, wst):
                    wrong = set()
                    for d_ in cfg.dom().get(rst_, set()):
                        if isinstance(d_, tuple) and d_[0] in ("T", "F") and isinstance(d_[1], ast.If):
                            wrong.add(("F" if d_[0] == "T" else "T", d_[1]))
                    if not cfg.paths_avoiding(wst, EXIT, lambda n: n is rst_ or n in wrong):
                        return None
    if isinstance(w, ast.AugAssign) and isinstance(w.op, ast.Add):
        for r in fi.local_nodes():
            if isinstance(r, ast.AugAssign) and isinstance(r.op, ast.Sub) and unparse(r.target) == unparse(w.target) and unparse(r.value) == unparse(w.value) and cfg.postdominates(cfg.stmt_of(r), wst):
                return None
    return "the previous value is neither saved-and-restored around it nor is the written value one that was read from it before"


WHY_CELL = {
    "offset": "after this statement the heading offset of an enclosing :heading-offset: include is lost, so its remaining headings are rendered at the wrong level",
    "map": "the open sections of the enclosing document are replaced/changed behind the back of the level-state update: following headings nest under the wrong section",
    "root": "the temp root of an enclosing match_titles nested parse is lost/forged: headings after this point take the wrong section-vs-rubric branch",
}


def _judge_foreign_writers(corpus: Corpus, rep: Report, rule_id: str, cell: str, own: set[str]) -> None:
    """Every change of a nested-render state cell outside ``own`` (initialisers are fine) must be part of a save/restore pair."""
    for fi in _all_plain_functions(corpus):
        if fi.fq in own:
            continue
        ws = _x_cell_writes(fi, cell)
        if not ws:
            continue
        if _is_initialiser(corpus, fi):
            rep.ok(rule_id, f"{fi.fq}|initialises {CELL_TXT[cell]}", fi.module.site(ws[0]), "runs before a render (setup_render/__init__ or a helper only they call)")
            continue
        rep.saw_function(fi.fq)
        for w in ws:
            k = f"{fi.fq}|changes {CELL_TXT[cell]} outside the save/restore pairing|{short(w, 60)}"
            why = _unpaired_write(fi, w, cell)
            if why is None:
                rep.ok(rule_id, k, fi.module.site(w), "restores a value saved in this function / bracketed by its own save and restore")
            else:
                rep.violation(rule_id, k, fi.module.site(w), f"{fi.qualname} sets {CELL_TXT[cell]} during a render (`{short(w, 60)}`): {why}; {WHY_CELL[cell]}")



def _is_match_titles_flag(corpus: Corpus, fi: FunctionInfo, name: str, depth: int = 0) -> bool:
    """``name`` is the match_titles parameter of a docutils-state ``nested_parse`` method, or a parameter that only
    receives such a flag (or a constant False/None) from its callers."""
    if name not in fi.params or name_assignments(fi, name):
        return False
    if fi.name == "nested_parse" and name == "match_titles":
        return True
    if depth >= 2:
        return False
    callers = _callers_by_name(corpus, fi.name)
    if not callers:
        return False
    idx = fi.params.index(name) - (1 if fi.params and fi.params[0] in ("self", "cls") else 0)
    for cf, call in callers:
        arg = kwarg(call, name)
        if arg is None and 0 <= idx < len(call.args) and not any(isinstance(a, ast.Starred) for a in call.args):
            arg = call.args[idx]
        if arg is None:
            return False
        if isinstance(arg, ast.Constant) and arg.value in (False, None):
            continue
        if not (isinstance(arg, ast.Name) and _is_match_titles_flag(corpus, cf, arg.id, depth + 1)):
            return False
    return True


def _caller_witness(corpus: Corpus, fn: FunctionInfo, write_facts, restore_extra) -> str | None:
    """A caller of ``fn`` for which every fact guarding the change holds while some extra fact guarding the restore is false.
    Facts test parameters (``p``, ``p is None``, ``p is not None``): an omitted parameter takes its constant default, a constant
    argument its value, any other explicitly passed argument counts as 'not None'."""
    defaults = _param_defaults(fn)

    def fact_for(call: ast.Call, t: ast.expr, pol: bool) -> bool | None:
        if isinstance(t, ast.Name):
            pname, kind = t.id, "truth"
        elif isinstance(t, ast.Compare) and len(t.ops) == 1 and isinstance(t.ops[0], (ast.Is, ast.IsNot)) and isinstance(t.left, ast.Name) and isinstance(t.comparators[0], ast.Constant) and t.comparators[0].value is None:
            pname, kind = t.left.id, ("is" if isinstance(t.ops[0], ast.Is) else "isnot")
        else:
            return None
        if pname not in fn.params or name_assignments(fn, pname):
            return None
        idx = fn.params.index(pname) - (1 if fn.params and fn.params[0] == "self" else 0)
        arg = kwarg(call, pname)
        if arg is None and 0 <= idx < len(call.args):
            arg = call.args[idx]
        if arg is None:
            arg = defaults.get(pname)
            if not isinstance(arg, ast.Constant):
                return None
        if isinstance(arg, ast.Constant):
            val = bool(arg.value) if kind == "truth" else ((arg.value is None) if kind == "is" else (arg.value is not None))
        elif kind == "truth":
            return None
        else:
            val = kind == "isnot"  # an explicitly passed, non-constant argument is taken to be not None
        return val == pol

    for cf, call in _callers_by_name(corpus, fn.name):
        if any(isinstance(x, ast.Starred) for x in call.args) or any(kw.arg is None for kw in call.keywords):
            continue
        if not all(fact_for(call, t, pol) is True for t, pol in write_facts):
            continue
        for t, pol in restore_extra:
            if fact_for(call, t, pol) is False:
                return f"{cf.qualname} ({cf.module.site(call)}) calls it so that the change happens but `{('' if pol else 'not ') + unparse(t)}` is false"
    return None


def _param_defaults(fn: FunctionInfo) -> dict[str, ast.expr]:
    a = fn.node.args
    pos = a.posonlyargs + a.args
    out: dict[str, ast.expr] = {}
    for arg, dv in zip(pos[len(pos) - len(a.defaults):], a.defaults):
        out[arg.arg] = dv
    for arg, dv in zip(a.kwonlyargs, a.kw_defaults):
        if dv is not None:
            out[arg.arg] = dv
    return out


def _fact_under_defaults(fn: FunctionInfo, t: ast.expr, pol: bool) -> bool | None:
    """Truth of the branch fact (t, pol) for a caller that leaves the tested parameter to its constant default; None if unknown."""
    defaults = _param_defaults(fn)
    val = None
    if isinstance(t, ast.Name) and t.id in defaults and isinstance(defaults[t.id], ast.Constant) and not name_assignments(fn, t.id):
        val = bool(defaults[t.id].value)
    elif isinstance(t, ast.Compare) and len(t.ops) == 1 and isinstance(t.ops[0], (ast.Is, ast.IsNot)) and isinstance(t.left, ast.Name) and t.left.id in defaults and isinstance(t.comparators[0], ast.Constant) and t.comparators[0].value is None and isinstance(defaults[t.left.id], ast.Constant) and not name_assignments(fn, t.left.id):
        is_none = defaults[t.left.id].value is None
        val = is_none if isinstance(t.ops[0], ast.Is) else not is_none
    return None if val is None else (val == pol)


def _offset_terms(e: ast.expr, param: str | None, param_value: int | None = None, option_ok: bool = False, cell_names: frozenset = frozenset(), option_given: bool = True, resolve=None) -> list | None:
    """Signed sum over CELL (a read of _heading_offset), PARAM, OPTION (options['heading-offset']) and an integer constant."""

    budget = [20]

    def rec(x):
        if isinstance(x, ast.BinOp) and isinstance(x.op, (ast.Add, ast.Sub)):
            l, r = rec(x.left), rec(x.right)
            if l is None or r is None:
                return None
            sg = 1 if isinstance(x.op, ast.Add) else -1
            return l + [(sg * s_, t_) for s_, t_ in r]
        if isinstance(x, ast.BoolOp) and isinstance(x.op, ast.Or) and len(x.values) == 2 and isinstance(x.values[1], ast.Constant) and x.values[1].value == 0:
            return rec(x.values[0])
        if is_attr(x, OFFSET) or (isinstance(x, ast.Name) and x.id in cell_names):
            return [(1, "CELL")]
        if isinstance(x, ast.Name) and param is not None and x.id == param:
            return [(1, "PARAM")] if param_value is None else ([(1, param_value)] if param_value else [])
        if isinstance(x, ast.Constant) and isinstance(x.value, int) and not isinstance(x.value, bool):
            return [(1, x.value)] if x.value else []
        if isinstance(x, ast.Name) and resolve is not None and budget[0] > 0:
            budget[0] -= 1
            d_ = resolve(x.id)
            if d_ is not None:
                return rec(d_)
        if option_ok:
            lk = _offset_option_lookup(x)
            if lk is not None:
                if option_given:
                    return [(1, "OPTION")]
                # the option is absent: the lookup yields its default (a subscript has none)
                return None if lk == "subscript" else ([] if lk == "nodefault0" else rec(lk))
            # `A if "heading-offset" in self.options else B` (or `not in`): the scenario selects the branch
            if isinstance(x, ast.IfExp) and isinstance(x.test, ast.Compare) and len(x.test.ops) == 1 and isinstance(x.test.ops[0], (ast.In, ast.NotIn)) and isinstance(x.test.left, ast.Constant) and x.test.left.value == "heading-offset" and is_attr(x.test.comparators[0], "options"):
                present_branch = x.body if isinstance(x.test.ops[0], ast.In) else x.orelse
                absent_branch = x.orelse if isinstance(x.test.ops[0], ast.In) else x.body
                return rec(present_branch if option_given else absent_branch)
        return None

    ts = rec(e)
    if ts is None:
        return None
    const = sum(s_ * t_ for s_, t_ in ts if isinstance(t_, int))
    out = sorted(((s_, t_) for s_, t_ in ts if not isinstance(t_, int)), key=lambda z: (z[1], z[0]))
    # cancel +X -X
    res = []
    for nm in sorted({t_ for _s, t_ in out}):
        n = sum(s_ for s_, t_ in out if t_ == nm)
        res += [(1 if n > 0 else -1, nm)] * abs(n)
    if const:
        res.append((1 if const > 0 else -1, abs(const)))
    return res


def _offset_terms_text(ts: list) -> str:
    names = {"CELL": "the enclosing offset", "PARAM": "the parameter", "OPTION": "the :heading-offset: option"}
    if not ts:
        return "0"
    out = ""
    for s_, t_ in ts:
        out += (" + " if s_ > 0 else " - ") + names.get(t_, str(t_))
    return out[3:] if out.startswith(" + ") else out.strip()


def _offset_option_lookup(v: ast.expr):
    """None if ``v`` is not a lookup of options['heading-offset']; else 'subscript', 'nodefault0' (get with default 0) or the
    default expression of ``options.get('heading-offset', <default>)``."""
    if isinstance(v, ast.Subscript) and is_attr(v.value, "options") and isinstance(v.slice, ast.Constant) and v.slice.value == "heading-offset":
        return "subscript"
    if isinstance(v, ast.Call) and isinstance(v.func, ast.Attribute) and v.func.attr == "get" and is_attr(v.func.value, "options") and v.args and isinstance(v.args[0], ast.Constant) and v.args[0].value == "heading-offset" and not v.keywords:
        if len(v.args) == 2:
            d = v.args[1]
            return "nodefault0" if (isinstance(d, ast.Constant) and d.value == 0 and not isinstance(d.value, bool)) else d
    return None


def _is_offset_option(v: ast.expr) -> bool:
    return (
        isinstance(v, ast.Call)
        and isinstance(v.func, ast.Attribute)
        and v.func.attr == "get"
        and is_attr(v.func.value, "options")
        and bool(v.args)
        and isinstance(v.args[0], ast.Constant)
        and v.args[0].value == "heading-offset"
        and (len(v.args) < 2 or (isinstance(v.args[1], ast.Constant) and v.args[1].value == 0))
    ) or (isinstance(v, ast.Subscript) and is_attr(v.value, "options") and isinstance(v.slice, ast.Constant) and v.slice.value == "heading-offset")


def _restoring_cms(corpus: Corpus, base, nrt: FunctionInfo):
    """(_render_tokens calls of nested_render_text, [(context manager, its call)] wrapped around them, calls not wrapped).
    The context manager is a @contextmanager generator - nested function or renderer method - that writes the heading offset."""
    rcalls = method_calls(nrt.local_nodes(), "_render_tokens")
    if not rcalls:
        raise Unsupported("nested_render_text does not call _render_tokens")
    cms: list[tuple[FunctionInfo, ast.Call]] = []
    unwrapped = []
    for c in rcalls:
        found = None
        p = parent(c)
        while p is not None and p is not nrt.node:
            if isinstance(p, ast.With):
                for it in p.items:
                    ce = it.context_expr
                    if isinstance(ce, ast.Call):
                        f = None
                        if isinstance(ce.func, ast.Name):
                            f = base.functions.get(f"{nrt.qualname}.{ce.func.id}")
                        elif isinstance(ce.func, ast.Attribute) and isinstance(ce.func.value, ast.Name) and ce.func.value.id == "self":
                            f = corpus.lookup_method(base.cls(RENDERER), ce.func.attr)
                        if f is not None and f.is_generator() and any(d.endswith("contextmanager") for d in f.decorators()) and writes_attr(f.local_nodes(), OFFSET):
                            found = (f, ce)
            p = parent(p)
        if found is None:
            unwrapped.append(c)
        elif found[0] not in [x for x, _ in cms]:
            cms.append(found)
    return rcalls, cms, unwrapped


def _inline_restore(nrt: FunctionInfo, rcalls, cms, unwrapped) -> ast.stmt | None:
    """The same bracket written without a context manager: nested_render_text itself changes the heading offset and holds
    its single _render_tokens call as a statement of its own body (set-up; [try:] render; [finally:] restore). That
    statement then plays the role the yield plays in the generator: what reaches it is the set-up, what it reaches is the
    restore, and the cell obligations are decided over the very same partition. None when this is not the layout."""
    if cms or len(rcalls) != 1 or len(unwrapped) != 1 or nrt.is_generator():
        return None
    if not writes_attr(nrt.local_nodes(), OFFSET):
        return None
    return get_cfg(nrt).stmt_of(rcalls[0])


def _post_yield_stmts(fi: FunctionInfo) -> list[ast.stmt]:
    """Statements of a generator that run after its (single) yield, in source order; plain and try/finally layouts."""
    ys = [n for n in fi.local_nodes() if isinstance(n, (ast.Yield, ast.YieldFrom))]
    if len(ys) != 1:
        return []
    cfg = get_cfg(fi)
    yst = cfg.stmt_of(ys[0])
    after = cfg.reachable_from(yst)
    out = [s_ for s_ in fi.local_nodes() if isinstance(s_, ast.stmt) and s_ in cfg.succ and s_ in after and s_ is not yst]
    out.sort(key=lambda s_: (s_.lineno, s_.col_offset))
    return out


@rule("C05.R4")
def r4_save_restore(corpus: Corpus, rep: Report, tier: str):
    rep.rule("C05.R4", "nested renders save and restore heading offset / level map (by copy) / temp root; no offset argument keeps the enclosing offset, an include adds its option to it; map re-rooted at a temp root, passed only for match_titles; level = tag digit + offset")
    base, rh, upd = _renderer_funcs(corpus)
    nrt = base.func(f"{RENDERER}.nested_render_text")
    rep.saw_function(nrt.fq)
    # the context manager around _render_tokens
    rcalls, cms, unwrapped = _restoring_cms(corpus, base, nrt)
    k = f"{nrt.fq}|_render_tokens runs inside the restoring context manager"
    pivot = _inline_restore(nrt, rcalls, cms, unwrapped)
    if pivot is not None:
        rep.ok("C05.R4", k, base.site(rcalls[0]), "set-up / render / restore written in nested_render_text itself (cells judged below around the render statement)")
        cms = [(nrt, rcalls[0])]
    elif unwrapped:
        rep.violation("C05.R4", k, base.site(unwrapped[0]), "nested_render_text renders tokens outside the context manager that saves/restores the heading offset, level map and temp root: state set for a nested render leaks into the rest of the document")
    else:
        rep.ok("C05.R4", k, base.site(rcalls[0]), f"with {cms[0][0].name}()")
    if len(cms) != 1:
        if not cms:
            return
        raise Unsupported("several restoring context managers")
    cm, cm_call = cms[0]
    # a context manager that is a method receives nested_render_text's parameters as arguments: facts on its parameters are
    # translated to the caller's parameter names before defaults / call sites are consulted
    pmap: dict[str, str] = {}
    if cm.parent_func is None and pivot is None:
        cparams = [p_ for p_ in cm.params if p_ != "self"]
        for i_, p_ in enumerate(cparams):
            arg = cm_call.args[i_] if i_ < len(cm_call.args) and not any(isinstance(a_, ast.Starred) for a_ in cm_call.args) else kwarg(cm_call, p_)
            if isinstance(arg, ast.Name) and arg.id in nrt.params:
                pmap[p_] = arg.id
            elif arg is not None:
                raise Unsupported(f"{cm.qualname} receives `{short(arg, 30)}` for `{p_}`: not a parameter of nested_render_text")

    def to_nrt(e: ast.expr) -> ast.expr:
        if not pmap:
            return e
        e2 = ast.parse(ast.unparse(e), mode="eval").body
        for n_ in ast.walk(e2):
            if isinstance(n_, ast.Name) and n_.id in pmap:
                n_.id = pmap[n_.id]
        return e2

    def nrt_facts(facts_):
        return [(to_nrt(t_), pol_) for t_, pol_ in facts_]

    rep.saw_function(cm.fq)
    cfg = get_cfg(cm)
    for pname in nrt.params:
        if name_assignments(nrt, pname) or name_assignments(cm, pname):
            raise Unsupported(f"parameter `{pname}` of nested_render_text is rebound")
    for pname in cm.params:
        if name_assignments(cm, pname):
            raise Unsupported(f"parameter `{pname}` of {cm.qualname} is rebound")
    if pivot is not None:
        yst = pivot  # the render statement stands where the generator's yield stands
    else:
        ys = [n for n in cm.local_nodes() if isinstance(n, (ast.Yield, ast.YieldFrom))]
        if len(ys) != 1:
            raise Unsupported(f"{cm.qualname} has {len(ys)} yields")
        yst = cfg.stmt_of(ys[0])
    if cfg.guards(yst):
        raise Unsupported("the yield is conditional")
    stmts = [s for s in cm.local_nodes() if isinstance(s, ast.stmt) and s in cfg.succ]
    pre = [s for s in stmts if s is not yst and yst in cfg.reachable_from(s) and s not in cfg.reachable_from(yst)]
    post = [s for s in stmts if s is not yst and s in cfg.reachable_from(yst)]
    if set(pre) & set(post):
        raise Unsupported("statement both before and after the yield (loop)")

    saves: dict[str, list[tuple[str, str, ast.stmt]]] = {}  # cell -> [(name, how, stmt)]
    writes_pre: dict[str, list[ast.stmt]] = {}
    for s in pre:
        if isinstance(s, ast.Assign) and len(s.targets) == 1:
            t = s.targets[0]
            if isinstance(t, ast.Name):
                sk = _save_kind(s.value)
                if sk:
                    saves.setdefault(sk[0], []).append((t.id, sk[1], s))
                continue
            c = _cell_of(t)
            if c:
                writes_pre.setdefault(c, []).append(s)
                continue
        if isinstance(s, ast.AugAssign) and _cell_of(s.target):
            writes_pre.setdefault(_cell_of(s.target), []).append(s)
            continue
        for n in own_nodes(s):
            if isinstance(n, ast.Call) and isinstance(n.func, ast.Attribute) and n.func.attr in MUTATORS and (_cell_of(n.func.value) or is_attr(n.func.value, "md_env")):
                raise Unsupported(f"`{short(n, 50)}` before the yield mutates nested-render state in an idiom this rule does not know")
    restores: dict[str, list[tuple[ast.stmt, ast.expr]]] = {}
    for s in post:
        if isinstance(s, ast.Assign) and len(s.targets) == 1 and _cell_of(s.targets[0]):
            restores.setdefault(_cell_of(s.targets[0]), []).append((s, s.value))
        else:
            for n in own_nodes(s):
                if isinstance(n, ast.Call) and isinstance(n.func, ast.Attribute) and n.func.attr in MUTATORS and (_cell_of(n.func.value) or is_attr(n.func.value, "md_env")):
                    raise Unsupported(f"`{short(n, 50)}` after the yield mutates nested-render state in an idiom this rule does not know")

    need = set(writes_pre)
    if "root" in writes_pre:
        need.add("map")  # sections created under a temp root change the map: it must come back
    if "offset" not in writes_pre or "root" not in writes_pre:
        raise Unsupported("the context manager no longer sets the heading offset and the temp root before the yield")
    for cell in ("offset", "map", "root"):
        k = f"{cm.fq}|{CELL_TXT[cell]} saved before and restored after the nested render"
        site = cm.site()
        if cell not in need:
            continue
        sv = saves.get(cell, [])
        rs = restores.get(cell, [])
        # inverse update: `cell += x` before the yield, `cell -= x` after it (same x, same guard)
        pre_aug = [w for w in writes_pre.get(cell, []) if isinstance(w, ast.AugAssign)]
        if pre_aug:
            inv = [q for q in post if isinstance(q, ast.AugAssign) and _cell_of(q.target) == cell]
            if len(pre_aug) == len(writes_pre[cell]) == 1 and isinstance(pre_aug[0].op, ast.Add) and len(inv) == 1 and isinstance(inv[0].op, ast.Sub) and unparse(inv[0].value) == unparse(pre_aug[0].value) and _guard_set(cfg, inv[0]) == _guard_set(cfg, pre_aug[0]) and not rs:
                rep.ok("C05.R4", k, base.site(inv[0]), f"`+= {unparse(pre_aug[0].value)}` before the nested render, `-= {unparse(inv[0].value)}` after it")
                continue
            if not sv:
                raise Unsupported(f"{CELL_TXT[cell]} is updated in place before the yield without a saved copy or an inverse update after it")
        if not sv:
            rep.violation("C05.R4", k, site, f"{CELL_TXT[cell]} is not saved before the nested render")
            continue
        name, how, sst = sv[-1]
        if len(name_assignments(cm, name)) != 1:
            raise Unsupported(f"saved name `{name}` is bound more than once")
        if cell == "root" and how == "item":
            raise Unsupported("temp root saved with md_env[...] (KeyError when unset)")
        gref = _guard_set(cfg, writes_pre[cell][0]) if cell in writes_pre else _guard_set(cfg, writes_pre["root"][0])
        if cell in writes_pre and not all(cfg.dominates(sst, w) for w in writes_pre[cell]):
            rep.violation("C05.R4", k, base.site(sst), f"{CELL_TXT[cell]} is overwritten before it is saved: the restore brings back the nested value")
            continue
        if not _guard_set(cfg, sst) <= gref:
            rep.error("C05.R4", f"{base.site(sst)}: {CELL_TXT[cell]} is saved under {sorted(_guard_set(cfg, sst))}, changed under {sorted(gref)}: conditions not comparable by this rule")
            continue
        if cell == "map" and how != "copy":
            rep.violation("C05.R4", k, base.site(sst), "the level map is saved by reference: the level-state update stores into that same dict (map[level] = section) before rebinding it, so the 'saved' map is modified by headings of the nested render")
            continue
        good = [s for s, v in rs if isinstance(v, ast.Name) and v.id == name]
        if not good:
            rep.violation("C05.R4", k, base.site(rs[0][0]) if rs else site, f"{CELL_TXT[cell]} is not restored to its saved value `{name}` after the nested render: " + ("the heading offset of an include leaks into the including document" if cell == "offset" else "sections opened under the temp root stay in the level map / the temp root stays set after the directive"))
            continue
        if len(rs) != len(good):
            rep.violation("C05.R4", k, base.site(rs[0][0]), f"{CELL_TXT[cell]} is also assigned something other than `{name}` after the yield")
            continue
        gres = _guard_set(cfg, good[0])
        if not cfg.paths_avoiding(yst, EXIT, lambda n: n in good) and not _guard_set(cfg, sst):
            gres = gref  # saved unconditionally and restored on every normal path after the yield (possibly in several branches): covers every change
        elif len(good) == 1 and gres < gref and _guard_set(cfg, sst) <= gres:
            gres = gref  # restored also where it was not changed: harmless, the saved value is the unchanged one
        elif len(good) > 1:
            rep.error("C05.R4", f"{base.site(good[0])}: {CELL_TXT[cell]} is restored in {len(good)} places that do not cover every path after the yield: not comparable by this rule")
            continue
        if gres != gref:
            # restored under a strictly stronger condition than it is changed: decidable when the extra facts test a parameter
            # whose default falsifies them and some caller relies on that default
            extra = [(t, pol) for t, pol in cfg.guards(good[0]) if (unparse(t), pol) not in gref]
            wfacts = cfg.guards(writes_pre[cell][0]) if cell in writes_pre else cfg.guards(writes_pre["root"][0])
            witness = _caller_witness(corpus, nrt, nrt_facts(wfacts), nrt_facts(extra))
            if witness:
                rep.violation(
                    "C05.R4",
                    k,
                    base.site(good[0]),
                    f"{CELL_TXT[cell]} is changed before the nested render"
                    + (f" when {' and '.join(sorted(t for t, _ in gref))}" if gref else " (always)")
                    + f" but only restored when {' and '.join(('' if pol else 'not ') + unparse(t) for t, pol in extra)}; {witness}: "
                    + ("after such a nested render (include, directive body, div, substitution) the heading offset of the enclosing include is lost and its remaining headings get the wrong level" if cell == "offset" else "after such a nested render the enclosing section state is not put back"),
                )
            else:
                rep.error("C05.R4", f"{base.site(good[0])}: {CELL_TXT[cell]} is restored under {sorted(gres)} but changed under {sorted(gref)}: conditions not comparable by this rule")
            continue
        rep.ok("C05.R4", k, base.site(good[0]), f"saved as `{name}`" + (" (copy)" if cell == "map" else "") + f", restored under {sorted(t for t, _ in gref) or 'no condition'}")

    # a nested render that passes no heading offset keeps the enclosing one
    off_param = None
    for w in writes_pre["offset"]:
        for n in ast.walk(w.value):
            if isinstance(n, ast.Name) and (n.id in pmap or (not pmap and n.id in nrt.params)):
                off_param = n.id
    if off_param is None:
        raise Unsupported("the heading offset written before the yield does not come from a parameter of nested_render_text")
    dflt = _param_defaults(nrt).get(pmap.get(off_param, off_param))
    k = f"{cm.fq}|a nested render that passes no heading offset keeps the enclosing one"
    if not isinstance(dflt, ast.Constant):
        raise Unsupported(f"parameter `{off_param}` has no constant default")
    verdict = None
    for w in writes_pre["offset"]:
        skipped = any(_fact_under_defaults(nrt, t, pol) is False for t, pol in nrt_facts(cfg.guards(w)))
        if skipped:
            continue
        value = w.value if isinstance(w, ast.Assign) else ast.BinOp(left=w.target, op=w.op, right=w.value)
        saved_offset_names = frozenset(nm for nm, _how, sst_ in saves.get("offset", []) if cfg.dominates(sst_, w) and len(name_assignments(cm, nm)) == 1)
        ts = _offset_terms(value, off_param, dflt.value if isinstance(dflt.value, int) and not isinstance(dflt.value, bool) else None, cell_names=saved_offset_names)
        if ts is None:
            raise Unsupported(f"offset written as `{short(value, 40)}`: not a sum of the current offset, the parameter and constants")
        if ts != [(1, "CELL")]:
            verdict = (w, ts)
    if verdict is None:
        rep.ok("C05.R4", k, base.site(writes_pre["offset"][0]), f"`{off_param}` defaults to {unparse(dflt)}: the offset is not changed / changed to itself")
    else:
        w, ts = verdict
        rep.violation(
            "C05.R4",
            k,
            base.site(w),
            f"`{short(w, 50)}` also runs when the caller passes no `{off_param}` (default {unparse(dflt)}) and sets the offset to {_offset_terms_text(ts)}: the body of a directive, a ::: div, a block "
            "substitution or a nested include inside a file included with :heading-offset: is rendered without that offset (its sections close the including document's section, its rubrics record the raw level)",
        )

    # under a temp root the level map is re-rooted at it, so sections of the nested text do not land in the surrounding sections
    k = f"{cm.fq}|level map re-rooted at the temp root for the nested render"
    root_val = writes_pre["root"][0].value
    reroots = [w for w in writes_pre.get("map", []) if isinstance(w, ast.Assign)]

    def leaves_not_root(e: ast.expr) -> list[ast.expr]:
        """Leaves of a (possibly conditional) value expression that are not the temp root."""
        if isinstance(e, ast.IfExp):
            return leaves_not_root(e.body) + leaves_not_root(e.orelse)
        if isinstance(e, ast.Name):
            d_ = single_def(cm, e.id)
            if d_ is not None and unparse(d_) == unparse(root_val):
                return []
        return [] if unparse(e) == unparse(root_val) else [e]

    def filter_at_zero(test: ast.expr, kv: str) -> bool | None:
        """Does the comprehension filter keep key 0?"""
        if isinstance(test, ast.UnaryOp) and isinstance(test.op, ast.Not):
            r_ = filter_at_zero(test.operand, kv)
            return None if r_ is None else not r_
        if isinstance(test, ast.Name) and test.id == kv:
            return False
        if isinstance(test, ast.Compare) and len(test.ops) == 1 and type(test.ops[0]) in REL_TXT:
            l_, r_ = test.left, test.comparators[0]
            val = lambda x: 0 if (isinstance(x, ast.Name) and x.id == kv) else (x.value if isinstance(x, ast.Constant) and isinstance(x.value, int) and not isinstance(x.value, bool) else None)  # noqa: E731
            a_, b_ = val(l_), val(r_)
            if a_ is not None and b_ is not None:
                return {ast.Lt: a_ < b_, ast.LtE: a_ <= b_, ast.Gt: a_ > b_, ast.GtE: a_ >= b_, ast.Eq: a_ == b_, ast.NotEq: a_ != b_}[type(test.ops[0])]
        return None

    verdicts: list[tuple[ast.stmt, str | None]] = []  # (write, None = every entry is the root | what is wrong)
    for w in reroots:
        v = w.value
        if isinstance(v, ast.DictComp) and len(v.generators) == 1 and _map_keys_iter(v.generators[0].iter) in ("keys", "items"):
            gen = v.generators[0]
            tgt = gen.target
            kv = tgt.id if isinstance(tgt, ast.Name) else (tgt.elts[0].id if isinstance(tgt, ast.Tuple) and isinstance(tgt.elts[0], ast.Name) else None)
            if kv is None or not (isinstance(v.key, ast.Name) and v.key.id == kv):
                raise Unsupported(f"re-rooting comprehension `{short(v, 50)}` does not keep the level keys")
            bad_leaves = leaves_not_root(v.value)
            if bad_leaves:
                verdicts.append((w, f"some entries are mapped to `{short(bad_leaves[0], 30)}` instead of the temp root ({short(v.value, 70)}): those levels - level 0, the surrounding document, among them unless the condition "
                                    "covers it - keep pointing at the surrounding nodes, so a heading whose parent level is one of them is attached outside the directive"))
                continue
            wrong = None
            for t_ in gen.ifs:
                kept = filter_at_zero(t_, kv)
                if kept is None:
                    raise Unsupported(f"filter `{short(t_, 40)}` of the re-rooting comprehension not understood")
                if not kept:
                    wrong = f"the filter `{short(t_, 40)}` drops level 0 from the re-rooted map: a heading in the directive body has no parent level below it"
            verdicts.append((w, wrong))
        elif isinstance(v, ast.Call) and dotted(v.func) == "dict.fromkeys" and len(v.args) == 2 and _map_keys_iter(v.args[0]) == "keys":
            bl = leaves_not_root(v.args[1])
            verdicts.append((w, None if not bl else f"every level is mapped to `{short(bl[0], 30)}`, not to the temp root"))
        elif isinstance(v, ast.Dict) and v.keys and all(isinstance(k_, ast.Constant) for k_ in v.keys):
            bl = [x for val_ in v.values for x in leaves_not_root(val_)]
            if not any(k_.value == 0 for k_ in v.keys):
                verdicts.append((w, "the re-rooted map has no level 0"))
            else:
                verdicts.append((w, None if not bl else f"a level is mapped to `{short(bl[0], 30)}`, not to the temp root"))
        else:
            raise Unsupported(f"the level map is rewritten before the yield as `{short(v, 50)}`: not recognised as re-rooting at the temp root")
    good_reroot = next((w for w, why in verdicts if why is None), None)
    bad_reroot = next(((w, why) for w, why in verdicts if why is not None), None)
    if bad_reroot is not None:
        rep.violation("C05.R4", k, base.site(bad_reroot[0]), f"while a temp root is set the level map is only partly re-rooted: {bad_reroot[1]}")
    elif good_reroot is not None and _guard_set(cfg, good_reroot) == _guard_set(cfg, writes_pre["root"][0]):
        rep.ok("C05.R4", k, base.site(good_reroot), f"every open level maps to {unparse(root_val)} while the temp root is set")
    elif good_reroot is not None:
        raise Unsupported("the level map is re-rooted under a different condition than the temp root is set")
    else:
        rep.violation(
            "C05.R4",
            k,
            base.site(writes_pre["root"][0]),
            f"a temp root is set ({short(writes_pre['root'][0], 50)}) but the level map still points at the surrounding document's open sections: the section a heading opens in the body of a "
            "match_titles directive ({only}, {py:function}, ...) is appended to the surrounding section instead of the directive's node, so it and the text below it leave the directive and land after later siblings",
        )

    # callers of nested_render_text
    mk = corpus.mod("mocking")
    n_root = n_off = 0
    for fi, c in _callers_by_name(corpus, "nested_render_text"):
        rep.saw_call(fi.module.site(c))
        if any(isinstance(a, ast.Starred) for a in c.args) or any(kw.arg is None for kw in c.keywords):
            raise Unsupported(f"{fi.module.site(c)}: nested_render_text called with */** arguments")
        pidx = {p: i - 1 for i, p in enumerate(nrt.params)}
        off_dflt = _param_defaults(nrt).get("heading_offset")
        tr = kwarg(c, "temp_root_node") or (c.args[pidx["temp_root_node"]] if len(c.args) > pidx.get("temp_root_node", 99) else None)
        ho = kwarg(c, "heading_offset") or (c.args[pidx["heading_offset"]] if len(c.args) > pidx.get("heading_offset", 99) else None)
        site = fi.module.site(c)
        if isinstance(tr, ast.Name) and tr.id not in fi.params:
            d_ = single_def(fi, tr.id)
            if isinstance(d_, ast.IfExp) or (isinstance(d_, ast.Constant) and d_.value is None):
                tr = d_
        if tr is not None and not (isinstance(tr, ast.Constant) and tr.value is None):
            n_root += 1
            is_state_api = fi.module.name.endswith(".mocking") and fi.qualname == "MockState.nested_parse"
            k = f"{fi.fq}|temp_root_node only for match_titles" + ("" if is_state_api else f"|{short(c, 60)}")
            ctx_arg = None
            for w in fi.local_nodes():
                if isinstance(w, ast.With) and any(c is x for x in ast.walk(w)):
                    for it in w.items:
                        ce = it.context_expr
                        if isinstance(ce, ast.Call) and isinstance(ce.func, ast.Attribute) and ce.func.attr == "current_node_context" and ce.args:
                            ctx_arg = unparse(ce.args[0])
            gated = None
            if isinstance(tr, ast.IfExp):
                t, b_, o_ = tr.test, tr.body, tr.orelse
                if isinstance(t, ast.UnaryOp) and isinstance(t.op, ast.Not):
                    t = t.operand
                    b_, o_ = o_, b_
                if isinstance(o_, ast.Constant) and o_.value is None:
                    if isinstance(t, ast.Name) and _is_match_titles_flag(corpus, fi, t.id):
                        gated = unparse(b_)
                    else:
                        raise Unsupported(f"{site}: temp_root_node is conditional on `{short(t, 40)}`, which is not traced to a directive's match_titles flag")
                else:
                    raise Unsupported(f"{site}: temp_root_node={short(tr, 40)} is not `<node> if <match_titles> else None`")
            if gated is None and isinstance(tr, ast.Name) and tr.id in fi.params and ctx_arg is None and fi.cls is not None:
                # a wrapper that forwards its own parameter: judged through its callers
                pidx2 = fi.params.index(tr.id) - (1 if fi.params[0] == "self" else 0)
                passing = [cc for _cf, cc in _callers_by_name(corpus, fi.name) if kwarg(cc, tr.id) is not None or len(cc.args) > pidx2]
                if passing:
                    raise Unsupported(f"{site}: temp_root_node is forwarded from parameter `{tr.id}` of {fi.qualname}, which callers set: chain not followed")
                rep.ok("C05.R4", k, site, f"forwards its parameter `{tr.id}`, which no caller sets")
            elif gated is None:
                if ctx_arg is not None and unparse(tr) == ctx_arg:
                    rep.violation("C05.R4", k, site, f"{fi.qualname} passes temp_root_node={unparse(tr)} regardless of match_titles: headings directly in this container open sections")
                else:
                    rep.violation(
                        "C05.R4",
                        k,
                        site,
                        f"{fi.qualname} passes temp_root_node={unparse(tr)} unconditionally (no match_titles request of a directive) and not inside current_node_context({unparse(tr)}): "
                        "the level map is put back after this nested render while current_node is not, so the sections its headings open are forgotten as open headings "
                        "(the next heading is nested as if they had never been rendered)",
                    )
            elif ctx_arg is None or gated != ctx_arg:
                rep.violation("C05.R4", k, site, f"the temp root `{gated}` is not the node made current for the nested parse (`{ctx_arg}`): render_heading compares current_node with the temp root")
            else:
                rep.ok("C05.R4", k, site, f"temp_root_node={unparse(tr)} inside current_node_context({ctx_arg})")
        else:
            rep.ok("C05.R4", f"{fi.fq}|no temp root|{short(c, 70)}", site, "nested render without a temp root (sections only where the current node is a document/section)")
        if fi.module.name.endswith(".mocking") and fi.qualname == "MockIncludeDirective.run":
            n_off += 1
            k = f"{fi.fq}|include adds its heading-offset option to the enclosing offset"
            v = ho
            if isinstance(v, ast.Name):
                v = single_def(fi, v.id) or v
            loc = lambda nm, fi=fi: single_def(fi, nm)  # noqa: E731
            given_ts = _offset_terms(v, None, None, option_ok=True, option_given=True, resolve=loc) if v is not None else None
            absent_ts = _offset_terms(v, None, None, option_ok=True, option_given=False, resolve=loc) if v is not None else None
            if ho is None or given_ts is not None and not any(t_ == "OPTION" for _s, t_ in given_ts):
                rep.violation("C05.R4", k, site, f"the include mock passes heading_offset={unparse(ho) if ho is not None else '<default>'}: the :heading-offset: option has no effect on the included headings")
            elif given_ts is None:
                rep.error("C05.R4", f"{site}: heading_offset={short(ho, 50)} not traced to options['heading-offset'] and the current offset")
            else:
                # the offset in force inside the include: the pre-yield write with the parameter replaced by this argument,
                # once for an include that carries the option and once for one that does not
                if len(writes_pre["offset"]) != 1:
                    raise Unsupported("several writes of the heading offset before the yield")
                w = writes_pre["offset"][0]
                value = w.value if isinstance(w, ast.Assign) else ast.BinOp(left=w.target, op=w.op, right=w.value)
                wt = _offset_terms(value, off_param, cell_names=frozenset(nm for nm, _how, sst_ in saves.get("offset", []) if cfg.dominates(sst_, w) and len(name_assignments(cm, nm)) == 1))
                if wt is None:
                    raise Unsupported(f"offset written as `{short(value, 40)}`")

                def in_force(arg_ts):
                    new = []
                    for s_, t_ in wt:
                        new += [(s_ * s2, t2) for s2, t2 in arg_ts] if t_ == "PARAM" else [(s_, t_)]
                    # cancel and order
                    out_ = []
                    for nm in sorted({str(t2) for _s2, t2 in new}):
                        n_ = sum(s2 for s2, t2 in new if str(t2) == nm)
                        t_obj = next(t2 for _s2, t2 in new if str(t2) == nm)
                        out_ += [(1 if n_ > 0 else -1, t_obj)] * abs(n_)
                    return out_

                new_given = in_force(given_ts)
                problems = []
                if new_given == [(1, "OPTION")]:
                    problems.append(
                        f"for an include that carries :heading-offset: the offset becomes the option alone (heading_offset={short(ho, 60)}): nested in a file that was itself included with "
                        ":heading-offset: it drops the enclosing offset, so its headings close the including document's sections"
                    )
                elif new_given != [(1, "CELL"), (1, "OPTION")]:
                    problems.append(f"for an include that carries :heading-offset: the offset becomes {_offset_terms_text(new_given)} (heading_offset={short(ho, 50)}), not the enclosing offset + the option")
                if absent_ts is None:
                    if not (isinstance(v, ast.Subscript) or any(isinstance(n_, ast.Subscript) and _offset_option_lookup(n_) == "subscript" for n_ in ast.walk(v))):
                        raise Unsupported(f"{site}: value of heading_offset={short(ho, 50)} for an include without the option not understood")
                else:
                    new_absent = in_force(absent_ts)
                    if new_absent != [(1, "CELL")]:
                        problems.append(f"for an include without :heading-offset: the offset becomes {_offset_terms_text(new_absent)} instead of staying the enclosing offset")
                if problems:
                    rep.violation("C05.R4", k, site, "; ".join(problems))
                else:
                    rep.ok("C05.R4", k, site, f"heading_offset={short(ho, 60)}: inside the include the offset is the enclosing offset + the option (the enclosing offset alone without the option)")
        elif ho is not None and not (isinstance(ho, ast.Constant) and isinstance(off_dflt, ast.Constant) and type(ho.value) is type(off_dflt.value) and ho.value == off_dflt.value):
            # (an argument that is the constant the parameter defaults to is the call without it: the offset is kept, judged above)
            rep.error("C05.R4", f"{site}: {fi.qualname} passes heading_offset: caller not understood")
    if n_off != 1:
        rep.error("C05.R4", f"expected the include mock to call nested_render_text once, found {n_off}")

    # level derivation: tag digit + offset (the value the section path registers; the rubric's is compared with it by R2)
    hc = _heading_code(corpus)
    uf, ucall = hc.update_call()
    lts = hc.terms(_update_args(ucall)[1], uf, get_cfg(uf).stmt_of(ucall))
    k = f"{rh.fq}|level = tag digit + heading offset"
    lsite = uf.module.site(ucall)
    if lts == [(1, "OFFSET"), (1, "TAG")]:
        rep.ok("C05.R4", k, lsite, terms_text(lts))
    elif lts == [(-1, "OFFSET"), (1, "TAG")]:
        rep.violation("C05.R4", k, lsite, f"the heading level is `{terms_text(lts)}`: the include's heading offset must be added to the tag level")
    elif lts == [(1, "TAG")]:
        rep.violation("C05.R4", k, lsite, "the heading level ignores the heading offset: headings of an include with :heading-offset: are not shifted")
    elif any(t.startswith("MARKUP:") for _s, t in lts):
        mterm = [t for _s, t in lts if t.startswith("MARKUP:")][0][len("MARKUP:"):]
        bad_producers = _markup_not_level_length(corpus)
        if bad_producers:
            rep.violation(
                "C05.R4",
                k,
                lsite,
                f"the heading level is derived from the token's markup (`{mterm}`) instead of its tag: {'; '.join(bad_producers)} - for such a heading (setext: text underlined with === / ---) "
                "the markup does not encode the level (the tag 'h'+level does), so its level and therefore its place in the section tree is wrong",
            )
        elif mterm.startswith("len(") and sorted(t for _s, t in lts if not t.startswith("MARKUP:")) == ["OFFSET"]:
            rep.ok("C05.R4", k, lsite, f"{terms_text(lts)}: every heading_open producer sets markup to exactly <level> characters")
        else:
            raise Unsupported(f"heading level `{terms_text(lts)}` derived from token.markup in a way this rule cannot relate to the level")
    else:
        raise Unsupported(f"heading level `{terms_text(lts)}` is not int(token.tag[1]) + self.{OFFSET}")
    # every other change of the offset / temp root during a render must be its own save/restore pair
    _judge_foreign_writers(corpus, rep, "C05.R4", "offset", {cm.fq})
    _judge_foreign_writers(corpus, rep, "C05.R4", "root", {cm.fq})

    if tier == "thorough":
        _heading_tag_shape(corpus, rep)
    rep.expect_min("C05.R4", 8, "wrapping, three cells, temp-root caller, include offset, level derivation, other callers")


def _heading_open_sites(corpus: Corpus) -> list[tuple[str, object, ast.Call]]:
    """(relative file, parsed module, call) for every place markdown-it / mdit-py-plugins create a heading_open token."""

    def scan():
        out = []
        for sp in site_packages():
            for pkg in ("markdown_it", "mdit_py_plugins"):
                root = sp / pkg
                if not root.is_dir():
                    continue
                for path in sorted(root.rglob("*.py")):
                    try:
                        text = path.read_text(encoding="utf8")
                    except OSError:
                        continue
                    if '"heading_open"' not in text and "'heading_open'" not in text:
                        continue
                    rel = str(path.relative_to(sp))
                    m = corpus.sibling(rel)
                    for c in ast.walk(m.tree):
                        if isinstance(c, ast.Call) and ((isinstance(c.func, ast.Attribute) and c.func.attr in ("push", "Token")) or dotted(c.func) == "Token"):
                            if c.args and isinstance(c.args[0], ast.Constant) and c.args[0].value == "heading_open":
                                out.append((rel, m, c))
            if out:
                break
        return out

    return corpus.cache("c05-heading-open-sites", scan)


def _markup_not_level_length(corpus: Corpus) -> list[str]:
    """Producers of heading_open whose ``token.markup`` is not a string of exactly <level> characters."""
    bad = []
    sites = _heading_open_sites(corpus)
    if len(sites) < 2:
        raise Unsupported("heading_open producers not found in the markdown-it sources")
    for rel, m, c in sites:
        asg = parent(c)
        if not (isinstance(asg, ast.Assign) and len(asg.targets) == 1 and isinstance(asg.targets[0], ast.Name)):
            raise Unsupported(f"{rel}:{c.lineno}: heading_open token not bound to a name")
        tok = asg.targets[0].id
        tag = c.args[1] if len(c.args) > 1 else None
        lvl_names = {n.id for n in ast.walk(tag) if isinstance(n, ast.Name)} if tag is not None else set()
        blk = None
        pp = parent(asg)
        for fld in ("body", "orelse", "finalbody"):
            if asg in getattr(pp, fld, []):
                blk = getattr(pp, fld)
        if blk is None:
            raise Unsupported(f"{rel}:{c.lineno}: heading_open push not in a statement block")
        mk = None
        for st in blk[blk.index(asg) + 1 :]:
            if isinstance(st, ast.Assign) and any(isinstance(t, ast.Name) and t.id == tok for t in st.targets):
                break
            if isinstance(st, ast.Assign) and len(st.targets) == 1 and isinstance(st.targets[0], ast.Attribute) and st.targets[0].attr == "markup" and isinstance(st.targets[0].value, ast.Name) and st.targets[0].value.id == tok:
                mk = st
        if mk is None:
            bad.append(f"{rel}:{c.lineno} (markup left empty)")
            continue
        v = mk.value
        level_len = (
            isinstance(v, ast.Subscript) and isinstance(v.value, ast.Constant) and isinstance(v.value.value, str) and len(set(v.value.value)) == 1 and len(v.value.value) >= 6
            and isinstance(v.slice, ast.Slice) and v.slice.lower is None and v.slice.step is None and isinstance(v.slice.upper, ast.Name) and v.slice.upper.id in lvl_names
        )
        if not level_len:
            bad.append(f"{rel}:{mk.lineno} sets markup = {unparse(v)}")
    return bad


def _heading_tag_shape(corpus: Corpus, rep: Report) -> None:
    """Sibling cross-check: every heading_open token is pushed with tag "h" + str(level)."""
    sites = _heading_open_sites(corpus)
    for rel, _m, c in sites:
        rep.saw_sibling(rel)
        tag = c.args[1] if len(c.args) > 1 else None
        k = f"sibling {rel}|heading_open tag"
        okk = isinstance(tag, ast.BinOp) and isinstance(tag.op, ast.Add) and isinstance(tag.left, ast.Constant) and tag.left.value == "h" and isinstance(tag.right, ast.Call) and dotted(tag.right.func) == "str"
        okk = okk or (isinstance(tag, ast.JoinedStr) and unparse(tag).startswith(("f'h{", 'f"h{')))
        if okk:
            rep.ok("C05.R4", k, f"{rel}:{c.lineno}", f"tag = {unparse(tag)}")
        else:
            rep.error("C05.R4", f"{rel}:{c.lineno}: heading_open pushed with tag `{short(tag, 40) if tag is not None else '?'}`; int(token.tag[1]) assumes 'h'+digit")
    if len(sites) < 2:
        rep.error("C05.R4", f"expected the ATX and setext heading rules of markdown-it to push heading_open, found {len(sites)} site(s)")


# ---------------------------------------------------------------------------
# R5 the top-level section is recognised by its position, not by a literal heading level

TOP_LEVEL_CLASSES = ("tex2jax_ignore", "mathjax_ignore")


@rule("C05.R5")
def r5_top_level_section(corpus: Corpus, rep: Report, tier: str):
    rep.rule("C05.R5", "the section treated as top-level (MathJax ignore classes) is recognised by being attached outside any section, after it was attached - not by a literal heading level")
    base, rh, upd = _renderer_funcs(corpus)
    hc = _heading_code(corpus)
    marks = hc.find(
        lambda f, n: isinstance(n, ast.Call)
        and isinstance(n.func, ast.Attribute)
        and n.func.attr in ("extend", "append", "add", "insert")
        and any(isinstance(c, ast.Constant) and c.value in TOP_LEVEL_CLASSES for a_ in n.args for c in ast.walk(a_))
    )
    if not marks:
        rep.listed("C05.R5", f"{rh.fq}|top-level section classes", rh.site(), "the heading code adds no MathJax ignore classes: nothing to judge")
        return
    uf, ucall = hc.update_call()
    sec_arg = _update_args(ucall)[0]
    for f, call in marks:
        k = f"{f.fq}|top-level section recognised by its position in the tree"
        site = f.module.site(call)
        cfg = get_cfg(f)
        st = cfg.stmt_of(call)
        recv = call.func.value
        sec = recv.value.id if isinstance(recv, ast.Subscript) and isinstance(recv.value, ast.Name) else None
        if sec is None or not (isinstance(sec_arg, ast.Name) and sec_arg.id == sec and uf.fq == f.fq):
            raise Unsupported("the node that receives the top-level classes is not the section handed to the level-state update in the same function")
        facts_ = cfg.guards(st)
        # (a) a literal heading level in the condition
        literal = None
        for t, _pol in facts_:
            for cmp_ in [n for n in ast.walk(t) if isinstance(n, ast.Compare) and len(n.ops) == 1]:
                for side, other in ((cmp_.left, cmp_.comparators[0]), (cmp_.comparators[0], cmp_.left)):
                    if isinstance(other, ast.Constant) and isinstance(other.value, int) and not isinstance(other.value, bool):
                        try:
                            ts = hc.terms(side, f, st)
                        except Unsupported:
                            continue
                        if any(t_ in ("TAG", "OFFSET") for _s, t_ in ts):
                            literal = cmp_
        # (b) a test of the section's position: `<section>.parent`, or the node the level-state update reports it attached the section to
        returned_parent: str | None = None  # local bound to the value of the update call
        ust = cfg.stmt_of(ucall)
        if isinstance(ust, ast.Assign) and ust.value is ucall and len(ust.targets) == 1 and isinstance(ust.targets[0], ast.Name) and len(name_assignments(f, ust.targets[0].id)) == 1:
            returned_parent = ust.targets[0].id
        returns_attach_parent = None  # does the update return, on every path, the node it appended the section to?
        if returned_parent is not None:
            p_sec_u = upd.params[1] if len(upd.params) == 3 else None
            recvs = {unparse(n.func.value) for n in upd.local_nodes() if isinstance(n, ast.Call) and isinstance(n.func, ast.Attribute) and n.func.attr == "append" and n.args and isinstance(n.args[0], ast.Name) and n.args[0].id == p_sec_u}
            rets = [n for n in upd.local_nodes() if isinstance(n, ast.Return)]
            ucfg = get_cfg(upd)
            falls_off = any(isinstance(x, ast.AST) and not isinstance(x, ast.Return) for x in ucfg.pred.get(EXIT, []))
            returns_attach_parent = bool(rets) and not falls_off and len(recvs) == 1 and all(r.value is not None and unparse(r.value) in recvs for r in rets)

        def is_position(e: ast.AST) -> bool:
            if isinstance(e, ast.Attribute) and e.attr == "parent" and isinstance(e.value, ast.Name) and e.value.id == sec:
                return True
            return isinstance(e, ast.Name) and returned_parent is not None and e.id == returned_parent

        pos_test = None
        via_return = False
        for t, pol in facts_:
            if isinstance(t, ast.Call) and dotted(t.func) == "isinstance" and len(t.args) == 2 and is_position(t.args[0]):
                via_return = via_return or isinstance(t.args[0], ast.Name)
                classes = isinstance_classes(t.args[1], f) or []
                if (not pol and SECTION in classes) or (pol and classes and set(classes) <= {DOCUMENT}):
                    pos_test = t
            if isinstance(t, ast.Compare) and len(t.ops) == 1 and isinstance(t.ops[0], (ast.Is, ast.Eq)) and pol:
                sides = (t.left, t.comparators[0])
                if any(is_position(x) for x in sides) and any(is_self_attr(x, "document") for x in sides):
                    pos_test = t
                    via_return = via_return or any(isinstance(x, ast.Name) and is_position(x) for x in sides)
        if literal is not None:
            rep.violation(
                "C05.R5",
                k,
                site,
                f"the top-level section is recognised by a literal heading level (`{short(literal, 40)}`): a document whose first heading is '## A', or whose headings are shifted by an include's "
                ":heading-offset:, has a top-level section of another level and loses the MathJax ignore classes (the level is the tag digit plus the offset, not a position in the tree)",
            )
            continue
        if pos_test is None:
            raise Unsupported(f"condition of `{short(call, 50)}` tests neither a heading level nor the parent of the section: recognition of the top-level section not understood")
        if via_return:
            if returns_attach_parent:
                rep.ok("C05.R5", k, site, f"`{short(pos_test, 60)}` on the node {UPDATE} returns: on every path the node it appended the section to")
            else:
                rep.violation(
                    "C05.R5",
                    k,
                    site,
                    f"`{short(pos_test, 60)}` tests the value returned by {UPDATE}, which is not on every path the node the section was appended to (no return value / another node): "
                    "the top-level section is not recognised by its position",
                )
            continue
        # (c) the position is only known after the section was attached
        holder = pos_test
        while not isinstance(holder, ast.stmt):
            holder = parent(holder)
        if cfg.dominates(cfg.stmt_of(ucall), holder):
            rep.ok("C05.R5", k, site, f"`{short(pos_test, 60)}` evaluated after {UPDATE} attached the section")
        else:
            rep.violation(
                "C05.R5",
                k,
                site,
                f"`{short(pos_test, 60)}` is evaluated before {UPDATE} has attached the section: its parent is still None, so every section - not only the one outside any section - is treated as top-level",
            )


RULES = [r1_context_guard, r2_rubric_path_purity, r3_ordering_roles, r4_save_restore, r5_top_level_section]


# ---------------------------------------------------------------------------
# mutants of the current tree


def mutants(corpus: Corpus):
    out: list = []
    base = corpus.mod(BASE)
    mk = corpus.mod("mocking")
    rh = base.func(f"{RENDERER}.render_heading")
    upd = base.func(f"{RENDERER}.{UPDATE}")
    nrt = base.func(f"{RENDERER}.nested_render_text")
    src = base.src

    def add(mid, rule_id, mod, node, text, expect="", canary=False):
        if node is None:
            out.append((mid, "anchor construct not found on this tree"))
        else:
            out.append(Mutant(mid, rule_id, mod.rel, splice(mod.src, node, text), expect=expect, canary=canary))

    def seg(mod, node):
        return ast.get_source_segment(mod.src, node)

    # ---- R1 -------------------------------------------------------------
    inst = find_node(rh, lambda n: isinstance(n, ast.Call) and dotted(n.func) == "isinstance" and is_self_attr(n.args[0], "current_node"))
    guard_if = find_node(rh, lambda n: isinstance(n, ast.If) and inst is not None and any(x is inst for x in ast.walk(n.test)))
    if inst is not None:
        add("c05-guard-admits-block-quote", "C05.R1", base, inst.args[1], seg(base, inst.args[1]) + " | nodes.block_quote", expect="constructs nodes.section", canary=True)
        add("c05-guard-section-only", "C05.R1", base, inst.args[1], "nodes.section", expect="rubric branch")
    if guard_if is not None:
        add("c05-guard-dropped", "C05.R1", base, guard_if.test, "False", expect="constructs nodes.section")
        ret = find_node(rh, lambda n: isinstance(n, ast.Return) and parent(n) is guard_if)
        add("c05-rubric-branch-falls-through", "C05.R1", base, ret, "pass", expect=f"calls {UPDATE}")
        inner = guard_if.test.operand if isinstance(guard_if.test, ast.UnaryOp) else None
        if isinstance(inner, ast.BoolOp) and isinstance(inner.op, ast.Or) and len(inner.values) == 2:
            add("c05-guard-or-becomes-and", "C05.R1", base, inner, f"{seg(base, inner.values[0])} and {seg(base, inner.values[1])}", expect="rubric branch")
    cmp_root = find_node(rh, lambda n: isinstance(n, ast.BoolOp) and isinstance(n.op, ast.And) and any(isinstance(v, ast.Compare) and is_self_attr(v.left, "current_node") for v in n.values))
    if cmp_root is not None:
        keep = [v for v in cmp_root.values if not (isinstance(v, ast.Compare) and is_self_attr(v.left, "current_node"))]
        add("c05-temp-root-comparison-dropped", "C05.R1", base, cmp_root, " and ".join(seg(base, v) for v in keep), expect="constructs nodes.section")
    else:
        out.append(("c05-temp-root-comparison-dropped", "temp root conjunction not found"))

    # ---- R2 -------------------------------------------------------------
    ret = find_node(rh, lambda n: isinstance(n, ast.Return) and guard_if is not None and parent(n) is guard_if)
    rub_assign = find_node(rh, lambda n: isinstance(n, ast.Assign) and isinstance(n.value, ast.Call) and resolves_to(n.value, rh, RUBRIC))
    if ret is not None and rub_assign is not None:
        rv = rub_assign.targets[0].id
        ind = " " * ret.col_offset
        add("c05-rubric-path-stores-current-node", "C05.R2", base, ret, f"self.current_node = {rv}\n{ind}return", expect="stores current_node")
        add("c05-rubric-path-writes-level-map", "C05.R2", base, ret, f"self.{LEVEL_MAP}[level] = {rv}\n{ind}return", expect=f"writes {LEVEL_MAP}")
        add("c05-rubric-attached-twice", "C05.R2", base, ret, f"self.current_node.append({rv})\n{ind}return", expect="attached exactly once")
        lv = kwarg(rub_assign.value, "level")
        add("c05-rubric-level-without-offset", "C05.R2", base, lv, "int(token.tag[1])", expect="rubric level=")
    ctx = find_node(rh, lambda n: isinstance(n, ast.Call) and isinstance(n.func, ast.Attribute) and n.func.attr == "current_node_context" and kwarg(n, "append") is not None)
    if ctx is not None:
        add("c05-rubric-not-appended", "C05.R2", base, ctx, f"{seg(base, ctx.func)}({seg(base, ctx.args[0])})", expect="attached exactly once", canary=True)
    cnc = base.func(f"{RENDERER}.current_node_context")
    restore = next((s for s in _post_yield_stmts(cnc) if isinstance(s, ast.Assign) and is_self_attr(s.targets[0], "current_node")), None)
    add("c05-current-node-context-no-restore", "C05.R2", base, restore, "pass", expect="current_node_context")

    # ---- R3 -------------------------------------------------------------
    sel = find_node(upd, lambda n: isinstance(n, ast.Call) and dotted(n.func) == "max")
    if sel is not None:
        flt = sel.args[0].generators[0].ifs[0]
        l, r = seg(base, flt.left), seg(base, flt.comparators[0])
        nonstrict = {ast.Gt: ">=", ast.Lt: "<="}.get(type(flt.ops[0]))
        if nonstrict:
            add("c05-parent-not-strictly-lower", "C05.R3", base, flt, f"{l} {nonstrict} {r}", expect="parent level selection", canary=True)
        add("c05-parent-min-instead-of-max", "C05.R3", base, sel.func, "min", expect="parent level selection")
    prune = find_node(upd, lambda n: isinstance(n, ast.Assign) and is_self_attr(n.targets[0], LEVEL_MAP) and isinstance(n.value, ast.DictComp))
    if prune is not None:
        pf = prune.value.generators[0].ifs[0]
        l, r = seg(base, pf.left), seg(base, pf.comparators[0])
        strict = {ast.LtE: "<", ast.GtE: ">"}.get(type(pf.ops[0]))
        if strict:
            add("c05-prune-drops-own-level", "C05.R3", base, pf, f"{l} {strict} {r}", expect="level map after the update")
        add("c05-prune-removed", "C05.R3", base, prune, "pass", expect="level map after the update")
    if prune is not None:
        # class: pruning by enumerating a key range instead of filtering on the ordering
        ind = " " * prune.col_offset
        lv_ = upd.params[2]
        for mid, lo, hi in (
            ("c05-prune-range-stops-at-h6", f"{lv_} + 1", "7"),
            ("c05-prune-range-excludes-deepest", f"{lv_} + 1", f"max(self.{LEVEL_MAP})"),
            ("c05-prune-range-includes-own-level", lv_, f"max(self.{LEVEL_MAP}) + 1"),
        ):
            add(mid, "C05.R3", base, prune, f"for open_level in range({lo}, {hi}):\n{ind}    self.{LEVEL_MAP}.pop(open_level, None)", expect="level map after the update")
    if prune is not None:
        # class: pruning walks up from the new level and stops at the first level that is not open
        ind = " " * prune.col_offset
        lv_ = upd.params[2]
        for mid, start in (("c05-prune-stops-at-first-gap", f"{lv_} + 1"), ("c05-prune-walk-starts-at-own-level", lv_)):
            add(mid, "C05.R3", base, prune,
                f"deeper = {start}\n{ind}while deeper in self.{LEVEL_MAP}:\n{ind}    del self.{LEVEL_MAP}[deeper]\n{ind}    deeper += 1", expect="level map after the update")
    store = find_node(upd, lambda n: isinstance(n, ast.Assign) and isinstance(n.targets[0], ast.Subscript) and is_self_attr(n.targets[0].value, LEVEL_MAP))
    add("c05-own-level-not-recorded", "C05.R3", base, store, "pass", expect="level map after the update")
    att = find_node(upd, lambda n: isinstance(n, ast.Call) and isinstance(n.func, ast.Attribute) and n.func.attr == "append" and n.args and isinstance(n.args[0], ast.Name) and n.args[0].id == upd.params[1])
    if att is not None:
        add("c05-section-appended-to-current-node", "C05.R3", base, att.func.value, "self.current_node", expect="attached once to the selected parent")
    wif = find_node(upd, lambda n: isinstance(n, ast.If) and any(isinstance(x, ast.Attribute) and x.attr == "MD_HEADING_NON_CONSECUTIVE" for x in ast.walk(n)))
    if wif is not None:
        neq = find_node(upd, lambda n: isinstance(n, ast.Compare) and isinstance(n.ops[0], ast.NotEq) and any(x is n for x in ast.walk(wif.test)))
        add("c05-warning-only-for-skip-of-three", "C05.R3", base, neq, f"{upd.params[2]} - parent_level > 2", expect="warning iff")
        last = wif.body[-1]
        ind = " " * last.col_offset
        add("c05-skipped-heading-makes-no-section", "C05.R3", base, last, seg(base, last) + f"\n{ind}return", expect="attached once to the selected parent")
        add("c05-warning-twice", "C05.R3", base, last, seg(base, last) + f"\n{ind}" + seg(base, last), expect="at most once")
    if wif is not None:
        # class: the warning is gated by state that changes during the render (memo of reported skips, md_env flag, current node)
        first = wif.body[0]
        ind = " " * first.col_offset
        t = seg(base, wif.test)
        lv_ = upd.params[2]
        out.append(Mutant("c05-warning-memoised-per-level", "C05.R3", base.rel,
                          splice(splice(base.src, first, f"self._heading_slugs[str({lv_})] = (None, '', '')\n{ind}" + seg(base, first)), wif.test, f"({t}) and str({lv_}) not in self._heading_slugs"),
                          expect="warning iff"))
        out.append(Mutant("c05-warning-once-per-document", "C05.R3", base.rel,
                          splice(splice(base.src, first, f"self.md_env['myst_heading_skip_warned'] = True\n{ind}" + seg(base, first)), wif.test, f"({t}) and not self.md_env.get('myst_heading_skip_warned')"),
                          expect="warning iff"))
        add("c05-warning-only-under-a-section", "C05.R3", base, wif.test, f"({t}) and isinstance(self.current_node, nodes.section)", expect="warning iff")
    sr = base.func(f"{RENDERER}.setup_render")
    init = find_node(sr, lambda n: isinstance(n, ast.Dict) and isinstance(parent(n), (ast.Assign, ast.AnnAssign)) and any(is_self_attr(t, LEVEL_MAP) for t in store_targets(parent(n))))
    if init is not None:
        add("c05-map-rooted-at-level-one", "C05.R3", base, init.keys[0], "1", expect="level map starts")

    # ---- R4 -------------------------------------------------------------
    _cms = _restoring_cms(corpus, base, nrt)[1]
    cm = _cms[0][0] if len(_cms) == 1 else None
    if cm is None:
        out.append(("c05-restore-mutants", "restoring context manager of nested_render_text not found"))
    else:
        post_set = set(_post_yield_stmts(cm))
        for s in walk_sorted(cm):
            post = s in post_set
            if post and isinstance(s, ast.Assign) and _cell_of(s.targets[0]):
                cell = _cell_of(s.targets[0])
                add(f"c05-{cell}-not-restored", "C05.R4", base, s, "pass", expect=CELL_TXT[cell], canary=(cell == "offset"))
            elif not post and isinstance(s, ast.Assign) and isinstance(s.targets[0], ast.Name) and _save_kind(s.value) == ("map", "copy"):
                add("c05-map-saved-by-reference", "C05.R4", base, s.value, f"self.{LEVEL_MAP}", expect="saved by reference")
    # the same obligation when the context manager is a renderer method with its own parameter names (re-modelled clause):
    # a copy of the context manager as method `_nested_state(self, ho, root)` whose offset restore is dropped, used by the `with`
    if cm is not None and cm.parent_func is not None and len(_cms) == 1:
        import re as _re
        import textwrap as _tw

        off_r = next((x for x in _post_yield_stmts(cm) if isinstance(x, ast.Assign) and is_self_attr(x.targets[0], OFFSET)), None)
        anchor = base.func(f"{RENDERER}.render_children")
        if off_r is not None and not anchor.node.decorator_list and "heading_offset" in nrt.params and "temp_root_node" in nrt.params:
            body_src = _tw.dedent(" " * cm.node.col_offset + seg(base, cm.node))
            body_src = body_src.replace(seg(base, off_r), "pass", 1)
            body_src = _re.sub(r"def \w+\(\)", "def _nested_state(self, ho, root)", body_src, count=1)
            body_src = _re.sub(r"(?<![\"'])\bheading_offset\b(?![\"'])", "ho", body_src)
            body_src = _re.sub(r"(?<![\"'])\btemp_root_node\b(?![\"'])", "root", body_src)
            ind_m = " " * anchor.node.col_offset
            method = "@contextmanager\n" + _tw.indent(body_src.rstrip(), ind_m) + "\n\n" + ind_m
            src2 = splice(base.src, anchor.node, method + seg(base, anchor.node))
            src2 = splice(src2, _cms[0][1], "self._nested_state(heading_offset, temp_root_node)")
            out.append(Mutant("c05-method-cm-offset-not-restored", "C05.R4", base.rel, src2, expect=CELL_TXT["offset"]))
        else:
            out.append(("c05-method-cm-offset-not-restored", "context manager / anchor method layout not as expected"))
    w = find_node(nrt, lambda n: isinstance(n, ast.With) and method_calls(list(ast.walk(n)), "_render_tokens"))
    if w is not None:
        add("c05-render-outside-restore", "C05.R4", base, w, seg(base, w.body[0]), expect="_render_tokens runs inside")
    np_ = mk.func("MockState.nested_parse")
    ife = find_node(np_, lambda n: isinstance(n, ast.IfExp) and isinstance(parent(n), ast.keyword) and parent(n).arg == "temp_root_node")
    if ife is not None:
        add("c05-temp-root-always", "C05.R4", mk, ife, seg(mk, ife.body), expect="temp_root_node only for match_titles")
    inc = mk.func("MockIncludeDirective.run")
    call = find_node(inc, lambda n: isinstance(n, ast.Call) and isinstance(n.func, ast.Attribute) and n.func.attr == "nested_render_text")
    if call is not None and kwarg(call, "heading_offset") is not None:
        add("c05-include-ignores-heading-offset", "C05.R4", mk, kwarg(call, "heading_offset"), "0", expect="heading-offset option")
    # class: nested-render state changed outside the save/restore pairing
    tr = find_node(inc, lambda n: isinstance(n, ast.Try) and n.finalbody and method_calls(list(ast.walk(n)), "nested_render_text"))
    if tr is not None:
        f0 = tr.finalbody[0]
        ind = " " * f0.col_offset
        add("c05-include-resets-offset-in-finally", "C05.R4", mk, f0, seg(mk, f0) + f"\n{ind}self.renderer.{OFFSET} = 0", expect="outside the save/restore pairing")
    else:
        out.append(("c05-include-resets-offset-in-finally", "include mock has no try/finally around the nested render"))
    last = np_.node.body[-1]
    ind = " " * last.col_offset
    add("c05-nested-parse-clears-temp-root", "C05.R4", mk, last, seg(mk, last) + f"\n{ind}self._renderer.md_env['{TEMP_ROOT_KEY}'] = None", expect="outside the save/restore pairing")
    add("c05-nested-parse-resets-level-map", "C05.R3", mk, last, seg(mk, last) + f"\n{ind}self._renderer.{LEVEL_MAP} = {{0: self.document}}", expect="outside the save/restore pairing")
    # class: a temp root passed without a directive's match_titles request
    def add_kw(mid, mod, fi_, kwtext, expect):
        c_ = find_node(fi_, lambda n: isinstance(n, ast.Call) and isinstance(n.func, ast.Attribute) and n.func.attr == "nested_render_text" and kwarg(n, "temp_root_node") is None and len(n.args) <= 2 and kwarg(n, "inline") is None)
        if c_ is None:
            out.append((mid, "no plain nested_render_text call in " + fi_.qualname))
            return
        text = seg(mod, c_).rstrip()
        assert text.endswith(")")
        inner = text[:-1].rstrip()
        sep = "" if inner.endswith(",") else ","
        add(mid, "C05.R4", mod, c_, f"{inner}{sep} {kwtext})", expect=expect)

    add_kw("c05-front-matter-title-under-temp-root", base, base.func(f"{RENDERER}.render_front_matter"), "temp_root_node=self.document", "temp_root_node only for match_titles")
    add_kw("c05-div-allows-sections", base, base.func(f"{RENDERER}.render_colon_fence"), "temp_root_node=container", "temp_root_node only for match_titles")
    add_kw("c05-include-under-temp-root", mk, inc, "temp_root_node=self.renderer.current_node", "temp_root_node only for match_titles")
    # class: the heading level is replaced inside the level-state update before it is used
    for mid, anchor in (("c05-level-rebound-before-store", store), ("c05-level-rebound-before-prune", prune)):
        if anchor is not None:
            ind = " " * anchor.col_offset
            add(mid, "C05.R3", base, anchor, f"{upd.params[2]} = parent_level + 1\n{ind}" + seg(base, anchor), expect="heading level replaced before use")
    # class: the offset reaches only one of the two paths
    sec_ctor = find_node(rh, lambda n: isinstance(n, ast.Assign) and isinstance(n.value, ast.Call) and resolves_to(n.value, rh, SECTION))
    lvl_def = find_node(rh, lambda n: isinstance(n, ast.Assign) and isinstance(n.value, ast.BinOp) and is_self_attr(n.value.right, OFFSET) and _is_tag_digit(n.value.left))
    if sec_ctor is not None and lvl_def is not None:
        ind = " " * sec_ctor.col_offset
        nm = lvl_def.targets[0].id
        out.append(Mutant("c05-offset-added-after-rubric-branch", "C05.R2", base.rel,
                          splice(splice(base.src, sec_ctor, f"{nm} += self.{OFFSET}\n{ind}" + seg(base, sec_ctor)), lvl_def.value, seg(base, lvl_def.value.left)),
                          expect="rubric level="))
    else:
        out.append(("c05-offset-added-after-rubric-branch", "level definition / section construction not found in render_heading"))
    # class: state restored under a stricter condition than it is changed
    if cm is not None:
        post_stmts = _post_yield_stmts(cm)
        off_restore = next((x for x in post_stmts if isinstance(x, ast.Assign) and is_self_attr(x.targets[0], OFFSET)), None)
        root_if = next((x for x in post_stmts if isinstance(x, ast.If) and "temp_root_node" in unparse(x.test)), None)
        if off_restore is not None and root_if is not None and root_if.lineno > off_restore.lineno:
            ind2 = " " * root_if.body[0].col_offset
            moved = splice(base.src, root_if.body[0], seg(base, off_restore) + f"\n{ind2}" + seg(base, root_if.body[0]))
            out.append(Mutant("c05-offset-restored-only-with-temp-root", "C05.R4", base.rel, splice(moved, off_restore, "pass"), expect="only restored when"))
        else:
            out.append(("c05-offset-restored-only-with-temp-root", "post-yield layout of the context manager not as expected"))
        if off_restore is not None:
            ind1 = " " * off_restore.col_offset
            add("c05-offset-restored-only-for-inline-renders", "C05.R4", base, off_restore, f"if inline:\n{ind1}    " + seg(base, off_restore), expect="only restored when")
    # class: heading level read from a token field that does not encode the level for every heading producer
    tagd = find_node(rh, _is_tag_digit)
    add("c05-level-from-markup-length", "C05.R4", base, tagd, "len(token.markup)", expect="derived from the token's markup")
    add("c05-level-from-markup-count", "C05.R4", base, tagd, 'token.markup.count("#")', expect="derived from the token's markup")
    # class: parent selection with a shortcut and a fallback that is not 'max over the open levels strictly below'
    sel_stmt = find_node(upd, lambda n: isinstance(n, ast.Assign) and isinstance(n.value, ast.Call) and dotted(n.value.func) == "max")
    if sel_stmt is not None:
        pn, lv_, ind = sel_stmt.targets[0].id, upd.params[2], " " * sel_stmt.col_offset
        for mid, cond in (("c05-parent-fallback-any-other-open-level", f"k != {lv_}"), ("c05-parent-fallback-includes-own-level", f"k <= {lv_}")):
            add(mid, "C05.R3", base, sel_stmt,
                f"{pn} = {lv_} - 1\n{ind}if {pn} not in self.{LEVEL_MAP}:\n{ind}    {pn} = max(k for k in self.{LEVEL_MAP} if {cond})", expect="parent level selection")
    # ---- R5: top-level section recognised by position (repair 2e8a339) -----------------------------------
    mj_call = find_node(rh, lambda n: isinstance(n, ast.Call) and isinstance(n.func, ast.Attribute) and n.func.attr == "extend" and any(isinstance(c, ast.Constant) and c.value in TOP_LEVEL_CLASSES for c in ast.walk(n)))
    mj_if = None
    if mj_call is not None:
        x = parent(mj_call)
        while x is not None and not isinstance(x, ast.If):
            x = parent(x)
        mj_if = x
    upd_stmt = find_node(rh, lambda n: isinstance(n, ast.Expr) and isinstance(n.value, ast.Call) and isinstance(n.value.func, ast.Attribute) and n.value.func.attr == UPDATE)
    lvl_arg = _update_args(upd_stmt.value)[1] if upd_stmt is not None else None
    if mj_if is not None and upd_stmt is not None and upd_stmt.lineno < mj_if.lineno and isinstance(lvl_arg, ast.Name):
        ind = " " * mj_if.col_offset
        body_txt = seg(base, mj_if.body[0])
        test_txt = seg(base, mj_if.test)
        moved_after = lambda test: splice(splice(base.src, mj_if, f"if {test}:\n{ind}    {body_txt}\n{ind}{seg(base, upd_stmt)}"), upd_stmt, "pass")  # noqa: E731
        out.append(Mutant("c05-revert-2e8a339-top-level-by-literal-level", "C05.R5", base.rel, moved_after(f"{lvl_arg.id} == 1 and self.blocks_mathjax_processing"), expect="top-level section recognised"))
        out.append(Mutant("c05-top-level-test-before-attach", "C05.R5", base.rel, moved_after(test_txt), expect="top-level section recognised"))
        add("c05-top-level-also-needs-low-level", "C05.R5", base, mj_if.test, f"({test_txt}) and {lvl_arg.id} <= 2", expect="top-level section recognised")
    else:
        out.append(("c05-top-level-mutants", "MathJax class statement / level-state update not found in the expected order"))
    # the position test on the node returned by the level-state update (re-modelled clause): returning something else / nothing
    pos_call = find_node(rh, lambda n: isinstance(n, ast.Call) and dotted(n.func) == "isinstance" and isinstance(n.args[0], ast.Attribute) and n.args[0].attr == "parent") if mj_if is not None else None
    attach_ = find_node(upd, lambda n: isinstance(n, ast.Call) and isinstance(n.func, ast.Attribute) and n.func.attr == "append" and n.args and isinstance(n.args[0], ast.Name) and n.args[0].id == upd.params[1])
    if pos_call is not None and upd_stmt is not None and attach_ is not None and not any(isinstance(n, ast.Return) for n in upd.local_nodes()) and upd.node.lineno < rh.node.lineno:
        last = upd.node.body[-1]
        ind_u = " " * last.col_offset
        for mid, ret in (("c05-top-level-test-on-returned-section", upd.params[1]), ("c05-top-level-test-on-missing-return", None)):
            src_ = splice(base.src, pos_call.args[0], "attached_to")
            src_ = splice(src_, upd_stmt, "attached_to = " + seg(base, upd_stmt))
            if ret is not None:
                src_ = splice(src_, last, seg(base, last) + f"\n{ind_u}return {ret}")
            out.append(Mutant(mid, "C05.R5", base.rel, src_, expect="top-level section recognised"))
    else:
        out.append(("c05-top-level-test-on-returned-value", "layout of render_heading / update_section_level_state not as expected"))
    # ---- R1: a second transfer of rST-parsed children into a container (class of the known finding) --------
    cf = base.func(f"{RENDERER}.render_colon_fence")
    ncall = find_node(cf, lambda n: isinstance(n, ast.Expr) and isinstance(n.value, ast.Call) and isinstance(n.value.func, ast.Attribute) and n.value.func.attr == "nested_render_text")
    if ncall is not None:
        ind = " " * ncall.col_offset
        add("c05-div-body-parsed-as-rst-into-container", "C05.R1", base, ncall,
            f"scratch = make_document()\n{ind}MockRSTParser().parse(token.content, scratch)\n{ind}self.current_node.extend(scratch.children)", expect="render_colon_fence")
    # ---- reverts of the repairs landed in /repo --------------------------------------------------------
    # fce582c (a): a nested render without an offset argument reset the offset to the default 0
    if cm is not None:
        guard_if = find_node(cm, lambda n: isinstance(n, ast.If) and len(n.body) == 1 and isinstance(n.body[0], ast.Assign) and is_self_attr(n.body[0].targets[0], OFFSET))
        dflt = _param_defaults(nrt).get("heading_offset")
        if guard_if is not None and dflt is not None:
            out.append(Mutant("c05-revert-fce582c-offset-reset-by-default", "C05.R4", base.rel,
                              splice(splice(base.src, guard_if, seg(base, guard_if.body[0])), dflt, "0"), expect="keeps the enclosing one", canary=False))
        else:
            out.append(("c05-revert-fce582c-offset-reset-by-default", "guarded offset write / parameter default not found"))
        # 4629fdf: the level map is not re-rooted at the temp root
        reroot = find_node(cm, lambda n: isinstance(n, ast.Assign) and is_self_attr(n.targets[0], LEVEL_MAP) and isinstance(n.value, ast.DictComp))
        add("c05-revert-4629fdf-map-not-rerooted", "C05.R4", base, reroot, "pass", expect="re-rooted at the temp root")
    # class: the level map is only partly re-rooted at the temp root
    if cm is not None:
        rr = find_node(cm, lambda n: isinstance(n, ast.Assign) and is_self_attr(n.targets[0], LEVEL_MAP) and isinstance(n.value, ast.DictComp))
        if rr is not None and isinstance(rr.value.generators[0].target, ast.Name):
            kv_ = rr.value.generators[0].target.id
            rootv = seg(base, rr.value.value)
            add("c05-reroot-only-open-sections", "C05.R4", base, rr.value,
                f"{{{kv_}: {rootv} if isinstance(node, nodes.section) else node for {kv_}, node in self.{LEVEL_MAP}.items()}}", expect="only partly re-rooted")
            add("c05-reroot-keeps-level-zero-at-document", "C05.R4", base, rr.value,
                f"{{{kv_}: {rootv} if {kv_} else node for {kv_}, node in self.{LEVEL_MAP}.items()}}", expect="only partly re-rooted")
            add("c05-reroot-drops-level-zero", "C05.R4", base, rr.value,
                f"{{{kv_}: {rootv} for {kv_} in self.{LEVEL_MAP} if {kv_} > 0}}", expect="only partly re-rooted")
        else:
            out.append(("c05-reroot-partial", "re-rooting comprehension not found"))
    # class: the include's offset argument composes only in one of the two cases (option given / option absent)
    if call is not None and kwarg(call, "heading_offset") is not None:
        hov = kwarg(call, "heading_offset")
        cellx = next((n for n in ast.walk(hov) if is_attr(n, OFFSET)), None)
        if cellx is not None:
            cx = seg(mk, cellx)
            add("c05-include-option-replaces-enclosing-offset", "C05.R4", mk, hov, f'self.options.get("heading-offset", {cx})', expect="heading-offset option")
            add("c05-include-option-or-enclosing-offset", "C05.R4", mk, hov, f'self.options["heading-offset"] if "heading-offset" in self.options else {cx}', expect="heading-offset option")
            add("c05-include-without-option-resets-offset", "C05.R4", mk, hov, f'{cx} + self.options["heading-offset"] if "heading-offset" in self.options else 0', expect="heading-offset option")
    # fce582c (b): a nested include replaced the enclosing offset
    if call is not None and kwarg(call, "heading_offset") is not None:
        opt = next((n for n in ast.walk(kwarg(call, "heading_offset")) if _is_offset_option(n)), None)
        if opt is not None and opt is not kwarg(call, "heading_offset"):
            add("c05-revert-fce582c-include-replaces-offset", "C05.R4", mk, kwarg(call, "heading_offset"), seg(mk, opt), expect="heading-offset option")
        else:
            out.append(("c05-revert-fce582c-include-replaces-offset", "include does not add the option to the current offset"))
    # 2e8531b: the skip warning compared with the parent level instead of the deepest open level
    if wif is not None:
        cmp_m = find_node(upd, lambda n: isinstance(n, ast.Compare) and any(x is n for x in ast.walk(wif.test)) and isinstance(n.comparators[0], ast.Call) and dotted(n.comparators[0].func) == "max")
        add("c05-revert-2e8531b-warning-against-parent-level", "C05.R3", base, cmp_m.comparators[0] if cmp_m is not None else None, "parent_level", expect="non-consecutive warning iff")
    lvl = find_node(rh, lambda n: isinstance(n, ast.BinOp) and isinstance(n.op, ast.Add) and (is_self_attr(n.right, OFFSET) or is_self_attr(n.left, OFFSET)))
    if lvl is not None:
        add("c05-offset-subtracted", "C05.R4", base, lvl, f"{seg(base, lvl.left)} - {seg(base, lvl.right)}", expect="level = tag digit")
    return out


def walk_sorted(fi: FunctionInfo) -> list[ast.stmt]:
    st = [n for n in walk_local(fi.node) if isinstance(n, ast.stmt)]
    st.sort(key=lambda s: (s.lineno, s.col_offset))
    return st
