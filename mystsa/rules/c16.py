"""C16 - HTML-to-AST parser: total, tree-consistent, exact round trip on well-formed HTML."""

from __future__ import annotations

import ast

try:  # regex *trees* only (never compiled, never matched)
    import re._constants as sre_c
    import re._parser as sre_parse
except ImportError:  # pragma: no cover
    import sre_constants as sre_c
    import sre_parse

from ..callgraph import get_callgraph
from ..corpus import (
    AnchorMissing,
    ClassInfo,
    Corpus,
    FunctionInfo,
    Unsupported,
    dotted,
    enclosing_function,
    enclosing_stmt,
    parent,
    short,
    splice,
    unparse,
    walk_local,
)
from ..flow import get_cfg
from ..mutant import Mutant
from ..report import Report
from .common import escape_closure, find_node, rule

PROP = "C16"
READY = False
TECHNIQUE = (
    "owner-write, fresh-insertion, copy-before-mutate and stack-discipline rules over AST + CFG; callback -> node-class "
    "tracing; render-template extraction compared with the delimiters the stdlib html.parser strips (sibling source "
    "parsed, regexes read as re._parser trees); exception-escape closure for totality"
)

META = {
    "explanation": (
        "Decided structurally on myst_parser/parsers/parse_html.py (sources parsed, never run). "
        "(R1) Every store to / mutation of _parent and _children in the package lies inside the Element class hierarchy, and every "
        "addition of an item to a children list lies on CFG paths that, since the item was bound, have stored item._parent = self "
        "(or proved it equal, or passed the item through a one-level helper that does so). "
        "(R2) Every element inserted by the Tree methods and by deepcopy is constructed in the same function (or by every caller of "
        "a one-level helper) and inserted once; every deepcopy returns a freshly constructed object. "
        "(R3) Every handle_* callback of the stdlib HTMLParser and unknown_decl is overridden; the Tree calls of a callback are "
        "followed through one private helper of the parser; every event produces its node (no path skips the construction under a "
        "condition a well-formed event can satisfy); callback arguments reach the constructor and the stored field unchanged; the "
        "render template of the node class (f-strings, +, locals bound once, hoisted constants, options - kwargs.get(..) or named parameters with a constant default - decided for a plain "
        "render() call) re-emits exactly the delimiters the stdlib strips for that event - each table row is re-verified against "
        "the installed html/parser.py and _markupbase.py. Start tags: Tag / VoidTag / XTag begin with a helper that returns a stored "
        "field verbatim when it is not None, and the callbacks feed that field from self.get_starttag_text() - the start tag is a "
        "copy of the source (quoting, references, white space, value-less and repeated attributes included); only when that path "
        "is missing are the rebuilt template and Attribute.__str__ judged (name=\"value\" form, value None written bare, values "
        "re-escaped with exactly & and \"). References: because html.parser reports &name / &#N whatever character ends them, the "
        "node class that appends ';' may only be built behind a test of self.rawdata.startswith(';', start + len(prefix) + "
        "len(name)) (start = the attribute an updatepos override sets), the other outcome stores prefix + name verbatim. Marked "
        "sections: unknown_decl must write back '<![' and the terminator html.parser stripped (']]>' for its keyword set, ']>' "
        "otherwise; both read from _markupbase.parse_marked_section), selected by the lower-cased text before the *first* '[' of the reported text. Source-text fields: a render of the form `self.F or <rebuilt form>` is judged on the rebuilt form, and every writer of F in the module must store None, a slice of self.rawdata, get_starttag_text() or a copy of F. End tags: because html.parser lower-cases the end-tag name, the container's render must take the end tag from such a field, which the closing function stores from rawdata[start-of-construct : first '>' + 1] passed by handle_endtag. Post-hoc writes: an override of a stdlib parse_* method that writes onto the last child of the open element after the inherited call must test the report flag and exclude the failure value the inherited method returns before reporting (both read from the sibling source). Trailing '&': when feed() ends with close() and the installed goahead(end=True) steps over an '&' + one letter without a handler, a guard dominating close() must be true exactly for those rests (checked on sample strings against html.parser's `incomplete` class, false in raw-text mode), report them through handle_data and take them out of the buffer. Inherited lexical rules: comment / CDATA terminators that admit white space and the raw-text element table without textarea/title are reported (three known findings). convert_charrefs is False on the whole path; the void "
        "table contains the 13 WHATWG void elements plus 'param'. "
        "(R4) With inplace false no mutating, iterating or returning use in strip() can see the element itself; deepcopy does not "
        "write self; the constructor copies the attribute mapping, and a copy started with copy.copy(self) replaces every mutable field (attrs, _children) on the copy. "
        "(R5) Writers of the open-element stack have a role derived from the callback map; the opening function, run symbolically "
        "with Tree helpers inlined, ends as [.., top] -> [.., top, new] with new appended to top; childless-node functions leave "
        "the stack unchanged; the closing function is run as a decision table over abstract stacks [Root, e1..] of depth 1-4 x every "
        "name-match pattern *including a root that carries the closing tag's name*: it must pop exactly down to the innermost "
        "matching open element, nothing otherwise, and never the root (the root's name attribute is modelled, so a guard `name == self.name` is seen to hide open elements of that name); a per-name counter consulted by the closing function must be "
        "+1 at the push and -1 for every popped element. "
        "(R6) No exception escapes tokenize_html, any overridden callback or Element.insert/__setitem__ (escape analysis; the "
        "HTMLParser.feed entry is discharged by the parse_marked_section override catching AssertionError; a call of a list method on the children list that shares its name with the element method is not a recursion). "
        "(R7) __iter__ yields the children list in order; walk() is run on sample trees (recursive or explicit-stack spellings alike) and must yield the pre-order of the descendants, each once, self first when requested; Attribute.classes splits the class attribute at any white space; find() enumerates candidates in that order and its "
        "candidate test - helper methods and lambdas inlined - agrees on a decision table (identifier is class/name, matches or "
        "not, node class Tag/VoidTag/XTag, two abstract requested classes as token / substring-only / absent, 0-2 requested "
        "attributes each present-and-equal / present-but-different / absent-while-''-requested / absent) with: name and (classes "
        "is None or token-subset) and every requested attribute present and equal, yielded exactly once. "
        "(R8) Every feed() of an HtmlToAst in the package goes to a parser constructed for that call unless feed() resets the "
        "inherited HTMLParser buffer first. "
        "(R9) The parser nests elements without a depth bound, so a traversal visible from the container element must not call "
        "itself once per nesting level: walk, deepcopy, strip and Tag.render do (four known findings, RecursionError from a few "
        "hundred levels). "
        "(R10) The handler of the parse_marked_section override that covers the AssertionError of the inherited call has no raise on any path an "
        "AssertionError can take (bare raise / re-raise of the bound name, conditional or not, is a violation; a raise under `not isinstance(exc, AssertionError..)` is exempt; "
        "any other raise, or an outer handler in feed/tokenize_html, is an analysis error): _markupbase raises several distinct AssertionErrors there "
        "(unknown status keyword; _scan_name's expected name token) - the list is re-read from the installed source."
    ),
    "not_decided": (
        "exact round trip as a value for every well-formed document (only the structural necessary conditions above); "
        "what get_starttag_text() returns (trusted: the source slice of the start tag); end tags are rebuilt from the lower-cased "
        "name, so `</DIV>` / `</div >` come back as `</div>` (outside the well-formed grammar); bogus comments and other "
        "non-canonical emissions of the tokenizer (listed in the evidence); input that ends inside an unterminated construct "
        "(flushed as data by close() in feed(); C17's subject); legacy void elements other than 'param'; the exact recursion "
        "limit (R9 reports the recursive traversals, not the depth at which they fail)"
    ),
    "trusted_base": [
        "CPython ast and re._parser",
        "stdlib html/parser.py and _markupbase.py as installed (parsed, not imported); HTMLParser.get_starttag_text()",
        "collections.abc.MutableSequence mix-ins (append/extend/+= go through insert)",
        "the engine's escape analysis incl. its discharge of HTMLParser.feed via the parse_marked_section override",
        "the tables in the module: delimiters per event, which payloads can be empty/blank per event, WHATWG void elements + 'param', characters an attribute escaper may rewrite",
    ],
    "assumptions": [
        "HTMLParser never reports an empty end-tag name",
        "decision tables are exhaustive for the modelled outcomes: stacks up to depth 4, two requested classes, up to two requested attributes (the code is uniform in these sizes)",
    ],
}


# ---------------------------------------------------------------------------
# shared context


class Ctx:
    def __init__(self, corpus: Corpus):
        self.c = corpus
        self.g = get_callgraph(corpus)
        self.m = corpus.mod("parsers.parse_html")
        self.element = self.m.cls("Element")
        self.hier = [self.element] + corpus.subclasses(self.element)
        self.hier_fq = {ci.fq for ci in self.hier}
        self.tree = self.m.cls("Tree")
        self.parser = self.m.cls("HtmlToAst")
        self.attribute = self.m.cls("Attribute")
        self.stack_attr = self._stack_attr()
        self.counters = self._counter_attrs()

    def _stack_attr(self) -> str:
        init = self.tree.methods.get("__init__")
        if init is None:
            raise AnchorMissing("Tree.__init__ not found")
        for n in walk_local(init.node):
            tgt = val = None
            if isinstance(n, ast.Assign) and len(n.targets) == 1:
                tgt, val = n.targets[0], n.value
            elif isinstance(n, ast.AnnAssign):
                tgt, val = n.target, n.value
            if _is_self_attr(tgt) and isinstance(val, (ast.Call, ast.List)):
                d = dotted(val.func) if isinstance(val, ast.Call) else "list"
                if d and d.rsplit(".", 1)[-1] in ("deque", "list"):
                    return tgt.attr
        raise AnchorMissing("Tree.__init__ no longer creates the open-element stack (deque/list attribute)")

    def _counter_attrs(self) -> set[str]:
        """Tree attributes created in __init__ as an empty mapping (per-name bookkeeping next to the stack)."""
        out = set()
        init = self.tree.methods["__init__"]
        for n in walk_local(init.node):
            tgt = val = None
            if isinstance(n, ast.Assign) and len(n.targets) == 1:
                tgt, val = n.targets[0], n.value
            elif isinstance(n, ast.AnnAssign):
                tgt, val = n.target, n.value
            if not _is_self_attr(tgt) or val is None or tgt.attr == self.stack_attr:
                continue
            if isinstance(val, ast.Dict) and not val.keys:
                out.add(tgt.attr)
            elif isinstance(val, ast.Call) and (dotted(val.func) or "").rsplit(".", 1)[-1] in ("dict", "defaultdict", "Counter") and len(val.args) <= 1 and all(unparse(a) == "int" for a in val.args):
                out.add(tgt.attr)
        return out

    def counter_of(self, e: ast.AST) -> str | None:
        """``self.<counter>`` -> attribute name."""
        if isinstance(e, ast.Attribute) and e.attr in self.counters and isinstance(e.value, ast.Name) and e.value.id == "self":
            return e.attr
        return None

    def owner_class(self, fi: FunctionInfo | None) -> ClassInfo | None:
        while fi is not None:
            if fi.cls is not None:
                return fi.cls
            fi = fi.parent_func
        return None

    def in_hier(self, ci: ClassInfo | None) -> bool:
        return ci is not None and ci.fq in self.hier_fq

    def hier_class_named(self, expr: ast.expr, fi: FunctionInfo) -> ClassInfo | None:
        d = dotted(expr)
        if not d:
            return None
        ci = self.c.find_class(fi.module.resolve(d))
        return ci if self.in_hier(ci) else None

    def is_stack(self, e: ast.AST) -> bool:
        return isinstance(e, ast.Attribute) and e.attr == self.stack_attr and isinstance(e.value, ast.Name) and e.value.id == "self"


def _ctx(corpus: Corpus) -> Ctx:
    return corpus.cache("c16-ctx", lambda: Ctx(corpus))


def _is_self_attr(n, attr: str | None = None) -> bool:
    return isinstance(n, ast.Attribute) and isinstance(n.value, ast.Name) and n.value.id == "self" and (attr is None or n.attr == attr)


def _is_name(n, name: str | None = None) -> bool:
    return isinstance(n, ast.Name) and (name is None or n.id == name)


def _outer_method(fi: FunctionInfo) -> FunctionInfo:
    while fi.parent_func is not None:
        fi = fi.parent_func
    return fi


def _bindings(fi: FunctionInfo, name: str) -> list:
    """CFG nodes at which the local ``name`` is (re)bound: 'ENTRY' for a parameter, else statements."""
    out: list = []
    if name in fi.params:
        out.append("ENTRY")
    for n in walk_local(fi.node, into_lambdas=False, into_comprehensions=True):
        tgts: list = []
        if isinstance(n, ast.Assign):
            tgts = n.targets
        elif isinstance(n, (ast.AnnAssign, ast.AugAssign)):
            tgts = [n.target]
        elif isinstance(n, ast.For):
            tgts = [n.target]
        elif isinstance(n, ast.withitem) and n.optional_vars is not None:
            tgts = [n.optional_vars]
            n = parent(n)
        elif isinstance(n, ast.NamedExpr):
            if _is_name(n.target, name):
                raise Unsupported(f"{fi.fq}: walrus binding of {name}")
            continue
        elif isinstance(n, ast.ExceptHandler) and n.name == name:
            raise Unsupported(f"{fi.fq}: {name} bound by an except clause")
        else:
            continue
        for t in tgts:
            for x in ast.walk(t):
                if _is_name(x, name) and isinstance(x.ctx, ast.Store) and n not in out:
                    out.append(n)
    return out


# ---------------------------------------------------------------------------
# R1 owner writes

FIELDS = {"_parent", "_children"}
ADDERS = {"append", "insert", "__setitem__"}  # the item is the last positional argument
BULK = {"extend", "__iadd__"}
OTHER_MUT = {"pop", "remove", "clear", "__delitem__", "sort", "reverse"}


def _field_writes(corpus: Corpus):
    """(module, node, kind) for every store to / mutation of an attribute named _parent/_children in the package."""
    out = []
    for m in corpus.modules.values():
        if "_parent" not in m.src and "_children" not in m.src:
            continue
        for n in ast.walk(m.tree):
            kind = None
            if isinstance(n, ast.Attribute) and n.attr in FIELDS:
                p = parent(n)
                if isinstance(n.ctx, (ast.Store, ast.Del)):
                    kind = "store"
                elif isinstance(p, ast.Attribute) and p.value is n and isinstance(parent(p), ast.Call) and parent(p).func is p and p.attr in (ADDERS | BULK | OTHER_MUT):
                    kind = f"call .{p.attr}()"
                elif isinstance(p, ast.Subscript) and p.value is n and isinstance(p.ctx, (ast.Store, ast.Del)):
                    kind = "item store"
            elif isinstance(n, ast.Call) and (dotted(n.func) or "").rsplit(".", 1)[-1] in ("setattr", "delattr", "__setattr__"):
                if any(isinstance(a, ast.Constant) and a.value in FIELDS for a in n.args):
                    kind = "setattr"
            if kind:
                out.append((m, n, kind))
    return out


def _established_nodes(fi: FunctionInfo, item: str, _depth: int = 0, corpus: Corpus | None = None) -> set:
    """CFG nodes after which ``item._parent`` is known to be ``self``."""
    est: set = set()

    def is_item_parent(e):
        return isinstance(e, ast.Attribute) and e.attr == "_parent" and _is_name(e.value, item)

    for n in walk_local(fi.node, into_lambdas=False):
        if isinstance(n, ast.Assign) and len(n.targets) == 1 and is_item_parent(n.targets[0]) and _is_name(n.value, "self"):
            est.add(n)
        elif isinstance(n, ast.If) and isinstance(n.test, ast.Compare) and len(n.test.ops) == 1:
            a, b, op = n.test.left, n.test.comparators[0], n.test.ops[0]
            if (is_item_parent(a) and _is_name(b, "self")) or (is_item_parent(b) and _is_name(a, "self")):
                if isinstance(op, (ast.NotEq, ast.IsNot)):
                    est.add(("F", n))
                elif isinstance(op, (ast.Eq, ast.Is)):
                    est.add(("T", n))
        elif _depth == 0 and corpus is not None and fi.cls is not None and isinstance(n, ast.Call) and isinstance(n.func, ast.Attribute) and _is_name(n.func.value, "self") and any(_is_name(a, item) for a in n.args):
            # one level of helper: self.helper(item) where helper stores <param>._parent = self on every normal path
            helper = corpus.lookup_method(fi.cls, n.func.attr)
            if helper is not None and helper.fq != fi.fq and not n.keywords:
                hp = [p for p in helper.params if p != "self"]
                idx = next(i for i, a in enumerate(n.args) if _is_name(a, item))
                if idx < len(hp) and len(_bindings(helper, hp[idx])) == 1:
                    hest = _established_nodes(helper, hp[idx], 1)
                    if hest and not get_cfg(helper).paths_avoiding("ENTRY", "EXIT", lambda x: x in hest):
                        est.add(get_cfg(fi).stmt_of(n))
    return est


def _check_addition(corpus: Corpus, fi: FunctionInfo, stmt: ast.stmt, item_expr: ast.expr, what: str, rep: Report) -> None:
    """Every path from a binding of the item to the addition establishes item._parent == self."""
    key = f"{fi.fq}|parent set before {what}"
    site = fi.module.site(stmt)
    if isinstance(item_expr, ast.Call) and isinstance(item_expr.func, ast.Attribute) and _is_name(item_expr.func.value, "self") and fi.cls is not None and len(item_expr.args) == 1 and not item_expr.keywords:
        # self.helper(x) as the item: the helper stores <param>._parent = self on every normal path and returns that parameter
        helper = corpus.lookup_method(fi.cls, item_expr.func.attr)
        hp = [p for p in helper.params if p != "self"] if helper is not None else []
        if helper is not None and len(hp) >= 1 and len(_bindings(helper, hp[0])) == 1:
            hest = _established_nodes(helper, hp[0], 1)
            rets = [n for n in walk_local(helper.node) if isinstance(n, ast.Return)]
            if hest and rets and all(_is_name(r.value, hp[0]) for r in rets) and not get_cfg(helper).paths_avoiding("ENTRY", "EXIT", lambda x: x in hest):
                rep.ok("C16.R1", key, site, f"the item passes through {helper.qualname}(), which stores its _parent = self on every path and returns it")
                return
    if not isinstance(item_expr, ast.Name):
        raise Unsupported(f"{fi.fq}: item added to _children is not a plain name: {short(item_expr, 50)}")
    item = item_expr.id
    cfg = get_cfg(fi)
    binds = _bindings(fi, item)
    if not binds:
        raise Unsupported(f"{fi.fq}: no binding of {item} found")
    est = _established_nodes(fi, item, 0, corpus)
    for b in binds:
        others = {x for x in binds if x is not b}
        if b is not stmt and stmt not in cfg.reachable_from(b):
            continue
        if cfg.paths_avoiding(b, stmt, lambda n: n in est or n in others):
            where = "function entry" if b == "ENTRY" else f"`{short(b, 40)}`"
            rep.violation(
                "C16.R1",
                key,
                site,
                f"`{short(stmt, 70)}` adds `{item}` to the children list on a path (from {where}) that has not stored "
                f"{item}._parent = self: the child's parent would not be the element that contains it",
            )
            return
    rep.ok("C16.R1", key, site, f"every path stores {item}._parent = self (or proves it) first")


@rule("C16.R1")
def r1_owner_writes(corpus: Corpus, rep: Report, tier: str):
    rep.rule("C16.R1", "_parent/_children are written only inside the Element hierarchy; every addition to a children list is preceded by item._parent = self on every path")
    P = _ctx(corpus)
    additions: list[tuple[FunctionInfo, ast.stmt, ast.expr, str]] = []
    list_assigns: list[tuple[FunctionInfo, ast.Assign]] = []
    seen_keys: set[str] = set()
    for m, n, kind in _field_writes(corpus):
        inner = enclosing_function(n)
        if inner is None:
            rep.violation("C16.R1", f"{m.name}|module-level {kind} {short(enclosing_stmt(n), 60)}", m.site(n), f"module-level code writes Element.{getattr(n, 'attr', '_parent/_children')}")
            continue
        fi = _outer_method(inner)
        st = enclosing_stmt(n)
        key = f"{inner.fq}|{kind}|{short(st, 90)}"
        if key in seen_keys:
            continue
        seen_keys.add(key)
        rep.saw_function(fi.fq)
        if not P.in_hier(P.owner_class(inner)):
            recv = n.value if isinstance(n, ast.Attribute) else (n.args[0] if n.args else None)
            rt = P.g.expr_type(recv, inner) if recv is not None and not inner.is_lambda else None
            own = P.owner_class(inner)
            if rt is None and _is_name(recv, "self") and own is not None:
                rep.listed("C16.R1", key, m.site(n), f"{own.name} has a field of the same name; it is not an Element")
                continue
            if rt is not None and not P.in_hier(rt[1]):
                rep.listed("C16.R1", key, m.site(n), f"receiver is a {rt[1].name}, not an Element")
                continue
            if rt is None and m.name != P.m.name and "parse_html" not in " ".join(m.imports.values()):
                rep.listed("C16.R1", key, m.site(n), "module does not use parse_html; unrelated field of the same name")
                continue
            if rt is None and m.name != P.m.name:
                raise Unsupported(f"{inner.fq}: `{short(st, 60)}` writes a field named like Element's links on a receiver of unknown type")
            rep.violation(
                "C16.R1",
                key,
                m.site(n),
                f"`{short(st, 70)}` writes an Element's {'/'.join(sorted(FIELDS))} outside the Element class hierarchy: the parent/child links can get out of step",
            )
            continue
        rep.ok("C16.R1", key, m.site(n), "owner method")
        if inner is not fi:
            raise Unsupported(f"{inner.fq}: link write inside a nested function/lambda")
        # classify additions
        if kind.startswith("call ."):
            call = parent(parent(n))
            meth = parent(n).attr
            if meth in ADDERS:
                if not _is_self_attr(n, "_children") or not call.args or call.keywords:
                    raise Unsupported(f"{fi.fq}: addition to another object's children list: {short(call, 60)}")
                additions.append((fi, st, call.args[-1], f"self._children.{meth}"))
            elif meth in BULK:
                raise Unsupported(f"{fi.fq}: bulk addition {short(call, 60)} (per-item parent store cannot be paired)")
        elif kind == "item store":
            sub = parent(n)
            asg = parent(sub)
            if isinstance(sub.ctx, ast.Store):
                if not (isinstance(asg, ast.Assign) and len(asg.targets) == 1 and _is_self_attr(n, "_children") and not isinstance(sub.slice, ast.Slice)):
                    raise Unsupported(f"{fi.fq}: item store not understood: {short(st, 60)}")
                additions.append((fi, st, asg.value, "self._children[i] = item"))
        elif kind == "store" and n.attr == "_children" and isinstance(n.ctx, ast.Store):
            if isinstance(st, ast.AugAssign):
                raise Unsupported(f"{fi.fq}: augmented assignment to _children")
            if isinstance(st, (ast.Assign, ast.AnnAssign)):
                list_assigns.append((fi, st))
    # `X._children = <list>`: the list's elements
    for fi, st in list_assigns:
        val = st.value
        tgt = st.targets[0] if isinstance(st, ast.Assign) else st.target
        if isinstance(val, ast.List) and not val.elts:
            continue
        if not (_is_self_attr(tgt, "_children") and isinstance(val, ast.Name)):
            raise Unsupported(f"{fi.fq}: children list assigned from {short(val, 50)}")
        lname = val.id
        n_app = 0
        for x in walk_local(fi.node):
            if isinstance(x, ast.Call) and isinstance(x.func, ast.Attribute) and _is_name(x.func.value, lname):
                if x.func.attr == "append" and len(x.args) == 1:
                    additions.append((fi, get_cfg(fi).stmt_of(x), x.args[0], f"{lname}.append (later stored as self._children)"))
                    n_app += 1
                elif x.func.attr in (ADDERS | BULK):
                    raise Unsupported(f"{fi.fq}: {short(x, 50)} on the future children list")
        inits = [b for b in _bindings(fi, lname) if b != "ENTRY"]
        if "ENTRY" in _bindings(fi, lname) or not all(isinstance(b, (ast.Assign, ast.AnnAssign)) and isinstance(b.value, ast.List) and not b.value.elts for b in inits):
            raise Unsupported(f"{fi.fq}: future children list {lname} is not built from an empty list by append")
    for fi, st, item, what in additions:
        _check_addition(corpus, fi, st, item, what, rep)
    # append/extend/+= are the MutableSequence mix-ins over insert
    k = f"{P.element.fq}|append/extend/+= funnel into insert"
    ext = corpus.external_bases(P.element)
    if "collections.abc.MutableSequence" in ext and all(mn in P.element.methods for mn in ("insert", "__setitem__", "__delitem__", "__getitem__", "__len__")):
        rep.ok("C16.R1", k, P.m.site(P.element.node), "collections.abc.MutableSequence mix-ins call self.insert / self.__setitem__")
    else:
        rep.error("C16.R1", f"Element is no longer a collections.abc.MutableSequence with its own insert/__setitem__ (bases: {ext}): the funnel for append/extend is not understood")
    rep.expect_min("C16.R1", 10, "9 link writes in Element + 3 additions + the mix-in funnel on the pinned tree")


# ---------------------------------------------------------------------------
# R2 fresh insertion

INSERTERS = {"append", "insert", "extend", "__setitem__", "reset_children", "__iadd__"}


def _counter_update(P: Ctx, st: ast.stmt):
    """(counter, 'inc' | 'dec', key expression) for `self.c[k] += 1`, `self.c[k] = self.c.get(k, 0) + 1`, ... else None."""
    if isinstance(st, ast.AugAssign) and isinstance(st.target, ast.Subscript) and P.counter_of(st.target.value) and isinstance(st.op, (ast.Add, ast.Sub)) and isinstance(st.value, ast.Constant) and st.value.value == 1:
        return P.counter_of(st.target.value), "inc" if isinstance(st.op, ast.Add) else "dec", st.target.slice
    if isinstance(st, ast.Assign) and len(st.targets) == 1 and isinstance(st.targets[0], ast.Subscript) and P.counter_of(st.targets[0].value):
        c, k, v = P.counter_of(st.targets[0].value), st.targets[0].slice, st.value
        if isinstance(v, ast.BinOp) and isinstance(v.op, (ast.Add, ast.Sub)) and isinstance(v.right, ast.Constant) and v.right.value == 1:
            old = v.left
            reads = (
                isinstance(old, ast.Subscript) and P.counter_of(old.value) == c and unparse(old.slice) == unparse(k)
            ) or (
                isinstance(old, ast.Call) and isinstance(old.func, ast.Attribute) and old.func.attr == "get" and P.counter_of(old.func.value) == c and old.args and unparse(old.args[0]) == unparse(k)
                and (len(old.args) == 1 or (isinstance(old.args[1], ast.Constant) and old.args[1].value == 0))
            )
            if reads:
                return c, "inc" if isinstance(v.op, ast.Add) else "dec", k
    return None


def _touches_counter(P: Ctx, st: ast.AST) -> bool:
    return any(P.counter_of(x) for x in ast.walk(st))


def _deepcopy_impls(P: Ctx) -> list[FunctionInfo]:
    return [ci.methods["deepcopy"] for ci in P.hier if "deepcopy" in ci.methods]


def _fresh_ctor(P: Ctx, value: ast.expr, fi: FunctionInfo) -> str | None:
    """Reason why the value of ``value`` is an element nobody else holds, or None."""
    if not isinstance(value, ast.Call):
        return None
    f = value.func
    ci = P.hier_class_named(f, fi)
    if ci is not None:
        return f"constructed here: {ci.name}(...)"
    if isinstance(f, ast.Name):
        t = P.g.local_types(fi).get(f.id)
        if t and t[0] == "type" and P.in_hier(t[1]) and f.id in fi.params:
            return f"constructed here from the class parameter {f.id}"
    if isinstance(f, ast.Attribute) and f.attr == "__class__" and _is_name(f.value, "self") and P.in_hier(P.owner_class(fi)):
        return "constructed here: self.__class__(...)"
    if isinstance(f, ast.Attribute) and f.attr == "deepcopy" and not value.args and not value.keywords:
        return "result of deepcopy() (fresh by R2's return check)"
    if _is_shallow_copy(value, fi):
        return "a new object (copy.copy(self)); what it shares with self is judged by R4"
    return None


def _is_shallow_copy(value: ast.expr, fi: FunctionInfo) -> bool:
    """copy.copy(self) / copy(self): a distinct object whose fields are the very objects of self."""
    return isinstance(value, ast.Call) and fi.module.resolve(dotted(value.func) or "") == "copy.copy" and len(value.args) == 1 and _is_name(value.args[0], "self") and not value.keywords


def _element_receiver(P: Ctx, recv: ast.expr, fi: FunctionInfo) -> bool:
    if isinstance(recv, ast.Attribute) and recv.attr == "_children":
        return True  # reported by R1 as a foreign write
    if isinstance(recv, ast.Name):
        for b in _bindings(fi, recv.id):
            if isinstance(b, (ast.Assign, ast.AnnAssign)) and b.value is not None:
                v = b.value
                if _fresh_ctor(P, v, fi) or _is_top_read(P, v, fi):
                    return True
                if isinstance(v, ast.Call) and isinstance(v.func, ast.Attribute) and v.func.attr == "pop" and P.is_stack(v.func.value):
                    return True
    t = P.g.expr_type(recv, fi)
    return bool(t and t[0] == "is" and P.in_hier(t[1]))


def _insertions(P: Ctx, fi: FunctionInfo):
    """(stmt, item expr, text) for every tree insertion in ``fi`` (receiver is not the open-element stack)."""
    out = []
    for n in walk_local(fi.node):
        if isinstance(n, ast.Call) and isinstance(n.func, ast.Attribute) and n.func.attr in INSERTERS:
            if P.is_stack(n.func.value):
                continue
            if not n.args:
                continue
            if not _element_receiver(P, n.func.value, fi):
                raise Unsupported(f"{fi.fq}: `{short(n, 50)}`: receiver is not known to be an element (nor the open-element stack)")
            out.append((enclosing_stmt(n), n.args[-1], n))
        elif isinstance(n, ast.Subscript) and isinstance(n.ctx, ast.Store) and not P.is_stack(n.value) and not P.counter_of(n.value):
            asg = parent(n)
            if isinstance(asg, ast.Assign):
                out.append((asg, asg.value, n))
        elif isinstance(n, ast.AugAssign) and isinstance(n.op, ast.Add) and not P.is_stack(n.target) and isinstance(n.value, (ast.List, ast.ListComp, ast.Tuple)):
            out.append((n, n.value, n))  # `x += [item]` on an element: bulk insertion
    return out


@rule("C16.R2")
def r2_fresh_insertion(corpus: Corpus, rep: Report, tier: str):
    rep.rule("C16.R2", "elements inserted by Tree.nest_* and deepcopy are constructed in the same function and inserted once; deepcopy returns a fresh object")
    P = _ctx(corpus)
    funcs = [f for f in P.tree.methods.values()] + _deepcopy_impls(P)
    for fi in funcs:
        rep.saw_function(fi.fq)
        cfg = get_cfg(fi)
        ins = _insertions(P, fi)
        for st, item, node in ins:
            key = f"{fi.fq}|insert {short(node, 60)}"
            site = fi.module.site(st)
            if isinstance(node, ast.Call) and node.func.attr in ("extend", "reset_children", "__iadd__") or isinstance(node, ast.AugAssign):
                raise Unsupported(f"{fi.fq}: bulk insertion {short(node, 60)}")
            if isinstance(item, ast.Call):
                why = _fresh_ctor(P, item, fi)
                if why:
                    rep.ok("C16.R2", key, site, why)
                else:
                    rep.violation("C16.R2", key, site, f"`{short(item, 50)}` is inserted into the tree but is not an element constructed here: it may already have a parent (AssertionError) or become reachable twice")
                continue
            if not isinstance(item, ast.Name):
                raise Unsupported(f"{fi.fq}: inserted expression {short(item, 50)}")
            binds = _bindings(fi, item.id)
            if binds == ["ENTRY"]:
                _check_param_item(P, fi, item.id, key, site, rep)
                continue
            if len(binds) != 1 or not isinstance(binds[0], (ast.Assign, ast.AnnAssign)):
                kinds = ["parameter" if b == "ENTRY" else type(b).__name__ for b in binds]
                if any(isinstance(b, ast.For) for b in binds if b != "ENTRY") and len(binds) == 1:
                    rep.violation("C16.R2", key, site, f"`{item.id}` is a loop variable over existing elements, not an element constructed here: inserting it re-parents or duplicates a node (AssertionError `different parent already set`)")
                    continue
                raise Unsupported(f"{fi.fq}: inserted name {item.id} has bindings {kinds}")
            b = binds[0]
            why = _fresh_ctor(P, b.value, fi)
            if not why:
                rep.violation("C16.R2", key, site, f"`{item.id} = {short(b.value, 50)}` is not an element constructed in {fi.qualname}: inserting it may re-parent an element (AssertionError) or make it reachable twice")
                continue
            if cfg.loops.get(b) is not cfg.loops.get(st):
                rep.violation("C16.R2", key, site, f"`{item.id}` is constructed outside the loop in which it is inserted: the same element is inserted on every iteration")
                continue
            same = [s for s, i2, _ in ins if isinstance(i2, ast.Name) and i2.id == item.id and s is not st]
            dup = [s for s in same if cfg.paths_avoiding(st, s, lambda x: x is b)]
            if dup:
                rep.violation("C16.R2", key, fi.module.site(dup[0]), f"`{item.id}` is inserted into the tree a second time by `{short(dup[0], 50)}`: the element would be reachable twice")
                continue
            rep.ok("C16.R2", key, site, why)
    # deepcopy returns a fresh local
    for fi in _deepcopy_impls(P):
        rets = [n for n in walk_local(fi.node) if isinstance(n, ast.Return)]
        if not rets:
            raise Unsupported(f"{fi.fq}: no return")
        for r in rets:
            key = f"{fi.fq}|returns a fresh object"
            v = r.value
            why = None
            if isinstance(v, ast.Name):
                binds = _bindings(fi, v.id)
                if len(binds) == 1 and isinstance(binds[0], (ast.Assign, ast.AnnAssign)):
                    why = _fresh_ctor(P, binds[0].value, fi)
            elif v is not None:
                why = _fresh_ctor(P, v, fi)
            if why and "deepcopy()" not in why:
                rep.ok("C16.R2", key, fi.module.site(r), why)
            else:
                rep.violation("C16.R2", key, fi.module.site(r), f"`{short(r, 50)}`: deepcopy hands out an object that is not constructed here (e.g. self): the copy shares nodes with the original, and appending it to the copied parent trips `different parent already set`")
    rep.expect_min("C16.R2", 4, "5 insertions (4 nest_* + deepcopy; fewer when they share a helper) and 2 deepcopy returns on the pinned tree")


def _check_param_item(P: Ctx, fi: FunctionInfo, name: str, key: str, site: str, rep: Report) -> None:
    """The inserted element is a parameter of a helper: every call site must pass a fresh constructor call."""
    callers = P.g.callers().get(fi.fq, [])
    if not callers:
        raise Unsupported(f"{fi.fq}: inserts its parameter {name} and has no resolvable caller")
    idx = fi.params.index(name) - (1 if fi.params and fi.params[0] == "self" else 0)
    for cfi, call in callers:
        arg = call.args[idx] if 0 <= idx < len(call.args) else next((k.value for k in call.keywords if k.arg == name), None)
        if isinstance(arg, ast.Name):
            ab = _bindings(cfi, arg.id)
            if len(ab) == 1 and isinstance(ab[0], (ast.Assign, ast.AnnAssign)) and _fresh_ctor(P, ab[0].value, cfi):
                continue
        if arg is None or not _fresh_ctor(P, arg, cfi):
            raise Unsupported(f"{fi.fq}: inserts its parameter {name}; caller {cfi.fq} passes {short(arg, 40) if arg is not None else 'nothing'}")
    rep.ok("C16.R2", key, site, f"parameter {name}: every caller passes a freshly constructed element")


# ---------------------------------------------------------------------------
# R3 callbacks, node classes, delimiter table

# event -> (prefix, suffix) that the stdlib strips before calling the callback.  Each row is
# re-verified against the installed html/parser.py + _markupbase.py on every run.
TERMINAL_EVENTS: dict[str, tuple[str, str, str]] = {
    "handle_data": ("", "", "text between markup is passed as the raw slice rawdata[i:j]"),
    "handle_comment": ("<!--", "-->", "parse_comment passes rawdata[i+4:j], j = start of the comment close"),
    "handle_decl": ("<!", ">", "parse_html_declaration passes rawdata[i+2:gtpos] for <!doctype ...>"),
    "handle_pi": ("<?", ">", "parse_pi passes rawdata[i+2:j], j = start of piclose ('>')"),
    "handle_charref": ("&#", ";", "goahead passes charref.match(...).group()[2:-1]"),
    "handle_entityref": ("&", ";", "goahead passes entityref.match(...).group(1)"),
}
# tag events -> literal skeleton of the source form
TAG_SHAPES = {
    "element": (["<", ">", "</", ">"], True),
    "void": (["<", ">"], False),
    "selfclosing": (["<", "/>"], False),
}
WHATWG_VOID = ("area", "base", "br", "col", "embed", "hr", "img", "input", "link", "meta", "source", "track", "wbr")
# further names that must stay void, one reason each
LEGACY_VOID = {
    "param": "void in HTML 4.01 / XHTML 1.0 and still closed immediately by the HTML parsing algorithm (start tag 'param, source, track'); "
    "`<object><param name=..></object>` is well-formed and round-trips on the pinned tree",
}


def _stdlib(corpus: Corpus):
    hp = corpus.sibling("stdlib:html/parser.py")
    mb = corpus.sibling("stdlib:_markupbase.py")
    if "HTMLParser" not in hp.classes:
        raise AnchorMissing("class HTMLParser not found in stdlib html/parser.py")
    return hp, mb, hp.classes["HTMLParser"]


def _stdlib_callbacks(corpus: Corpus) -> list[str]:
    _, _, cls = _stdlib(corpus)
    return [n for n in cls.methods if n.startswith("handle_")] + (["unknown_decl"] if "unknown_decl" in cls.methods else [])


# -- regex trees -------------------------------------------------------------


def _regex_items(mod, name: str) -> list:
    node = mod.const_nodes.get(name)
    if not (isinstance(node, ast.Call) and (dotted(node.func) or "").endswith("compile") and node.args):
        raise Unsupported(f"stdlib regex {name} is not a re.compile(<literal>) constant")
    flags = 0
    if len(node.args) > 1 or node.keywords:
        raise Unsupported(f"stdlib regex {name} has flags")
    return list(sre_parse.parse(mod.eval_const(node.args[0]), flags))


def _min_literal(items: list) -> str:
    out = ""
    for op, av in items:
        if op is sre_c.LITERAL:
            out += chr(av)
        elif op in (sre_c.MAX_REPEAT, sre_c.MIN_REPEAT) and av[0] == 0:
            continue
        else:
            raise Unsupported(f"regex item {op} in a terminator")
    return out


def _class_accepts(item, ch: str) -> bool:
    op, av = item
    if op is sre_c.NOT_LITERAL:
        return chr(av) != ch
    if op is not sre_c.IN:
        raise Unsupported(f"regex terminator {op} is not a one-character class")
    neg = False
    hit = False
    for o, a in av:
        if o is sre_c.NEGATE:
            neg = True
        elif o is sre_c.LITERAL:
            hit = hit or chr(a) == ch
        elif o is sre_c.RANGE:
            hit = hit or a[0] <= ord(ch) <= a[1]
        else:
            raise Unsupported(f"regex class member {o}")
    return hit != neg


def _leading_literals(items: list) -> tuple[str, list]:
    k = 0
    out = ""
    while k < len(items) and items[k][0] is sre_c.LITERAL:
        out += chr(items[k][1])
        k += 1
    return out, items[k:]


# -- what the stdlib strips ----------------------------------------------------


def _last_assign(fn: FunctionInfo, name: str, before: int) -> ast.expr | None:
    best = None
    for n in walk_local(fn.node):
        if isinstance(n, ast.Assign) and n.lineno < before:
            for t in n.targets:
                for x in ast.walk(t):
                    if _is_name(x, name) and isinstance(n.value, ast.expr) and not isinstance(t, ast.Tuple):
                        if best is None or n.lineno > best.lineno:
                            best = n
    return best.value if best is not None else None


def _regex_of_match(fn: FunctionInfo, mname: str, before: int, mods) -> list | None:
    v = _last_assign(fn, mname, before)
    if isinstance(v, ast.Call) and isinstance(v.func, ast.Attribute) and v.func.attr in ("search", "match") and isinstance(v.func.value, ast.Name):
        for mod in mods:
            if v.func.value.id in mod.const_nodes:
                return _regex_items(mod, v.func.value.id)
    return None


def _offset(e: ast.expr | None, base: str = "i") -> int | None:
    if e is None:
        return None
    if _is_name(e, base):
        return 0
    if isinstance(e, ast.BinOp) and isinstance(e.op, ast.Add) and _is_name(e.left, base) and isinstance(e.right, ast.Constant) and isinstance(e.right.value, int):
        return e.right.value
    return None


def _stdlib_strips(corpus: Corpus) -> dict[str, list[dict]]:
    """callback -> [{prefixes: set[str], suffix: str | ('class', item) | None, site}] read off the stdlib sources."""
    hp, mb, _ = _stdlib(corpus)
    mods = (hp, mb)
    out: dict[str, list[dict]] = {}
    for mod in mods:
        for fn in mod.functions.values():
            if fn.is_lambda:
                continue
            for call in walk_local(fn.node):
                if not (isinstance(call, ast.Call) and isinstance(call.func, ast.Attribute) and _is_name(call.func.value, "self") and len(call.args) == 1):
                    continue
                cb = call.func.attr
                if not (cb.startswith("handle_") or cb == "unknown_decl"):
                    continue
                arg = call.args[0]
                if isinstance(arg, ast.Name):
                    arg = _last_assign(fn, arg.id, call.lineno) or arg
                rec = {"prefixes": set(), "suffix": None, "site": f"{mod.rel}:{call.lineno}", "raw": unparse(arg)}
                if isinstance(arg, ast.Subscript) and _is_name(arg.value, "rawdata") and isinstance(arg.slice, ast.Slice):
                    k = _offset(arg.slice.lower)
                    if k is None:
                        continue
                    if k == 0:
                        rec["prefixes"] = {""}
                    else:
                        want = f"rawdata[i:i + {k}]"
                        for c in walk_local(fn.node):
                            if isinstance(c, ast.Compare) and len(c.ops) == 1:
                                sides = [c.left, c.comparators[0]]
                                if any(unparse(s) == want for s in sides):
                                    other = sides[1] if unparse(sides[0]) == want else sides[0]
                                    elts = other.elts if isinstance(other, (ast.Tuple, ast.List)) else [other]
                                    rec["prefixes"] |= {e.value for e in elts if isinstance(e, ast.Constant) and isinstance(e.value, str)}
                    up = arg.slice.upper
                    if isinstance(up, ast.Name):
                        uv = _last_assign(fn, up.id, call.lineno)
                        if isinstance(uv, ast.Call) and isinstance(uv.func, ast.Attribute):
                            if uv.func.attr == "find" and _is_name(uv.func.value, "rawdata") and uv.args and isinstance(uv.args[0], ast.Constant):
                                rec["suffix"] = uv.args[0].value
                            elif uv.func.attr == "start" and isinstance(uv.func.value, ast.Name):
                                items = _regex_of_match(fn, uv.func.value.id, uv.lineno, mods)
                                if items is not None:
                                    rec["suffix"] = _min_literal(items)
                        if k == 0 and rec["suffix"] is None:
                            rec["suffix"] = ""
                    out.setdefault(cb, []).append(rec)
                elif isinstance(arg, ast.Subscript) and isinstance(arg.value, ast.Call) and isinstance(arg.value.func, ast.Attribute) and arg.value.func.attr == "group" and not arg.value.args and isinstance(arg.slice, ast.Slice):
                    items = _regex_of_match(fn, unparse(arg.value.func.value), call.lineno, mods)
                    lo, hi = arg.slice.lower, arg.slice.upper
                    if items is None or not (isinstance(lo, ast.Constant) and isinstance(hi, ast.UnaryOp) and isinstance(hi.op, ast.USub) and isinstance(hi.operand, ast.Constant) and hi.operand.value == 1):
                        continue
                    pre, rest = _leading_literals(items)
                    if lo.value == len(pre) and rest:
                        rec["prefixes"] = {pre}
                        rec["suffix"] = ("class", rest[-1])
                        out.setdefault(cb, []).append(rec)
                elif isinstance(arg, ast.Call) and isinstance(arg.func, ast.Attribute) and arg.func.attr == "group" and len(arg.args) == 1 and isinstance(arg.args[0], ast.Constant) and arg.args[0].value == 1:
                    items = _regex_of_match(fn, unparse(arg.func.value), call.lineno, mods)
                    if items is None:
                        continue
                    pre, rest = _leading_literals(items)
                    if len(rest) == 2 and rest[0][0] is sre_c.SUBPATTERN and rest[0][1][0] == 1:
                        rec["prefixes"] = {pre}
                        rec["suffix"] = ("class", rest[1])
                        out.setdefault(cb, []).append(rec)
    return out


# -- callback -> node class ---------------------------------------------------------


class Emit:
    """One Tree call reached from a stdlib callback (directly, or through one private helper method of the parser)."""

    def __init__(self, cb: FunctionInfo, call: ast.Call, tm: FunctionInfo, via: FunctionInfo | None = None, outer: ast.Call | None = None):
        self.cb, self.call, self.tm = cb, call, tm
        self.via, self.outer = via, outer  # helper method and the call of it in the callback
        self.cls: ClassInfo | None = None
        self.ctor: ast.Call | None = None
        self.transformed: dict[int, str] = {}  # ctor index -> description of a non-verbatim hop
        self.argmap: dict[int, str] = {}  # ctor positional index -> callback parameter name (verbatim)
        self.argexpr: dict[int, ast.expr] = {}  # ctor positional index -> expression in the callback's terms
        self.source_args: set[int] = set()  # ctor indices fed by self.get_starttag_text()

    def guards(self):
        """Conditions (in the callback's terms) under which the callback reaches the Tree call / the helper."""
        cfg = get_cfg(self.cb)
        return cfg.guards(cfg.stmt_of(self.outer if self.via is not None else self.call))

    def inner_guards(self):
        """Conditions inside the helper under which it reaches the Tree call (in the helper's terms)."""
        if self.via is None:
            return []
        cfg = get_cfg(self.via)
        return cfg.guards(cfg.stmt_of(self.call))

    def site_fi(self) -> FunctionInfo:
        return self.via or self.cb

    def to_cb_terms(self, e: ast.expr) -> ast.expr:
        """Rewrite an expression of the helper into the callback's terms (parameters replaced by the actual arguments)."""
        if self.via is None:
            return e
        mapping = {}
        for p in [x for x in self.via.params if x != "self"]:
            act = _actual(self.outer, self.via, p)
            if act is not None and len(_bindings(self.via, p)) == 1:
                mapping[p] = act

        class Sub(ast.NodeTransformer):
            def visit_Name(self, node):
                return mapping.get(node.id, node) if isinstance(node.ctx, ast.Load) else node

        return Sub().visit(_clone(e))


def _clone(e: ast.expr) -> ast.expr:
    """A fresh copy of an expression, without the corpus' parent / module links (a generic deep copy would follow them)."""
    return ast.parse(ast.unparse(e), mode="eval").body


def _actual(call: ast.Call, callee: FunctionInfo, pname: str) -> ast.expr | None:
    params = [p for p in callee.params if p != "self"]
    if pname in params and params.index(pname) < len(call.args):
        return call.args[params.index(pname)]
    for k in call.keywords:
        if k.arg == pname:
            return k.value
    return None


def _tree_calls(P: Ctx, fi: FunctionInfo) -> list[tuple[ast.Call, FunctionInfo]]:
    out = []
    for call in walk_local(fi.node):
        if isinstance(call, ast.Call) and isinstance(call.func, ast.Attribute):
            tms = [t for t in P.g.resolve_call(call, fi) if isinstance(t, FunctionInfo) and t.cls is not None and t.cls.fq == P.tree.fq]
            if len(tms) > 1:
                raise Unsupported(f"{fi.fq}: ambiguous Tree call {short(call, 50)}")
            if tms:
                out.append((call, tms[0]))
    out.sort(key=lambda x: (x[0].lineno, x[0].col_offset))
    return out


def _callback_map(P: Ctx) -> dict[str, list[Emit]]:
    """stdlib callback name -> Tree calls it makes, directly or through one private helper of the parser class."""

    def compute():
        out: dict[str, list[Emit]] = {}
        cbnames = set(_stdlib_callbacks(P.c))
        for name, cb in P.parser.methods.items():
            if name not in cbnames:
                continue
            emits = []
            for call, tm in _tree_calls(P, cb):
                emits.append(Emit(cb, call, tm))
            for oc in walk_local(cb.node):
                if isinstance(oc, ast.Call) and isinstance(oc.func, ast.Attribute) and _is_name(oc.func.value, "self") and oc.func.attr in P.parser.methods and oc.func.attr not in cbnames:
                    helper = P.parser.methods[oc.func.attr]
                    for call, tm in _tree_calls(P, helper):
                        emits.append(Emit(cb, call, tm, via=helper, outer=oc))
            for em in emits:
                _trace_ctor(P, em)
            out[name] = emits
        return out

    return P.c.cache("c16-cbmap", compute)


def _is_starttag_text(e: ast.expr) -> bool:
    return isinstance(e, ast.Call) and isinstance(e.func, ast.Attribute) and e.func.attr == "get_starttag_text" and _is_name(e.func.value, "self") and not e.args


def _trace_ctor(P: Ctx, em: Emit) -> None:
    tm, cb, site = em.tm, em.cb, em.site_fi()
    ctors = []
    for n in walk_local(tm.node):
        if isinstance(n, ast.Call):
            ci = P.hier_class_named(n.func, tm)
            if ci is not None:
                ctors.append((n, ci))
            elif isinstance(n.func, ast.Name) and n.func.id in tm.params:
                t = P.g.local_types(tm).get(n.func.id)
                if t and t[0] == "type" and P.in_hier(t[1]):
                    a = _actual(em.call, tm, n.func.id)
                    a = em.to_cb_terms(a) if a is not None else None
                    ci2 = P.hier_class_named(a, cb) if a is not None else None
                    if ci2 is None:
                        raise Unsupported(f"{site.fq}: node class argument {short(a, 30) if a is not None else '?'} of {tm.name} is not a class of the Element hierarchy")
                    ctors.append((n, ci2))
    if not ctors:
        return
    if len(ctors) != 1:
        raise Unsupported(f"{tm.fq}: constructs {len(ctors)} elements")
    em.ctor, em.cls = ctors[0]
    for idx, a in enumerate(em.ctor.args):
        if not isinstance(a, ast.Name) or a.id not in tm.params:
            em.transformed[idx] = f"{tm.name} passes `{short(a, 40)}` to the constructor"
            continue
        if len(_bindings(tm, a.id)) != 1:
            em.transformed[idx] = f"{tm.name} rebinds `{a.id}` before constructing the node"
            continue
        act = _actual(em.call, tm, a.id)
        if act is None:
            d = _param_default(tm, a.id)
            if d is None:
                raise Unsupported(f"{site.fq}: no argument for {tm.name}({a.id})")
            act = d
        act = em.to_cb_terms(act)
        em.argexpr[idx] = act
        if isinstance(act, ast.Name) and act.id in cb.params and len(_bindings(cb, act.id)) == 1:
            em.argmap[idx] = act.id
        elif _is_starttag_text(act):
            em.source_args.add(idx)
        elif isinstance(act, (ast.Name, ast.Call, ast.BinOp, ast.Subscript, ast.JoinedStr, ast.Constant, ast.IfExp, ast.BoolOp)):
            em.transformed[idx] = f"{site.name} passes `{short(act, 40)}` instead of the callback's argument"
        else:
            raise Unsupported(f"{site.fq}: argument {short(act, 40)}")
    if em.ctor.keywords:
        raise Unsupported(f"{tm.fq}: keyword arguments in {short(em.ctor, 50)}")


def _init_fields(P: Ctx, ci: ClassInfo) -> dict[int, tuple[str, str]]:
    """ctor positional index -> (field, 'plain' | 'copied' | 'changed:<expr>')."""
    init = P.c.lookup_method(ci, "__init__")
    if init is None:
        raise AnchorMissing(f"{ci.fq} has no __init__")
    params = [p for p in init.params if p != "self"]
    out: dict[int, tuple[str, str]] = {}
    for n in walk_local(init.node):
        tgt = val = None
        if isinstance(n, ast.Assign) and len(n.targets) == 1:
            tgt, val = n.targets[0], n.value
        elif isinstance(n, ast.AnnAssign):
            tgt, val = n.target, n.value
        if not _is_self_attr(tgt) or val is None:
            continue
        used = [x.id for x in ast.walk(val) if isinstance(x, ast.Name) and x.id in params]
        if not used:
            continue
        idx = params.index(used[0])
        out[idx] = (tgt.attr, _store_kind(val, used[0]))
    return out


def _store_kind(val: ast.expr, pname: str) -> str:
    """How a constructor stores its parameter: 'plain', 'copied' (same content, maybe a new mapping) or 'changed:<expr>'."""
    if _is_name(val, pname):
        return "plain"
    if isinstance(val, ast.BoolOp) and isinstance(val.op, ast.Or) and _is_name(val.values[0], pname) and all(isinstance(v, (ast.Dict, ast.Constant, ast.List)) and not getattr(v, "keys", None) and not getattr(v, "elts", None) for v in val.values[1:]):
        return "plain"  # `attr or {}`: a default for a missing value
    if isinstance(val, ast.Call) and dotted(val.func) in ("Attribute", "dict") and len(val.args) == 1 and not val.keywords and _store_kind(val.args[0], pname) in ("plain", "copied"):
        return "copied"
    if isinstance(val, ast.IfExp) and all(_store_kind(b, pname) in ("plain", "copied") for b in (val.body, val.orelse)):
        return "copied"
    return f"changed:{short(val, 40)}"


# -- render templates -----------------------------------------------------------------


def _module_str(e: ast.expr):
    """Value of a module-level string constant named by ``e`` (hoisted literal), else None."""
    if isinstance(e, ast.Name) and getattr(e, "_mod", None) is not None and e.id in e._mod.const_nodes:
        try:
            v = e._mod.eval_const(e._mod.const_nodes[e.id])
        except Unsupported:
            return None
        return v if isinstance(v, str) else None
    return None


def _single_local_value(e: ast.Name) -> ast.expr | None:
    fi = enclosing_function(e)
    if fi is None or fi.is_lambda or e.id in fi.params or not isinstance(e.ctx, ast.Load):
        return None
    binds = _bindings(fi, e.id)
    if len(binds) == 1 and isinstance(binds[0], (ast.Assign, ast.AnnAssign)) and binds[0].value is not None and binds[0].lineno < e.lineno:
        tgt = binds[0].targets[0] if isinstance(binds[0], ast.Assign) else binds[0].target
        if isinstance(tgt, ast.Name) and get_cfg(fi).loops.get(binds[0]) is None:
            return binds[0].value
    return None


def _resolve_name(e: ast.expr, _depth: int = 0) -> ast.expr:
    """Replace a hoisted module-level string constant / a local bound once by the expression it stands for."""
    while isinstance(e, ast.Name) and _depth < 6:
        _depth += 1
        ms = _module_str(e)
        if ms is not None:
            return ast.Constant(ms)
        v = _single_local_value(e)
        if v is None:
            break
        e = v
    return e


_ALT_FIELDS: set[str] = set()  # fields used as `self.F or <template>` in render methods (reset per R3 run)


def _alt_source(e: ast.expr) -> tuple[str, ast.expr] | None:
    """(field, rebuilt form) for `self.F or X`, `self.F if self.F [is not None] else X`, `X if self.F is None / not self.F else self.F`."""
    if isinstance(e, ast.BoolOp) and isinstance(e.op, ast.Or) and len(e.values) == 2 and _is_self_attr(e.values[0]):
        return e.values[0].attr, e.values[1]
    if isinstance(e, ast.IfExp):
        t, neg = e.test, False
        while isinstance(t, ast.UnaryOp) and isinstance(t.op, ast.Not):
            t, neg = t.operand, not neg
        if isinstance(t, ast.Compare) and len(t.ops) == 1 and isinstance(t.comparators[0], ast.Constant) and t.comparators[0].value is None and isinstance(t.ops[0], (ast.Is, ast.IsNot)):
            neg = neg != isinstance(t.ops[0], ast.Is)
            t = t.left
        if _is_self_attr(t):
            present, absent = (e.orelse, e.body) if neg else (e.body, e.orelse)
            if _is_self_attr(present) and present.attr == t.attr:
                return t.attr, absent
    return None


def _rawdata_slice(e: ast.expr) -> bool:
    return isinstance(e, ast.Subscript) and isinstance(e.slice, ast.Slice) and _is_self_attr(e.value, "rawdata")


def _is_source_text(P: "Ctx", e: ast.expr | None, fi: FunctionInfo, field: str, depth: int = 0) -> bool:
    """Is the value of ``e`` None or a piece of the text being parsed (a slice of self.rawdata, get_starttag_text(),
    the same field of another element, or a parameter / local fed only by such)?"""
    if e is None or depth > 4:
        return e is None
    if isinstance(e, ast.Constant) and e.value is None:
        return True
    if _is_starttag_text(e) or _rawdata_slice(e):
        return True
    if isinstance(e, ast.Attribute) and e.attr == field:
        return True
    if isinstance(e, ast.Name):
        binds = _bindings(fi, e.id)
        if binds == ["ENTRY"]:
            # every call site in the module that passes this parameter
            d = _param_default(fi, e.id)
            if d is not None and not _is_source_text(P, d, fi, field, depth + 1):
                return False
            params = [p for p in fi.params if p != "self"]
            idx = params.index(e.id)
            names = {fi.name} if fi.name != "__init__" else {c.name for c in P.hier if P.c.lookup_method(c, "__init__") is fi} | {"__class__"}
            for g in P.m.functions.values():
                if g.is_lambda:
                    continue
                for c in walk_local(g.node):
                    if isinstance(c, ast.Call) and (dotted(c.func) or "").rsplit(".", 1)[-1] in names:
                        if dotted(c.func) == "super().__init__":
                            continue
                        arg = c.args[idx] if idx < len(c.args) else next((k.value for k in c.keywords if k.arg == e.id), None)
                        if arg is not None and not _is_source_text(P, arg, g, field, depth + 1):
                            return False
            return True
        if len(binds) == 1 and isinstance(binds[0], (ast.Assign, ast.AnnAssign)) and binds[0].value is not None:
            return _is_source_text(P, binds[0].value, fi, field, depth + 1)
    return False


def _source_field_problems(P: "Ctx", field: str) -> list[str]:
    """Writers of ``<x>.field`` in the module that store something other than source text / None / a copy of the field."""
    bad = []
    n = 0
    for g in P.m.functions.values():
        if g.is_lambda:
            continue
        for st in walk_local(g.node):
            tgt = st.targets[0] if isinstance(st, ast.Assign) and len(st.targets) == 1 else getattr(st, "target", None)
            if isinstance(st, (ast.Assign, ast.AnnAssign)) and isinstance(tgt, ast.Attribute) and tgt.attr == field and st.value is not None:
                n += 1
                if not _is_source_text(P, st.value, g, field):
                    bad.append(f"{g.qualname}: `{short(st, 50)}`")
    if n == 0:
        bad.append("no writer found")
    return bad


def _default_truth(t: ast.expr, _depth: int = 0) -> bool | None:
    """Truth of a condition in a render() call without options (str(root)): `kwargs.get(<name>)` is None there."""
    if _depth > 4:
        return None
    if isinstance(t, ast.Name):
        fi = enclosing_function(t)
        if fi is not None and not fi.is_lambda and t.id in fi.params and t.id != "self" and len(_bindings(fi, t.id)) == 1:
            d = _param_default(fi, t.id)
            if isinstance(d, ast.Constant):
                return bool(d.value)  # an option of render() that a plain render() / str() call leaves at its default
        v = _single_local_value(t)
        return _default_truth(v, _depth + 1) if v is not None else None
    if isinstance(t, ast.Call) and isinstance(t.func, ast.Attribute) and t.func.attr == "get" and isinstance(t.func.value, ast.Name) and 1 <= len(t.args) <= 2:
        fi = enclosing_function(t)
        kw = fi.node.args.kwarg.arg if fi is not None and not fi.is_lambda and fi.node.args.kwarg is not None else None
        if kw and t.func.value.id == kw:
            if len(t.args) == 1:
                return False
            if isinstance(t.args[1], ast.Constant):
                return bool(t.args[1].value)
        return None
    if isinstance(t, ast.UnaryOp) and isinstance(t.op, ast.Not):
        v = _default_truth(t.operand, _depth + 1)
        return None if v is None else not v
    if isinstance(t, ast.BoolOp):
        vals = [_default_truth(v, _depth + 1) for v in t.values]
        if isinstance(t.op, ast.And):
            if any(v is False for v in vals):
                return False
            return True if all(v is True for v in vals) else None
        if any(v is True for v in vals):
            return True
        return False if all(v is False for v in vals) else None
    return None


def _template(e: ast.expr) -> list:
    """[('lit', str) | ('hole', expr)] for string-building expressions."""
    e = _resolve_name(e)
    if isinstance(e, ast.Constant) and isinstance(e.value, str):
        parts = [("lit", e.value)]
    elif isinstance(e, ast.JoinedStr):
        parts = []
        for v in e.values:
            if isinstance(v, ast.Constant):
                parts.append(("lit", v.value))
            elif isinstance(v, ast.FormattedValue) and v.conversion == -1 and v.format_spec is None:
                vv = _resolve_name(v.value)
                parts += _template(vv) if isinstance(vv, (ast.Constant, ast.JoinedStr)) else [("hole", vv)]
            else:
                raise Unsupported(f"formatted value with conversion/spec: {short(v, 40)}")
    elif isinstance(e, ast.BinOp) and isinstance(e.op, ast.Add):
        parts = _template(e.left) + _template(e.right)
    elif _alt_source(e) is not None:
        # `self.<source text> or <rebuilt form>`: the rebuilt form is what is compared with the source form of the event;
        # that the field only ever holds source text is checked separately (_ALT_FIELDS)
        _ALT_FIELDS.add(_alt_source(e)[0])
        parts = _template(_alt_source(e)[1])
    elif isinstance(e, ast.IfExp) and _default_truth(e.test) is not None:
        parts = _template(e.body if _default_truth(e.test) else e.orelse)  # decided for a plain render() / str() call
    elif isinstance(e, (ast.Attribute, ast.Name, ast.Call, ast.IfExp)):
        parts = [("hole", e)]
    else:
        raise Unsupported(f"string expression not understood: {short(e, 50)}")
    out: list = []
    for kind, v in parts:
        if kind == "lit":
            if not v:
                continue
            if out and out[-1][0] == "lit":
                out[-1] = ("lit", out[-1][1] + v)
                continue
        out.append((kind, v))
    return out


def _render_return(P: Ctx, ci: ClassInfo) -> tuple[FunctionInfo, ast.Return]:
    r = P.c.lookup_method(ci, "render")
    if r is None:
        raise AnchorMissing(f"{ci.fq}.render not found")
    cfg = get_cfg(r)
    opts = set(r.params) - {"self"}
    rets = []
    for n in walk_local(r.node):
        if isinstance(n, ast.Return):
            if any(pol and any(isinstance(x, ast.Name) and x.id in opts for x in ast.walk(t)) for t, pol in cfg.guards(n)):
                continue  # caller-supplied override branch
            rets.append(n)
    if len(rets) != 1 or rets[0].value is None:
        if any(isinstance(n, ast.Raise) for n in walk_local(r.node)) and not rets:
            raise Unsupported(f"{ci.fq}: render is abstract (raises) although the class is instantiated")
        raise Unsupported(f"{r.fq}: {len(rets)} default return statements")
    return r, rets[0]


def _hole_kind(P: Ctx, e: ast.expr, fields: dict[str, str]) -> str:
    if _is_self_attr(e) and e.attr in fields:
        return fields[e.attr]
    if isinstance(e, ast.IfExp) and isinstance(e.body, ast.Constant) and isinstance(e.orelse, ast.Constant):
        if _is_self_attr(e.test) and fields.get(e.test.attr) == "attrs" and e.body.value == " " and e.orelse.value == "":
            return "sep"
    if isinstance(e, ast.Call) and isinstance(e.func, ast.Attribute) and e.func.attr == "join" and isinstance(e.func.value, ast.Constant) and e.func.value.value == "" and len(e.args) == 1:
        g = e.args[0]
        if isinstance(g, (ast.GeneratorExp, ast.ListComp)) and len(g.generators) == 1 and not g.generators[0].ifs:
            gen = g.generators[0]
            it = gen.iter
            src_ok = _is_name(it, "self") or _is_self_attr(it, "_children") or _is_self_attr(it, "children")
            elt = g.elt
            if src_ok and isinstance(gen.target, ast.Name) and isinstance(elt, ast.Call) and isinstance(elt.func, ast.Attribute) and elt.func.attr == "render" and _is_name(elt.func.value, gen.target.id):
                return "children"
    return f"other:{short(e, 40)}"


def _shape(P: Ctx, ci: ClassInfo) -> tuple[list, FunctionInfo, ast.Return]:
    r, ret = _render_return(P, ci)
    init = _init_fields(P, ci)
    fields = {}
    for idx, (fld, how) in init.items():
        fields[fld] = {"name": "name", "attrs": "attrs", "data": "data"}.get(fld, fld)
    # role names by constructor position: terminal -> data; tags -> name, attrs
    roles: dict[str, str] = {}
    if P.c.lookup_method(ci, "__init__").cls.fq == P.element.fq:
        for idx, role in ((0, "name"), (1, "attrs")):
            if idx in init:
                roles[init[idx][0]] = role
    else:
        if 0 in init:
            roles[init[0][0]] = "data"
    shape = []
    for kind, v in _template(ret.value):
        if kind == "hole" and isinstance(v, ast.Call) and isinstance(v.func, ast.Attribute) and _is_name(v.func.value, "self") and v.func.attr not in ("render", "join"):
            helper = P.c.lookup_method(ci, v.func.attr)
            if helper is not None and not helper.is_generator():
                shape.append(_expand_start_helper(P, helper, v, roles, init))
                continue
        shape.append(("lit", v) if kind == "lit" else _hole_kind(P, v, roles))
    return shape, r, ret


def _expand_start_helper(P: Ctx, helper: FunctionInfo, call: ast.Call, roles: dict[str, str], init: dict) -> tuple:
    """('start', <field returned verbatim when it is not None> | None, <shape of the fallback template>) for a string helper
    such as `_render_start(close)`: `if self.raw is not None: return self.raw` + `return f"<{name}..{close}"`."""
    cfg = get_cfg(helper)
    rets = sorted((n for n in walk_local(helper.node) if isinstance(n, ast.Return)), key=lambda n: n.lineno)
    rawfield = None
    fallback = None
    for r in rets:
        gs = cfg.guards(r)
        if _is_self_attr(r.value) and any(isinstance(t, ast.Compare) and len(t.ops) == 1 and isinstance(t.ops[0], (ast.IsNot, ast.Is)) and pol == isinstance(t.ops[0], ast.IsNot) and unparse(t.left) == unparse(r.value) and isinstance(t.comparators[0], ast.Constant) and t.comparators[0].value is None for t, pol in gs):
            if rawfield is not None:
                raise Unsupported(f"{helper.fq}: several verbatim returns")
            rawfield = r.value.attr
        elif r.value is not None and fallback is None:
            fallback = r
        else:
            raise Unsupported(f"{helper.fq}: return `{short(r, 40)}`")
    if fallback is None:
        raise Unsupported(f"{helper.fq}: no template return")
    params = [p for p in helper.params if p != "self"]
    fb = []
    for kind, v in _template(fallback.value):
        if kind == "hole" and isinstance(v, ast.Name) and v.id in params and len(_bindings(helper, v.id)) == 1:
            act = _actual(call, helper, v.id) or _param_default(helper, v.id)
            if not (isinstance(act, ast.Constant) and isinstance(act.value, str)):
                raise Unsupported(f"{helper.fq}: argument for {v.id} is not a string literal")
            if fb and fb[-1][0] == "lit":
                fb[-1] = ("lit", fb[-1][1] + act.value)
            else:
                fb.append(("lit", act.value))
        elif kind == "lit" and fb and isinstance(fb[-1], tuple) and fb[-1][0] == "lit":
            fb[-1] = ("lit", fb[-1][1] + v)
        else:
            fb.append(("lit", v) if kind == "lit" else _hole_kind(P, v, roles))
    return ("start", rawfield, fb)


def _fmt_shape(shape: list) -> str:
    out = []
    for x in shape:
        if isinstance(x, tuple) and x[0] == "start":
            out.append("{" + (f"self.{x[1]} if not None, else " if x[1] else "") + _fmt_shape(x[2]) + "}")
        else:
            out.append(repr(x[1]) if isinstance(x, tuple) else "{" + x + "}")
    return " ".join(out)


def _judge_tag(P: Ctx, rep: Report, key: str, em: Emit, kind: str, event: str) -> bool:
    """Shape of a tag node class.  Returns True when the start tag is re-emitted from the source text:
    the render starts with a helper that returns a stored field verbatim, and the callback feeds that field from
    self.get_starttag_text() unchanged."""
    shape, r, ret = _shape(P, em.cls)
    site = r.module.site(ret)
    expected = _expected_tag_shape(kind)
    verbatim = False
    if shape and isinstance(shape[0], tuple) and shape[0][0] == "start":
        _, rawfield, fb = shape[0]
        init = _init_fields(P, em.cls)
        fed = [i for i in em.source_args if init.get(i) == (rawfield, "plain")] if rawfield else []
        if fed:
            verbatim = True
            got, want = shape[1:], expected[5:]
            if got == want:
                rep.ok("C16.R3", key, site, f"{em.cls.name}.render = {{source text of the start tag}} {_fmt_shape(got)}".rstrip())
                rep.listed("C16.R3", key + "|fallback template", site, f"for elements built without source text: {_fmt_shape(fb)} (not on the path of a parsed tree)")
                return True
            shape = [("lit", "<source start tag>")] + got
            expected = [("lit", "<source start tag>")] + want
        else:
            shape = fb + shape[1:]
    if shape == expected:
        rep.ok("C16.R3", key, site, f"{em.cls.name}.render = {_fmt_shape(shape)}")
        return verbatim
    others = [x for x in shape if isinstance(x, str) and x.startswith("other:")]
    if others:
        raise Unsupported(f"{r.fq}: template part {others[0][6:]} not understood")
    rep.violation("C16.R3", key, site, f"{event} builds a {em.cls.name}, whose render() emits {_fmt_shape(shape)} but the source form of that event is {_fmt_shape(expected)}: well-formed input is not reproduced")
    return verbatim


def _expected_tag_shape(kind: str) -> list:
    lits, children = TAG_SHAPES[kind]
    out = [("lit", lits[0]), "name", "sep", "attrs", ("lit", lits[1])]
    if children:
        out += ["children", ("lit", lits[2]), "name", ("lit", lits[3])]
    return out


def _judge_shape(P: Ctx, rep: Report, key: str, ci: ClassInfo, expected: list, event: str) -> None:
    shape, r, ret = _shape(P, ci)
    site = r.module.site(ret)
    if shape == expected:
        rep.ok("C16.R3", key, site, f"{ci.name}.render = {_fmt_shape(shape)}")
        return
    others = [x for x in shape if isinstance(x, str) and x.startswith("other:")]
    if others:
        raise Unsupported(f"{r.fq}: template part {others[0][6:]} not understood")
    rep.violation(
        "C16.R3",
        key,
        site,
        f"{event} builds a {ci.name}, whose render() emits {_fmt_shape(shape)} but the source form of that event is {_fmt_shape(expected)}: well-formed input is not reproduced",
    )


@rule("C16.R3")
def r3_callbacks_and_delimiters(corpus: Corpus, rep: Report, tier: str):
    rep.rule("C16.R3", "every HTMLParser callback is overridden and produces its node; each node class re-emits exactly what the stdlib stripped (start tags from the source text, ';' only where the source has one, marked-section brackets); values arrive verbatim; void set; charrefs kept")
    P = _ctx(corpus)
    hp, mb, std = _stdlib(corpus)
    rep.saw_sibling(hp.rel)
    rep.saw_sibling(mb.rel)
    cbmap = _callback_map(P)
    strips = _stdlib_strips(corpus)
    void_attr, void_set = _void_elements(P)
    _ALT_FIELDS.clear()
    # (a) exhaustiveness
    for name in _stdlib_callbacks(corpus):
        key = f"{P.parser.fq}.{name}|overrides the stdlib callback"
        if name in P.parser.methods:
            rep.ok("C16.R3", key, P.parser.methods[name].site())
        else:
            rep.violation("C16.R3", key, P.m.site(P.parser.node), f"HTMLParser.{name} is not overridden: the stdlib default discards the event (for handle_startendtag: degrades `<x/>` to start+end), so that markup vanishes from the tree and from the rendering")
    # (b) terminals
    for name, (pre, suf, why) in TERMINAL_EVENTS.items():
        if name not in P.parser.methods:
            continue
        cb = P.parser.methods[name]
        rep.saw_function(cb.fq)
        key = f"{cb.fq}|node class re-emits {pre!r}..{suf!r}"
        # the table row against the stdlib
        cands = strips.get(name, [])
        conf = [c for c in cands if pre in c["prefixes"] and (name == "handle_data" or c["suffix"] == suf or (isinstance(c["suffix"], tuple) and suf and _class_accepts(c["suffix"][1], suf)))]
        if not conf:
            rep.error("C16.R3", f"stdlib no longer strips {pre!r}..{suf!r} before {name} (call sites seen: {[(sorted(c['prefixes']), c['raw']) for c in cands]}): delimiter table row cannot be confirmed")
            continue
        for c in cands:
            if c not in conf:
                rep.listed("C16.R3", f"stdlib|{name}({c['raw']})", c["site"], f"non-canonical emission (strips {sorted(c['prefixes'])}): malformed/bogus markup, outside the well-formed grammar")
        ems = [e for e in cbmap.get(name, []) if e.cls is not None]
        exp = ([("lit", pre)] if pre else []) + ["data"] + ([("lit", suf)] if suf else [])
        # does the stdlib call this callback whatever character ends the construct (charref / entityref)?
        permissive = [c for c in conf if isinstance(c["suffix"], tuple) and any(_class_accepts(c["suffix"][1], ch) for ch in " =T<") ]
        if permissive and suf:
            _judge_reference(P, rep, cb, name, pre, suf, key, exp, ems)
            continue
        if len(ems) != 1:
            raise Unsupported(f"{cb.fq}: expected exactly one node construction, found {len(ems)}")
        em = ems[0]
        _judge_no_drop(P, rep, em, name)
        _judge_verbatim(P, rep, em, name, {0: "data"})
        _judge_shape(P, rep, key, em.cls, exp, name)
    _judge_marked_sections(P, rep, cbmap, mb)
    # (c) tags
    verbatim_tags: list[bool] = []
    if "handle_starttag" in P.parser.methods:
        cb = P.parser.methods["handle_starttag"]
        rep.saw_function(cb.fq)
        ems = [e for e in cbmap.get("handle_starttag", []) if e.cls is not None]
        seen = set()
        for em in ems:
            pol = _void_polarity(em, void_attr)
            if pol is None:
                raise Unsupported(f"{cb.fq}: `{short(em.call, 40)}` is not guarded by a membership test on self.{void_attr}")
            kind = "void" if pol else "element"
            seen.add(kind)
            _judge_no_drop(P, rep, em, "handle_starttag", f"handle_starttag[{kind}]", allow=void_attr)
            _judge_verbatim(P, rep, em, f"handle_starttag[{kind}]", {0: "name", 1: "attrs"})
            verbatim_tags.append(_judge_tag(P, rep, f"{cb.fq}|{kind} branch re-emits {TAG_SHAPES[kind][0]}", em, kind, f"handle_starttag ({kind} branch)"))
        if seen != {"void", "element"}:
            raise Unsupported(f"{cb.fq}: void / non-void branches not both found ({sorted(seen)})")
    if "handle_startendtag" in P.parser.methods:
        cb = P.parser.methods["handle_startendtag"]
        rep.saw_function(cb.fq)
        ems = [e for e in cbmap.get("handle_startendtag", []) if e.cls is not None]
        if len(ems) != 1:
            raise Unsupported(f"{cb.fq}: expected exactly one node construction")
        _judge_no_drop(P, rep, ems[0], "handle_startendtag")
        _judge_verbatim(P, rep, ems[0], "handle_startendtag", {0: "name", 1: "attrs"})
        verbatim_tags.append(_judge_tag(P, rep, f"{cb.fq}|self-closing form re-emits ['<', '/>']", ems[0], "selfclosing", "handle_startendtag"))
    # root
    init_fns = [P.tree.methods["__init__"]] + _tree_callees(P, P.tree.methods["__init__"])  # __init__ may delegate to clear()
    root = []
    for ci in P.hier:
        if any(isinstance(n, ast.Call) and P.hier_class_named(n.func, f) is ci for f in init_fns for n in walk_local(f.node)) and ci not in root:
            root.append(ci)
    if len(root) != 1:
        raise Unsupported("Tree.__init__ does not construct exactly one root element")
    _judge_shape(P, rep, f"{root[0].fq}|root renders its children only", root[0], ["children"], "the document root")
    # fields rendered as `self.F or <rebuilt form>` must only ever hold source text
    for fld in sorted(_ALT_FIELDS):
        key = f"{P.element.fq}.{fld}|only source text is stored"
        probs = _source_field_problems(P, fld)
        if probs:
            rep.violation("C16.R3", key, P.m.site(P.element.node), f"render() emits `self.{fld}` in place of the rebuilt markup, but {probs[0]} stores something that is not a piece of the parsed text: the rendering no longer reproduces the source")
        else:
            rep.ok("C16.R3", key, P.m.site(P.element.node), "every writer stores None, a slice of self.rawdata, get_starttag_text() or a copy of the field")
    _judge_end_tags(P, rep, cbmap, hp)
    _judge_posthoc_writes(P, rep, hp, mb)
    _judge_trailing_ampersand(P, rep, hp)
    _judge_inherited_lexical_rules(P, rep, hp, mb, std)
    # (d) void elements
    key = f"{P.parser.fq}.{void_attr}|covers the WHATWG void elements"
    missing = [v for v in WHATWG_VOID + tuple(LEGACY_VOID) if v not in void_set]
    if missing:
        rep.violation("C16.R3", key, P.m.site(P.parser.node), f"void element(s) {missing} missing from {void_attr}: `<{missing[0]}>` is opened as a container, swallows the following siblings and is rendered with a closing tag")
    else:
        rep.ok("C16.R3", key, P.m.site(P.parser.node), f"{len(void_set)} names, superset of the 13 WHATWG void elements + {sorted(LEGACY_VOID)}")
    # (e) character references are reported, not converted
    _judge_convert_charrefs(P, rep, std)
    # (f) attribute serialisation
    if verbatim_tags and all(verbatim_tags):
        # every parsed start tag is copied from the source: Attribute.__str__ is not on the path of a parsed tree
        tmp = Report(rep.prop, rep.tier, quiet=True)
        try:
            _judge_attribute_str(P, tmp, hp)
        except (Unsupported, AnchorMissing) as e:
            tmp.listed("C16.R3", f"{P.attribute.fq}.__str__|not analysed", P.m.site(P.attribute.node), str(e))
        key = f"{P.attribute.fq}.__str__|attribute serialisation is off the path of parsed trees"
        rep.ok("C16.R3", key, P.m.site(P.attribute.node), "Tag / VoidTag / XTag re-emit get_starttag_text(); Attribute.__str__ only serves elements built without source text")
        for it in tmp.items:
            rep.listed("C16.R3", it.key, it.site, f"[{it.status}, not judged] {it.what}"[:300])
    else:
        _judge_attribute_str(P, rep, hp)
    rep.expect_min("C16.R3", 20, "9 overrides + 6 terminal rows (x2) + 3 tag shapes (x2) + root + void set + charrefs + attribute form on the pinned tree")


def _judge_end_tags(P: Ctx, rep: Report, cbmap: dict, hp) -> None:
    """html.parser lower-cases the name of an end tag and drops the white space before '>': the end tag of a parsed element
    can only be reproduced from its source text, stored by the closing function from a slice of the buffer."""
    pe = hp.functions.get("HTMLParser.parse_endtag")
    if pe is None:
        raise AnchorMissing("stdlib HTMLParser.parse_endtag not found")
    lowers = [n for n in walk_local(pe.node) if isinstance(n, ast.Call) and isinstance(n.func, ast.Attribute) and n.func.attr == "lower" and not n.args]
    void_attr, _ = _void_elements(P)
    boxes = [e for e in cbmap.get("handle_starttag", []) if e.cls is not None and _void_polarity(e, void_attr) is False]
    if len(boxes) != 1:
        raise Unsupported("container element class not found")
    box = boxes[0].cls
    r, ret = _render_return(P, box)
    key = f"{r.fq}|end tags are re-emitted from the source text"
    site = r.module.site(ret)
    if not lowers:
        rep.ok("C16.R3", key, site, "the installed html.parser reports end tag names as written")
        return
    # the part of the template that writes the end tag: `self.F or f"</{self.name}>"`
    fld = None
    for n in ast.walk(ret.value):
        alt = _alt_source(n) if isinstance(n, (ast.BoolOp, ast.IfExp)) else None
        if alt is not None:
            tpl = _template(alt[1])
            if len(tpl) == 3 and tpl[0] == ("lit", "</") and tpl[2] == ("lit", ">"):
                fld = alt[0]
    if fld is None:
        rep.violation("C16.R3", key, site, f"{box.name}.render rebuilds the end tag from the name html.parser reports, which is lower-cased ({hp.rel}:{lowers[0].lineno}) and has lost the white space before '>': `<DIV>x</DIV>` is rendered `<DIV>x</div>`, `<p>x</p >` as `<p>x</p>`")
        return
    # the closing function stores it on the element it closes, from a parameter the callback feeds with a slice of the buffer
    pops = [e.tm for e in cbmap.get("handle_endtag", []) if e.cls is None]
    stores = [(f, st) for f in pops for st in walk_local(f.node) if isinstance(st, ast.Assign) and len(st.targets) == 1 and isinstance(st.targets[0], ast.Attribute) and st.targets[0].attr == fld]
    if not stores:
        rep.violation("C16.R3", key, site, f"{box.name}.render prefers self.{fld}, but the closing function never stores it: every end tag is still rebuilt from the lower-cased name (`<DIV>x</DIV>` -> `</div>`)")
        return
    problems = []
    cb = P.parser.methods.get("handle_endtag")
    oa = _offset_attr(P)
    for f, st in stores:
        v = st.value
        if not (isinstance(v, ast.Name) and v.id in f.params):
            raise Unsupported(f"{f.fq}: `{short(st, 50)}`")
        for em in cbmap.get("handle_endtag", []):
            if em.tm.fq != f.fq:
                continue
            act = _actual(em.call, f, v.id)
            act = _inline_locals(em.to_cb_terms(act), cb) if act is not None else None
            if act is None:
                problems.append(f"handle_endtag does not pass the source text of the end tag to {f.name}()")
            elif not _rawdata_slice(act):
                problems.append(f"handle_endtag passes `{short(act, 40)}`, which is not a slice of the parsed text")
            else:
                lo, up = act.slice.lower, act.slice.upper
                lo_ok = lo is not None and _is_self_attr(lo) and oa is not None and lo.attr == oa
                up_ok = (
                    isinstance(up, ast.BinOp) and isinstance(up.op, ast.Add) and isinstance(up.right, ast.Constant) and up.right.value == 1
                    and isinstance(up.left, ast.Call) and isinstance(up.left.func, ast.Attribute) and up.left.func.attr in ("find", "index") and _is_self_attr(up.left.func.value, "rawdata")
                    and len(up.left.args) == 2 and isinstance(up.left.args[0], ast.Constant) and up.left.args[0].value == ">" and unparse(up.left.args[1]) == unparse(lo)
                ) if lo is not None else False
                if not lo_ok:
                    problems.append(f"the slice does not start at the start of the construct (`{short(lo, 30) if lo is not None else ''}`; the updatepos override stores it in self.{oa})")
                elif not up_ok:
                    problems.append(f"the slice does not end just after the first '>' (`{short(up, 40) if up is not None else ''}`)")
    if problems:
        rep.violation("C16.R3", key, cb.site() if cb else site, "; ".join(problems) + ": the end tag written back is not the one in the source")
    else:
        rep.ok("C16.R3", key, site, f"self.{fld} = rawdata[start : first '>' + 1], stored by {', '.join(f.qualname for f, _ in stores)}")


def _reads_open_element(P: Ctx, e: ast.expr, fi: FunctionInfo) -> bool:
    """Does the expression go through the current open element (a call of a Tree method that returns the top of the stack)?"""
    for c in ast.walk(e):
        if isinstance(c, ast.Call) and isinstance(c.func, ast.Attribute):
            for t2 in P.g.resolve_call(c, fi):
                if isinstance(t2, FunctionInfo) and t2.cls is not None and t2.cls.fq == P.tree.fq and not t2.is_lambda:
                    rets = [r for r in walk_local(t2.node) if isinstance(r, ast.Return) and r.value is not None]
                    if len(rets) == 1 and _is_top_read(P, rets[0].value, t2):
                        return True
    return False


def _judge_posthoc_writes(P: Ctx, rep: Report, hp, mb) -> None:
    """An override of a stdlib parse_* method that, after calling the inherited method, writes onto the last child of the
    open element (the node that call is supposed to have reported) must do so only when the call did report one: the
    report flag is set and the returned position is not the failure value."""
    for name, fi in P.parser.methods.items():
        sib = hp.functions.get(f"HTMLParser.{name}") or mb.functions.get(f"ParserBase.{name}")
        if sib is None or name.startswith("handle_"):
            continue
        stores = []
        for st in walk_local(fi.node):
            tgt = st.targets[0] if isinstance(st, ast.Assign) and len(st.targets) == 1 else None
            if isinstance(tgt, ast.Attribute) and _reads_open_element(P, tgt.value, fi):
                stores.append(st)
        if not stores:
            continue
        sup = [n for n in walk_local(fi.node) if isinstance(n, ast.Assign) and isinstance(n.value, ast.Call) and dotted(n.value.func) == f"super().{name}" and len(n.targets) == 1 and isinstance(n.targets[0], ast.Name)]
        if len(sup) != 1:
            raise Unsupported(f"{fi.fq}: writes onto the last child without a single `x = super().{name}(...)`")
        jv = sup[0].targets[0].id
        # what the inherited method does: failure value(s) it returns before reporting, and the flag that guards the report
        scfg = get_cfg(sib)
        handler_calls = [c for c in walk_local(sib.node) if isinstance(c, ast.Call) and isinstance(c.func, ast.Attribute) and _is_name(c.func.value, "self") and c.func.attr.startswith(("handle_", "unknown_decl"))]
        if not handler_calls:
            raise Unsupported(f"stdlib {name}: no handler call found")
        fails = set()
        for r in walk_local(sib.node):
            if isinstance(r, ast.Return) and r.value is not None and not any(scfg.dominates(scfg.stmt_of(c), r) for c in handler_calls):
                try:
                    fails.add(ast.literal_eval(r.value))
                except ValueError:
                    pass
        flags = set()
        sparams = [p_ for p_ in sib.params if p_ != "self"]
        oparams = [p_ for p_ in fi.params if p_ != "self"]
        for c in handler_calls:
            for t, pol in scfg.guards(scfg.stmt_of(c)):
                if pol and isinstance(t, ast.Name) and t.id in sparams and sparams.index(t.id) < len(oparams):
                    flags.add(oparams[sparams.index(t.id)])
        cfg = get_cfg(fi)
        posparams = {p_ for p_ in oparams if p_ not in flags}
        for st in stores:
            key = f"{fi.fq}|the last child is written only when the inherited {name} reported a node"
            gs = cfg.guards(st)
            missing = []
            for fl in sorted(flags):
                if not any(pol and _is_name(t, fl) for t, pol in gs):
                    missing.append(f"the `{fl}` flag is not tested (with {fl}=0 html.parser reports nothing)")
            for fv in sorted(fails):
                excluded = False
                for t, pol in gs:
                    if isinstance(t, ast.Compare) and len(t.ops) == 1 and _is_name(t.left, jv):
                        r_ = t.comparators[0]
                        if isinstance(r_, ast.Name) and r_.id in posparams and isinstance(t.ops[0], (ast.Gt, ast.GtE)) and pol and isinstance(fv, int) and fv < 0:
                            excluded = True  # a position parameter is >= 0
                        elif isinstance(r_, ast.Constant) and isinstance(r_.value, int) or (isinstance(r_, ast.UnaryOp) and isinstance(r_.op, ast.USub) and isinstance(r_.operand, ast.Constant)):
                            rv = ast.literal_eval(r_)
                            res = {ast.Gt: fv > rv, ast.GtE: fv >= rv, ast.Lt: fv < rv, ast.LtE: fv <= rv, ast.Eq: fv == rv, ast.NotEq: fv != rv}.get(type(t.ops[0]))
                            if res is not None and res != pol:
                                excluded = True
                if not excluded:
                    missing.append(f"the result `{jv}` is not tested against {fv!r}, which html.parser returns when the construct is unterminated and nothing was reported")
            if missing:
                rep.violation("C16.R3", key, fi.module.site(st), f"`{short(st, 60)}`: " + "; ".join(missing) + " - the write hits whatever element happens to be the last child (its source text is overwritten and rendered instead of it) or raises IndexError when there is none")
            else:
                rep.ok("C16.R3", key, fi.module.site(st), f"guarded by {', '.join(sorted(flags))} and a test of `{jv}` that excludes {sorted(fails)}")


class _StrEval:
    """Concrete evaluation of a guard over one sample string bound to a name and a value for self.cdata_elem."""

    def __init__(self, fi: FunctionInfo, var: str, sample: str, cdata):
        self.fi, self.var, self.sample, self.cdata = fi, var, sample, cdata

    def ev(self, e: ast.expr):
        if isinstance(e, ast.Constant):
            return e.value
        if _is_name(e, self.var):
            return self.sample
        if _is_self_attr(e, "cdata_elem"):
            return self.cdata
        if _is_self_attr(e, "rawdata"):
            return self.sample
        if isinstance(e, ast.BoolOp):
            v = None
            for x in e.values:
                v = self.ev(x)
                if bool(v) != isinstance(e.op, ast.And):
                    return v
            return v
        if isinstance(e, ast.UnaryOp) and isinstance(e.op, ast.Not):
            return not self.ev(e.operand)
        if isinstance(e, ast.Subscript):
            v = self.ev(e.value)
            if isinstance(v, str):
                try:
                    if isinstance(e.slice, ast.Slice):
                        lo = self.ev(e.slice.lower) if e.slice.lower else None
                        hi = self.ev(e.slice.upper) if e.slice.upper else None
                        return v[lo:hi]
                    return v[self.ev(e.slice)]
                except IndexError:
                    raise _Stops("IndexError")
        if isinstance(e, ast.UnaryOp) and isinstance(e.op, ast.USub):
            return -self.ev(e.operand)
        if isinstance(e, ast.Compare) and len(e.ops) == 1:
            l, r, op = self.ev(e.left), self.ev(e.comparators[0]), e.ops[0]
            if isinstance(op, (ast.Is, ast.IsNot)):
                return (l is r) == isinstance(op, ast.Is)
            table = {ast.Eq: lambda: l == r, ast.NotEq: lambda: l != r, ast.In: lambda: l in r, ast.NotIn: lambda: l not in r, ast.Lt: lambda: l < r, ast.LtE: lambda: l <= r, ast.Gt: lambda: l > r, ast.GtE: lambda: l >= r}
            if type(op) in table:
                return table[type(op)]()
        if isinstance(e, ast.Call):
            if dotted(e.func) == "len" and len(e.args) == 1:
                return len(self.ev(e.args[0]))
            if isinstance(e.func, ast.Attribute) and e.func.attr in ("fullmatch", "match") and isinstance(e.func.value, ast.Name) and e.func.value.id in self.fi.module.const_nodes and len(e.args) == 1:
                # a module-level compiled pattern: matched here on the regex *tree*, one single-character item per position
                items = _regex_items(self.fi.module, e.func.value.id)
                text = self.ev(e.args[0])
                if isinstance(text, str):
                    if len(text) < len(items) or (e.func.attr == "fullmatch" and len(text) != len(items)):
                        return None
                    for it, ch in zip(items, text):
                        ok = (chr(it[1]) == ch) if it[0] is sre_c.LITERAL else _class_accepts(it, ch)
                        if not ok:
                            return None
                    return True
            if isinstance(e.func, ast.Attribute) and e.func.attr in ("isascii", "isalpha", "isalnum", "islower", "isupper", "isdigit", "isspace", "startswith", "endswith", "lower", "upper", "strip"):
                v = self.ev(e.func.value)
                if isinstance(v, str):
                    return getattr(v, e.func.attr)(*[self.ev(a) for a in e.args])  # a str method on the checker's own sample
        raise Unsupported(f"{self.fi.fq}: guard term `{short(e, 40)}`")


def _judge_trailing_ampersand(P: Ctx, rep: Report, hp) -> None:
    """With close() at the end of feed(): html.parser's goahead(end=True) steps over an '&' whose incomplete-reference match
    is the whole buffered rest ('AT&T') without calling a handler, so feed() must report exactly those rests itself."""
    feed = P.parser.methods.get("feed")
    if feed is None:
        return
    closes = [n for n in walk_local(feed.node) if isinstance(n, ast.Call) and dotted(n.func) == "self.close" and not n.args]
    key = f"{feed.fq}|a final '&' + letter is reported before close()"
    if not closes:
        rep.ok("C16.R3", key, feed.site(), "feed() does not call close(): nothing is stepped over")
        return
    ga = hp.functions.get("HTMLParser.goahead")
    if ga is None:
        raise AnchorMissing("stdlib HTMLParser.goahead not found")
    # the quirk in the sibling: `if end and match.group() == rawdata[i:]` ... `i = self.updatepos(i, i + 1)` and no handler call
    quirk = None
    for n in walk_local(ga.node):
        if isinstance(n, ast.If) and "match.group() == rawdata[i:]" in unparse(n.test) and "end" in {x.id for x in ast.walk(n.test) if isinstance(x, ast.Name)}:
            calls = [c for st in n.body for c in ast.walk(st) if isinstance(c, ast.Call) and isinstance(c.func, ast.Attribute) and _is_name(c.func.value, "self")]
            if any(c.func.attr == "updatepos" for c in calls) and not any(c.func.attr.startswith("handle_") for c in calls):
                quirk = n
    if quirk is None:
        rep.ok("C16.R3", key, feed.site(), "the installed html.parser does not step over a trailing '&' silently")
        return
    inc = _regex_items(hp, "incomplete")
    if len(inc) != 2 or inc[0] != (sre_c.LITERAL, ord("&")):
        raise Unsupported("stdlib regex `incomplete` is not '&' + one character class")
    cfg = get_cfg(feed)
    close_stmt = cfg.stmt_of(closes[0])
    # the guard sits in feed() itself or in a private helper that feed() calls (as a statement) on the way to close()
    homes: list[FunctionInfo] = [feed]
    for st in walk_local(feed.node):
        if isinstance(st, ast.Expr) and isinstance(st.value, ast.Call) and isinstance(st.value.func, ast.Attribute) and _is_name(st.value.func.value, "self") and not st.value.args and cfg.dominates(st, close_stmt):
            h = P.parser.methods.get(st.value.func.attr)
            if h is not None and h.fq != feed.fq and h not in homes:
                homes.append(h)
    cands = []
    for home in homes:
        hcfg = get_cfg(home)
        for n in walk_local(home.node):
            if isinstance(n, ast.If) and not n.orelse and (hcfg.dominates(n, close_stmt) if home is feed else hcfg.loops.get(n) is None):
                hd = [c for st in n.body for c in ast.walk(st) if isinstance(c, ast.Call) and dotted(c.func) == "self.handle_data" and len(c.args) == 1]
                sets_ = [st for st in n.body if isinstance(st, ast.Assign) and len(st.targets) == 1 and _is_self_attr(st.targets[0], "rawdata")]
                amp_lit = any(isinstance(x, ast.Constant) and x.value == "&" for x in ast.walk(n.test))
                if hd and (amp_lit or sets_) and not any(isinstance(x, ast.Constant) and x.value == "&#" for x in ast.walk(n.test)):
                    cands.append((n, hd[0], home))
    if not cands:
        rep.violation("C16.R3", key, feed.site(), f"feed() ends with close(), and html.parser's goahead(end=True) ({hp.rel}:{quirk.lineno}) steps over an '&' that is followed by one last letter without calling a handler: tokenize_html('AT&T') renders 'ATT'")
        return
    if len(cands) != 1:
        raise Unsupported(f"{feed.fq}: several candidate guards for the trailing '&'")
    guard, hd, home = cands[0]
    names = {x.id for x in ast.walk(guard.test) if isinstance(x, ast.Name)} - {"self", "len"} - set(home.module.const_nodes)
    if len(names) > 1:
        raise Unsupported(f"{home.fq}: the guard `{short(guard.test, 50)}` is not over one local")
    # a guard that mentions no local (a constant, self.rawdata itself) is evaluated as it is; the reported name then stands for the rest
    var = next(iter(names), hd.args[0].id if isinstance(hd.args[0], ast.Name) else "<none>")
    last = [b for b in _bindings(home, var) if isinstance(b, ast.Assign) and _is_self_attr(b.value, "rawdata")] if names else [None]
    if not last:
        raise Unsupported(f"{feed.fq}: `{var}` is not bound to self.rawdata")
    problems = []
    samples = ["&a", "&T", "&z", "&Z", "&m", "&1", "&é", "&&", "& ", "ab", "&", "&ab", "", "a&"]
    for cd in (None, "script"):
        for sm in samples:
            want = cd is None and len(sm) == 2 and sm[0] == "&" and sm[1] != "#" and _class_accepts(inc[1], sm[1])
            try:
                got = bool(_StrEval(home, var, sm, cd).ev(guard.test))
            except _Stops as e:
                problems.append(f"the guard raises {e.why} for a buffered rest {sm!r}")
                break
            if got != want and not problems:
                problems.append(f"for a buffered rest {sm!r}{' inside <script>' if cd else ''} the guard is {got}, but html.parser {'steps over' if want else 'does not step over'} that '&'" + (" - it is reported twice or not at all" if not want else " - it is lost"))
    # what is reported, and what is left for close()
    arg = hd.args[0]
    sets = [st for st in guard.body if isinstance(st, ast.Assign) and len(st.targets) == 1 and _is_self_attr(st.targets[0], "rawdata")]
    whole = _is_name(arg, var)
    amp = (isinstance(arg, ast.Constant) and arg.value == "&") or (isinstance(arg, ast.Subscript) and _is_name(arg.value, var) and isinstance(arg.slice, ast.Constant) and arg.slice.value == 0)
    if not sets:
        problems.append("the buffer is not shortened after the report: close() reports the letter a second time ('AT&T' -> 'AT&TT')")
    elif whole and not (isinstance(sets[0].value, ast.Constant) and sets[0].value.value == ""):
        problems.append(f"the whole rest is reported but the buffer becomes `{short(sets[0].value, 30)}`")
    elif amp and not (isinstance(sets[0].value, ast.Subscript) and _is_name(sets[0].value.value, var) and unparse(sets[0].value.slice) == "1:"):
        problems.append(f"'&' is reported but the buffer becomes `{short(sets[0].value, 30)}` instead of the rest after it")
    elif not whole and not amp:
        raise Unsupported(f"{feed.fq}: handle_data({short(arg, 30)}) in the trailing-'&' branch")
    if problems:
        rep.violation("C16.R3", key, feed.module.site(guard), "; ".join(problems[:2]))
    else:
        rep.ok("C16.R3", key, feed.module.site(guard), f"`{short(guard.test, 60)}` is true exactly for '&' + one of html.parser's `incomplete` letters outside raw-text mode; the rest is handed to handle_data and taken out of the buffer")


# raw-text elements of HTML (WHATWG 13.1.2): script, style (raw text) and textarea, title (escapable raw text)
RAW_TEXT_ELEMENTS = ("script", "style", "textarea", "title")


def _judge_inherited_lexical_rules(P: Ctx, rep: Report, hp, mb, std: ClassInfo) -> None:
    """Lexical rules HtmlToAst inherits unchanged from the interpreter's tokenizer and that differ from HTML."""
    site = P.m.site(P.parser.node)
    # comment / marked-section terminators
    for what, meth, mod, rx, exact, example in (
        ("comment", "parse_comment", mb, "_commentclose", "-->", "`<!-- a -- > b -->` ends at `-- >`: `b -->` becomes live markup"),
        ("marked section", "parse_marked_section", mb, "_markedsectionclose", "]]>", "`<![CDATA[ a ] ]> b ]]>` ends at `] ]>`"),
    ):
        key = f"{P.parser.fq}|{what} terminator is exactly {exact!r}"
        own = P.parser.methods.get(meth)
        inherits = own is None or any(isinstance(c, ast.Call) and dotted(c.func) == f"super().{meth}" for c in walk_local(own.node))
        if not inherits:
            rep.ok("C16.R3", key, site, f"{meth} is re-implemented in HtmlToAst")
            continue
        items = _regex_items(mod, rx)
        loose = [it for it in items if it[0] is not sre_c.LITERAL]
        if _min_literal(items) == exact and not loose:
            rep.ok("C16.R3", key, site, f"the installed {mod.rel} ends a {what} at {exact!r} only")
        else:
            rep.violation("C16.R3", key, site, f"HtmlToAst inherits {meth} from {mod.rel}, whose terminator `{rx}` admits white space inside {exact!r}: {example} and is re-rendered differently")
    # raw-text elements
    key = f"{P.parser.fq}|raw-text elements cover textarea and title"
    own_attr = any(isinstance(st, (ast.Assign, ast.AnnAssign)) and "CDATA_CONTENT_ELEMENTS" in unparse(st.targets[0] if isinstance(st, ast.Assign) else st.target) for st in P.parser.node.body)
    if own_attr or "set_cdata_mode" in P.parser.methods:
        raise Unsupported("HtmlToAst defines its own raw-text elements / set_cdata_mode")
    val = None
    for st in std.node.body:
        if isinstance(st, ast.Assign) and len(st.targets) == 1 and _is_name(st.targets[0], "CDATA_CONTENT_ELEMENTS"):
            val = hp.eval_const(st.value)
    if val is None:
        raise AnchorMissing("stdlib HTMLParser.CDATA_CONTENT_ELEMENTS not found")
    missing = [x for x in RAW_TEXT_ELEMENTS if x not in val]
    rcdata = [st for st in std.node.body if isinstance(st, ast.Assign) and "RCDATA" in unparse(st.targets[0])]
    if missing and not rcdata:
        rep.violation("C16.R3", key, site, f"html.parser ({hp.rel}) switches to raw-text mode only for {sorted(val)}: the text content of {missing} is tokenised as markup - `<textarea><b></textarea>` renders `<textarea><b></b></textarea>` and find('input') returns an `<input>` written as text inside a <textarea>")
    else:
        rep.ok("C16.R3", key, site, f"raw-text elements of the installed html.parser: {sorted(val)}" + (" + RCDATA elements" if rcdata else ""))


def _offset_attr(P: Ctx) -> str | None:
    """Attribute that an `updatepos(i, j)` override of the parser sets to j (the start of the construct being handled)."""
    up = P.parser.methods.get("updatepos")
    if up is None:
        return None
    params = [p for p in up.params if p != "self"]
    if len(params) != 2:
        return None
    for n in walk_local(up.node):
        if isinstance(n, ast.Assign) and len(n.targets) == 1 and _is_self_attr(n.targets[0]) and _is_name(n.value, params[1]):
            return n.targets[0].attr
    return None


def _judge_reference(P: Ctx, rep: Report, cb: FunctionInfo, name: str, pre: str, suf: str, key: str, exp: list, ems: list[Emit]) -> None:
    """handle_charref / handle_entityref: the stdlib reports the reference whatever character ends it, so the terminator
    `suf` may only be written where the source has it; otherwise prefix + name must come back verbatim."""
    key2 = f"{cb.fq}|{suf!r} is written only where the source has one"
    site = cb.site()
    with_suffix = [e for e in ems if 0 in e.argmap]
    plain = [e for e in ems if 0 not in e.argmap]
    if len(with_suffix) != 1 or len(plain) > 1:
        raise Unsupported(f"{cb.fq}: expected one node for the terminated reference and at most one for the unterminated one, found {len(with_suffix)} / {len(plain)}")
    A = with_suffix[0]
    _judge_verbatim(P, rep, A, name, {0: "data"})
    _judge_shape(P, rep, key, A.cls, exp, name)
    gA = A.inner_guards() + A.guards()
    tests = [t for t, pol in gA if pol and isinstance(t, ast.Call) and isinstance(t.func, ast.Attribute) and t.func.attr == "startswith" and _is_self_attr(t.func.value, "rawdata")]
    key_nd = f"{cb.fq}|{name}: every event produces a node"
    if not plain and not tests:
        if gA:
            raise Unsupported(f"{cb.fq}: conditions {[short(t, 30) for t, _ in gA]}")
        rep.ok("C16.R3", key_nd, site, "unconditional")
        rep.violation("C16.R3", key2, site, f"html.parser calls {name}() whatever character ends the name (its regex ends in a character class, not in {suf!r}), but {A.cls.name}.render always appends {suf!r}: `<p>AT&T</p>` is rendered as `<p>AT&T;</p>`, `x&y=1` as `x&y;=1`")
        return
    if len(tests) != 1 or not plain:
        raise Unsupported(f"{cb.fq}: the terminated / unterminated split is not a test of self.rawdata.startswith({suf!r}, ...)")
    G = tests[0]
    B = plain[0]
    gB = B.inner_guards() + B.guards()
    if not any(t is G and not pol for t, pol in gB) or len(gA) != 1 or len(gB) != 1:
        raise Unsupported(f"{cb.fq}: the two branches are not the two outcomes of `{short(G, 40)}`")
    rep.ok("C16.R3", key_nd, site, f"one node on either outcome of `{short(G, 50)}`")
    problems = []
    if not (len(G.args) == 2 and isinstance(G.args[0], ast.Constant) and G.args[0].value == suf):
        problems.append(f"the test looks for {unparse(G.args[0]) if G.args else '?'} instead of {suf!r}")
    else:
        off = A.to_cb_terms(_inline_locals(G.args[1], A.site_fi()))
        terms = []
        work = [off]
        while work:
            x = work.pop()
            if isinstance(x, ast.BinOp) and isinstance(x.op, ast.Add):
                work += [x.left, x.right]
            else:
                terms.append(x)
        oa = _offset_attr(P)
        kinds = []
        payload = A.argmap[0]
        for x in terms:
            if _is_self_attr(x) and oa and x.attr == oa:
                kinds.append("start")
            elif isinstance(x, ast.Call) and dotted(x.func) == "len" and len(x.args) == 1 and isinstance(x.args[0], ast.Constant) and x.args[0].value == pre:
                kinds.append("prefix")
            elif isinstance(x, ast.Constant) and x.value == len(pre):
                kinds.append("prefix")
            elif isinstance(x, ast.Call) and dotted(x.func) == "len" and len(x.args) == 1 and _is_name(x.args[0], payload):
                kinds.append("name")
            else:
                raise Unsupported(f"{cb.fq}: offset term `{short(x, 30)}` in `{short(G, 50)}`")
        if sorted(kinds) != ["name", "prefix", "start"]:
            problems.append(f"the position tested is not start-of-construct + len({pre!r}) + len(name) (terms: {sorted(kinds)})")
    # the unterminated branch: a verbatim node holding prefix + name
    bshape, _, _ = _shape(P, B.cls)
    btpl = _template(B.argexpr[0]) if 0 in B.argexpr else []
    want = [("lit", pre), ("hole", A.argmap[0])]
    got = [(k, v if k == "lit" else (v.id if isinstance(v, ast.Name) else unparse(v))) for k, v in btpl]
    if bshape != ["data"]:
        problems.append(f"the unterminated reference is stored in a {B.cls.name}, which renders {_fmt_shape(bshape)}")
    elif got != want:
        problems.append(f"the unterminated reference is stored as {_fmt_tpl(btpl)} instead of {pre!r} + the name")
    if problems:
        rep.violation("C16.R3", key2, cb.module.site(G), f"{name}: " + "; ".join(problems) + f" - html.parser reports a reference whatever character ends it, so `AT&T` / `x&y=1` must come back without an added {suf!r}")
    else:
        rep.ok("C16.R3", key2, cb.module.site(G), f"{A.cls.name} only behind `{short(G, 50)}`; otherwise {B.cls.name}({pre!r} + name)")


def _marked_section_terminators(mb) -> list[tuple[frozenset, str]]:
    """[(keywords, terminator literal)] read from _markupbase.ParserBase.parse_marked_section."""
    fn = mb.functions.get("ParserBase.parse_marked_section")
    if fn is None:
        raise AnchorMissing("stdlib _markupbase.ParserBase.parse_marked_section not found")
    cfg = get_cfg(fn)
    out = []
    for n in walk_local(fn.node):
        if isinstance(n, ast.Assign) and isinstance(n.value, ast.Call) and isinstance(n.value.func, ast.Attribute) and n.value.func.attr == "search" and isinstance(n.value.func.value, ast.Name) and n.value.func.value.id in mb.const_nodes:
            lit = _min_literal(_regex_items(mb, n.value.func.value.id))
            for t, pol in cfg.guards(n):
                if pol and isinstance(t, ast.Compare) and len(t.ops) == 1 and isinstance(t.ops[0], ast.In) and isinstance(t.comparators[0], (ast.Set, ast.Tuple, ast.List)):
                    kws = frozenset(e.value for e in t.comparators[0].elts if isinstance(e, ast.Constant))
                    out.append((kws, lit))
    if len(out) < 2:
        raise Unsupported(f"stdlib parse_marked_section: terminator table not understood ({out})")
    return out


def _judge_marked_sections(P: Ctx, rep: Report, cbmap: dict, mb) -> None:
    """unknown_decl gets the text between '<![' and the terminator (']]>' or ']>'): both must be written back."""
    cb = P.parser.methods.get("unknown_decl")
    if cb is None:
        return  # reported by the exhaustiveness clause
    key = f"{cb.fq}|marked sections re-emit '<![' .. ']]>' / ']>'"
    strips = [c for c in _stdlib_strips(P.c).get("unknown_decl", [])]
    pres = set().union(*(c["prefixes"] for c in strips)) if strips else set()
    if len(pres) != 1:
        raise Unsupported(f"stdlib: prefix stripped before unknown_decl not understood ({sorted(pres)})")
    (pre,) = pres
    table = _marked_section_terminators(mb)
    ems = [e for e in cbmap.get("unknown_decl", []) if e.cls is not None]
    if len(ems) != 1 or ems[0].guards() or ems[0].inner_guards():
        raise Unsupported(f"{cb.fq}: expected exactly one unconditional node construction")
    em = ems[0]
    payload = cb.params[1] if len(cb.params) > 1 else None
    shape, r, ret = _shape(P, em.cls)
    if "data" not in shape or any(not isinstance(x, tuple) and x != "data" for x in shape):
        raise Unsupported(f"{r.fq}: template {_fmt_shape(shape)}")
    k = shape.index("data")
    cls_pre = "".join(x[1] for x in shape[:k])
    cls_suf = "".join(x[1] for x in shape[k + 1:])
    if 0 in em.argmap:
        arg_tpl = [("hole", ast.Name(id=em.argmap[0], ctx=ast.Load()))]
    elif 0 in em.argexpr:
        arg_tpl = _template(_inline_locals(em.argexpr[0], cb))
    else:
        raise Unsupported(f"{cb.fq}: payload of {em.cls.name} not found")
    # split the payload template around the callback's parameter
    idx = [i for i, (kd, v) in enumerate(arg_tpl) if kd == "hole" and _is_name(v, payload)]
    if len(idx) != 1:
        raise Unsupported(f"{cb.fq}: payload `{_fmt_tpl(arg_tpl)}` does not contain the reported text exactly once")
    head, tail = arg_tpl[: idx[0]], arg_tpl[idx[0] + 1:]
    if any(kd != "lit" for kd, _ in head):
        raise Unsupported(f"{cb.fq}: text before the reported part `{_fmt_tpl(head)}`")
    got_pre = cls_pre + "".join(v for _, v in head)
    # the tail: literals and at most one two-way choice between literals
    alts: dict[bool | None, str] = {None: ""}
    selector = None
    for kd, v in tail:
        if kd == "lit":
            alts = {c: t + v for c, t in alts.items()}
        elif isinstance(v, ast.IfExp) and isinstance(v.body, ast.Constant) and isinstance(v.orelse, ast.Constant) and selector is None:
            selector = _inline_locals(v.test, cb)
            base = alts[None]
            alts = {True: base + v.body.value, False: base + v.orelse.value}
        else:
            raise Unsupported(f"{cb.fq}: text after the reported part `{short(v, 40)}`")
    got = {c: t + cls_suf for c, t in alts.items()}
    site = cb.module.site(em.call)
    want_lits = {lit for _, lit in table}
    problems = []
    if got_pre != pre:
        problems.append(f"the section is re-opened with {got_pre!r}, html.parser strips {pre!r}")
    if selector is None:
        problems.append(f"the terminator written is always {got[None]!r}, html.parser strips {sorted(want_lits)} depending on the keyword")
    else:
        kws = None
        if isinstance(selector, ast.Compare) and len(selector.ops) == 1 and isinstance(selector.ops[0], ast.In):
            coll = _const_collection(P, selector.comparators[0])
            if coll is not None:
                kws = frozenset(coll)
        if kws is None:
            raise Unsupported(f"{cb.fq}: terminator selected by `{short(selector, 40)}`")
        where = _keyword_cut(selector.left, payload)
        if where is None:
            raise Unsupported(f"{cb.fq}: keyword of the marked section derived by `{short(selector.left, 50)}`")
        if where[0] != "first":
            problems.append(f"the keyword is cut out of the reported text at the *last* {where[1]!r} (`{short(selector.left, 50)}`); html.parser scans the name that follows '<![': a section whose body contains {where[1]!r}, e.g. `<![CDATA[a[0]]]>`, gets the wrong terminator")
        elif where[1] != "[":
            problems.append(f"the keyword is cut at {where[1]!r}; the section body starts at '['")
        if not where[2]:
            problems.append("the keyword is compared without lower-casing; html.parser lower-cases the scanned name (`<![cdata[x]]>`)")
        match = [lit for k2, lit in table if k2 == kws]
        other = [lit for k2, lit in table if k2 != kws]
        if not match:
            problems.append(f"the keyword set {sorted(kws)} is none of html.parser's {[sorted(k2) for k2, _ in table]}")
        else:
            if got[True] != match[0]:
                problems.append(f"sections with keyword in {sorted(kws)} are closed with {got[True]!r}, html.parser strips {match[0]!r}")
            if any(got[False] != o for o in other):
                problems.append(f"the other sections are closed with {got[False]!r}, html.parser strips {other}")
    if problems:
        rep.violation("C16.R3", key, site, "unknown_decl: " + "; ".join(problems) + " - `<![CDATA[x<y]]>` is rendered as `<!CDATA[x<y>` (its content becomes live markup) and `<![if !IE]>` as `<!if !IE>`")
    else:
        rep.ok("C16.R3", key, site, f"{got_pre!r} .. " + " / ".join(repr(t) for t in got.values()))


def _const_collection(P: Ctx, e: ast.expr) -> set | None:
    """Value of a constant collection of strings used in a membership test: a literal, a module-level constant
    (also wrapped in set()/frozenset(), unions), or a class attribute of the parser that aliases one (`self.X`, `HtmlToAst.X`)."""
    if isinstance(e, ast.Attribute) and isinstance(e.value, ast.Name) and (e.value.id in ("self", "cls") or e.value.id == P.parser.name):
        for st in P.parser.node.body:
            tgt = st.targets[0] if isinstance(st, ast.Assign) and len(st.targets) == 1 else getattr(st, "target", None)
            if isinstance(st, (ast.Assign, ast.AnnAssign)) and _is_name(tgt, e.attr) and st.value is not None:
                return _const_collection(P, st.value)
        return None
    try:
        v = _eval_names(P.m, e)
    except (Unsupported, AnchorMissing):
        return None
    if isinstance(v, (set, frozenset, tuple, list)) and all(isinstance(x, str) for x in v):
        return set(v)
    return None


def _keyword_cut(e: ast.expr, payload: str) -> tuple[str, str, bool] | None:
    """('first' | 'last', separator, lower-cased?) if ``e`` is the part of the payload before the first / last separator,
    possibly stripped and lower-cased: split/partition/index/find versus rsplit/rpartition/rindex/rfind."""
    lowered = False
    while isinstance(e, ast.Call) and isinstance(e.func, ast.Attribute) and e.func.attr in ("strip", "rstrip", "lstrip", "lower", "casefold") and not e.args:
        lowered = lowered or e.func.attr in ("lower", "casefold")
        e = e.func.value
    if isinstance(e, ast.Subscript) and isinstance(e.slice, ast.Constant) and e.slice.value == 0 and isinstance(e.value, ast.Call) and isinstance(e.value.func, ast.Attribute):
        c = e.value
        base = c.func.value
        low_in = False
        while isinstance(base, ast.Call) and isinstance(base.func, ast.Attribute) and base.func.attr in ("strip", "lstrip", "lower", "casefold") and not base.args:
            low_in = low_in or base.func.attr in ("lower", "casefold")
            base = base.func.value
        if _is_name(base, payload) and c.args and isinstance(c.args[0], ast.Constant) and isinstance(c.args[0].value, str):
            sep = c.args[0].value
            if c.func.attr in ("split", "partition"):
                return ("first", sep, lowered or low_in)
            if c.func.attr in ("rsplit", "rpartition"):
                # rsplit without maxsplit still yields the first piece at index 0
                if c.func.attr == "rsplit" and len(c.args) == 1 and not c.keywords:
                    return ("first", sep, lowered or low_in)
                return ("last", sep, lowered or low_in)
    if isinstance(e, ast.Subscript) and isinstance(e.slice, ast.Slice) and e.slice.lower is None and _is_name(e.value, payload):
        up = e.slice.upper
        if isinstance(up, ast.Call) and isinstance(up.func, ast.Attribute) and _is_name(up.func.value, payload) and up.args and isinstance(up.args[0], ast.Constant):
            if up.func.attr in ("index", "find"):
                return ("first", up.args[0].value, lowered)
            if up.func.attr in ("rindex", "rfind"):
                return ("last", up.args[0].value, lowered)
    return None


def _inline_locals(e: ast.expr, fi: FunctionInfo) -> ast.expr:
    """Replace locals of ``fi`` that are bound once (outside loops) by their value expression, recursively."""
    def value_of(name: str):
        b = _bindings(fi, name)
        if len(b) == 1 and isinstance(b[0], (ast.Assign, ast.AnnAssign)) and b[0].value is not None and name not in fi.params:
            return b[0].value
        return None

    class Sub(ast.NodeTransformer):
        depth = 0

        def visit_Name(self, node):
            if isinstance(node.ctx, ast.Load) and self.depth < 6:
                v = value_of(node.id)
                if v is not None:
                    self.depth += 1
                    out = self.visit(_clone(v))
                    self.depth -= 1
                    return out
            return node

    return Sub().visit(_clone(e))


def _eval_names(mod, e: ast.expr):
    """Module.eval_const plus set union/difference (`BASE | {...}`, `A - B`)."""
    if isinstance(e, ast.BinOp) and isinstance(e.op, (ast.BitOr, ast.Sub)):
        l, r = _eval_names(mod, e.left), _eval_names(mod, e.right)
        if all(isinstance(x, (set, frozenset)) for x in (l, r)):
            return set(l) | set(r) if isinstance(e.op, ast.BitOr) else set(l) - set(r)
        raise Unsupported("set operator on non-sets")
    if isinstance(e, ast.Call) and dotted(e.func) in ("set", "frozenset") and len(e.args) == 1:
        v = _eval_names(mod, e.args[0])
        return set(v)
    return mod.eval_const(e)


# Can the payload of an event be the empty string / consist of white space only for well-formed input?  (ctor argument index)
PAYLOAD_CAN_BE = {
    "handle_data": {0: {"empty": False, "blank": True}},  # goahead() only reports i < j; white space between tags is data
    "handle_comment": {0: {"empty": True, "blank": True}},  # <!----> and <!-- -->
    "handle_pi": {0: {"empty": True, "blank": True}},  # <?> and <? >
    "handle_decl": {0: {"empty": False, "blank": False}},  # starts with 'doctype'
    "handle_charref": {0: {"empty": False, "blank": False}},  # regex requires digits
    "handle_entityref": {0: {"empty": False, "blank": False}},  # regex requires a letter
    "handle_starttag": {0: {"empty": False, "blank": False}, 1: {"empty": True, "blank": False}},  # tag name / attribute list (often empty)
    "handle_startendtag": {0: {"empty": False, "blank": False}, 1: {"empty": True, "blank": False}},
}


def _payload_pred(test: ast.expr, pol: bool, names: set[str]) -> tuple[str, str] | None:
    """(param, 'empty' | 'blank') if `test == pol` says that the named payload is empty / white space only."""
    t = test
    while isinstance(t, ast.UnaryOp) and isinstance(t.op, ast.Not):
        t, pol = t.operand, not pol
    if isinstance(t, ast.Name) and t.id in names:
        return (t.id, "empty") if not pol else None
    if isinstance(t, ast.Call) and dotted(t.func) == "len" and len(t.args) == 1 and _is_name(t.args[0]) and t.args[0].id in names:
        return (t.args[0].id, "empty") if not pol else None
    if isinstance(t, ast.Call) and isinstance(t.func, ast.Attribute) and isinstance(t.func.value, ast.Name) and t.func.value.id in names and not t.args:
        if t.func.attr == "isspace":
            return (t.func.value.id, "blank") if pol else None
        if t.func.attr in ("strip", "lstrip", "rstrip"):
            return (t.func.value.id, "blank") if not pol else None  # `not data.strip()`: empty or blank
    if isinstance(t, ast.Compare) and len(t.ops) == 1 and isinstance(t.ops[0], (ast.Eq, ast.NotEq)):
        l, r = t.left, t.comparators[0]
        if isinstance(l, ast.Constant):
            l, r = r, l
        if isinstance(r, ast.Constant) and r.value in ("", 0):
            eq = isinstance(t.ops[0], ast.Eq) == pol
            if isinstance(l, ast.Name) and l.id in names and r.value == "":
                return (l.id, "empty") if eq else None
            if isinstance(l, ast.Call) and dotted(l.func) == "len" and l.args and _is_name(l.args[0]) and l.args[0].id in names and r.value == 0:
                return (l.args[0].id, "empty") if eq else None
            if isinstance(l, ast.Call) and isinstance(l.func, ast.Attribute) and l.func.attr == "strip" and _is_name(l.func.value) and l.func.value.id in names and r.value == "":
                return (l.func.value.id, "blank") if eq else None
    return None


def _judge_no_drop(P: Ctx, rep: Report, em: Emit, event: str, label: str | None = None, allow: str | None = None) -> None:
    """Every event of this kind produces its node: no path through the callback or the Tree method skips the construction
    under a condition that well-formed input can satisfy."""
    label = label or event
    key = f"{em.cb.fq}|{label}: every event produces a node"
    site = em.cb.module.site(em.call)
    table = PAYLOAD_CAN_BE.get(event)
    if table is None:
        raise Unsupported(f"no payload table for {event}")
    cbparams = [p for p in em.cb.params if p != "self"]
    drops: list[tuple[str, FunctionInfo, ast.expr, bool, dict[str, int]]] = []
    # (a) conditions under which the callback does not reach the Tree call
    for t, pol in em.guards():
        if allow and any(_is_self_attr(x, allow) for x in ast.walk(t)):
            continue  # the void / non-void dispatch itself
        drops.append(("callback", em.cb, t, not pol, {p: i for i, p in enumerate(cbparams)}))
    # (b) paths through the Tree method that return without building the node
    _simulate(P, em.tm)
    tmidx: dict[str, int] = {}
    if em.ctor is not None:
        for i, a in enumerate(em.ctor.args):
            if isinstance(a, ast.Name):
                tmidx[a.id] = i
    for guards in em.tm.__dict__.get("_c16_drop_paths", []):
        if not guards:
            rep.violation("C16.R3", key, em.tm.site(), f"{em.tm.qualname} returns without building a node: every {event} event is dropped from the tree and from the rendering")
            return
        if len(guards) != 1:
            raise Unsupported(f"{em.tm.fq}: a node is skipped under a compound condition {[short(g[0], 30) for g in guards]}")
        drops.append(("tree", em.tm, guards[0][0], guards[0][1], tmidx))
    resolved = []
    for where, f, t, pol, idx in drops:
        # `klass is Data and <payload test>`: the class conjunct is decided by the node class of this event
        if pol and isinstance(t, ast.BoolOp) and isinstance(t.op, ast.And):
            rest, feasible = [], True
            for c in t.values:
                cls_test = None
                if isinstance(c, ast.Compare) and len(c.ops) == 1 and isinstance(c.ops[0], (ast.Is, ast.Eq, ast.IsNot, ast.NotEq)) and isinstance(c.left, ast.Name) and c.left.id in f.params:
                    ci = P.hier_class_named(c.comparators[0], f)
                    tp = P.g.local_types(f).get(c.left.id)
                    if ci is not None and tp and tp[0] == "type" and em.cls is not None:
                        cls_test = (ci.fq == em.cls.fq) == isinstance(c.ops[0], (ast.Is, ast.Eq))
                if cls_test is None:
                    rest.append(c)
                elif not cls_test:
                    feasible = False
            if not feasible:
                continue
            if len(rest) == 1:
                t = rest[0]
            elif not rest:
                rep.violation("C16.R3", key, f.module.site(t), f"{f.qualname} skips the node for every {event} event (`{short(t, 40)}`)")
                return
        resolved.append((where, f, t, pol, idx))
    drops = resolved
    for where, f, t, pol, idx in drops:
        pred = _payload_pred(t, pol, set(idx))
        if pred is None:
            raise Unsupported(f"{f.fq}: the node for {event} is skipped when `{'' if pol else 'not '}{short(t, 40)}`: condition not understood")
        pname, kind = pred
        can = table.get(idx[pname])
        if can is None:
            raise Unsupported(f"{f.fq}: `{pname}` is not a payload of {event}")
        if can[kind] or (kind == "blank" and can["empty"]):
            ex = {"handle_comment": "`<!---->`", "handle_pi": "`<?>`", "handle_data": "the white space between two tags", "handle_starttag": "`<p>` (no attributes)", "handle_startendtag": "`<br/>` (no attributes)"}.get(event, "such input")
            rep.violation("C16.R3", key, f.module.site(t), f"{f.qualname} skips the node when `{'' if pol else 'not '}{short(t, 40)}` ({pname} is {'empty' if kind == 'empty' else 'empty or white space'}): well-formed input delivers such a {event} event ({ex}), which is then missing from the tree and from the rendering")
            return
    rep.ok("C16.R3", key, site, "unconditional" if not drops else f"{len(drops)} guard(s), none satisfiable by a well-formed {event} event")


def _void_elements(P: Ctx) -> tuple[str, set]:
    """The class-level collection of names that handle_starttag tests its tag against (falls back to the one holding 'br')."""
    cands: dict[str, set] = {}
    for st in P.parser.node.body:
        tgt = st.targets[0] if isinstance(st, ast.Assign) and len(st.targets) == 1 else getattr(st, "target", None)
        val = getattr(st, "value", None)
        if isinstance(st, (ast.Assign, ast.AnnAssign)) and isinstance(tgt, ast.Name) and val is not None:
            try:
                v = _eval_names(P.m, val)
            except Unsupported:
                continue
            if isinstance(v, (set, frozenset, tuple, list)) and all(isinstance(x, str) for x in v):
                cands[tgt.id] = set(v)
    hs = P.parser.methods.get("handle_starttag")
    used = []
    if hs is not None:
        for n in walk_local(hs.node):
            if isinstance(n, ast.Compare) and len(n.ops) == 1 and isinstance(n.ops[0], (ast.In, ast.NotIn)) and _is_self_attr(n.comparators[0]) and n.comparators[0].attr in cands:
                used.append(n.comparators[0].attr)
    for name in used + [k for k, v in cands.items() if "br" in v]:
        return name, cands[name]
    raise AnchorMissing("HtmlToAst: class-level collection of void element names not found")


def _void_polarity(em: Emit, void_attr: str) -> bool | None:
    pname = em.cb.params[1] if len(em.cb.params) > 1 else None
    for t, pol in em.guards():
        if isinstance(t, ast.Compare) and len(t.ops) == 1 and _is_name(t.left, pname) and _is_self_attr(t.comparators[0], void_attr):
            if isinstance(t.ops[0], ast.In):
                return pol
            if isinstance(t.ops[0], ast.NotIn):
                return not pol
    return None


def _judge_verbatim(P: Ctx, rep: Report, em: Emit, event: str, roles: dict[int, str]) -> None:
    key = f"{em.cb.fq}|{event}: arguments reach the node unchanged"
    site = em.cb.module.site(em.call)
    init = _init_fields(P, em.cls)
    problems = [m for i, m in sorted(em.transformed.items()) if i in roles]
    cbparams = [p for p in em.cb.params if p != "self"]
    for idx, role in roles.items():
        if idx not in em.argmap:
            if not problems:
                problems.append(f"the {role} argument is not forwarded to {em.cls.name}(...)")
            continue
        if cbparams.index(em.argmap[idx]) != idx:
            problems.append(f"{em.cls.name}'s {role} is fed from the callback's `{em.argmap[idx]}`")
        fld = init.get(idx)
        if fld is None:
            problems.append(f"{em.cls.name}.__init__ does not store its {role} argument")
        elif fld[1].startswith("changed"):
            problems.append(f"{em.cls.name}.__init__ stores {fld[1][8:]} instead of the {role} it was given")
    if problems:
        rep.violation("C16.R3", key, site, f"{event}: " + "; ".join(problems) + " - the text the stdlib delivered is altered before it is stored, so render() cannot reproduce the source")
    else:
        rep.ok("C16.R3", key, site, f"{event} -> {em.tm.name} -> {em.cls.name}({', '.join(em.argmap[i] for i in sorted(em.argmap))})")


def _param_default(fi: FunctionInfo, name: str):
    a = fi.node.args
    pos = a.posonlyargs + a.args
    d = dict(zip([x.arg for x in reversed(pos)], reversed(a.defaults)))
    d.update({k.arg: v for k, v in zip(a.kwonlyargs, a.kw_defaults) if v is not None})
    return d.get(name)


def _judge_convert_charrefs(P: Ctx, rep: Report, std: ClassInfo) -> None:
    key = f"{P.parser.fq}|character references are reported, not converted"
    sinit = std.methods.get("__init__")
    sd = _param_default(sinit, "convert_charrefs") if sinit is not None else None
    if sinit is None or sd is None:
        raise Unsupported("stdlib HTMLParser.__init__ has no convert_charrefs default")
    init = P.parser.methods.get("__init__")
    tok = P.m.func("tokenize_html")
    site = (init or tok).site()

    def falsy_flow(fi: FunctionInfo, e: ast.expr | None) -> str | None:
        """None if the expression is False by default; else a description."""
        if e is None:
            return "convert_charrefs is not passed on, so the callee's default applies"
        if isinstance(e, ast.Constant):
            return None if e.value is False else f"convert_charrefs={e.value!r}"
        if isinstance(e, ast.Name) and e.id in fi.params and len(_bindings(fi, e.id)) == 1:
            d = _param_default(fi, e.id)
            if isinstance(d, ast.Constant) and d.value is False:
                return None
            return f"parameter {e.id} of {fi.qualname} does not default to False"
        raise Unsupported(f"{fi.fq}: convert_charrefs value {short(e, 40)}")

    problems = []
    if init is None:
        if isinstance(sd, ast.Constant) and sd.value:
            problems.append("HtmlToAst has no __init__: the stdlib default convert_charrefs=True applies")
    else:
        sup = [n for n in walk_local(init.node) if isinstance(n, ast.Call) and dotted(n.func) == "super().__init__"]
        if len(sup) != 1:
            raise Unsupported(f"{init.fq}: super().__init__ call not found")
        val = next((k.value for k in sup[0].keywords if k.arg == "convert_charrefs"), None)
        if val is None and isinstance(sd, ast.Constant) and not sd.value:
            pass
        else:
            p = falsy_flow(init, val)
            if p:
                problems.append(p + (" (stdlib default: True)" if val is None else ""))
    ctor = [n for n in walk_local(tok.node) if isinstance(n, ast.Call) and P.c.find_class(tok.module.resolve(dotted(n.func) or "")) is not None and P.c.find_class(tok.module.resolve(dotted(n.func) or "")).fq == P.parser.fq]
    via = None  # (helper, call in tokenize_html) when the parser is built by a one-level helper
    if not ctor:
        for call in [n for n in walk_local(tok.node) if isinstance(n, ast.Call)]:
            for t in P.g.resolve_call(call, tok):
                if isinstance(t, FunctionInfo) and not t.is_lambda and t.cls is None:
                    inner = [n for n in walk_local(t.node) if isinstance(n, ast.Call) and P.c.find_class(t.module.resolve(dotted(n.func) or "")) is not None and P.c.find_class(t.module.resolve(dotted(n.func) or "")).fq == P.parser.fq]
                    if len(inner) == 1 and via is None:
                        ctor, via = inner, (t, call)
    if len(ctor) != 1:
        raise Unsupported(f"{tok.fq}: HtmlToAst(...) construction not found")
    if init is not None:
        val = _actual(ctor[0], init, "convert_charrefs")
        if via is not None and isinstance(val, ast.Name) and val.id in via[0].params and len(_bindings(via[0], val.id)) == 1:
            outer = _actual(via[1], via[0], val.id)
            val = outer if outer is not None else _param_default(via[0], val.id)
        elif via is not None and val is not None and not isinstance(val, ast.Constant):
            raise Unsupported(f"{via[0].fq}: convert_charrefs value {short(val, 40)}")
        if val is not None:
            p = falsy_flow(tok, val)
            if p:
                problems.append(p)
        else:
            d = _param_default(init, "convert_charrefs")
            if not (isinstance(d, ast.Constant) and d.value is False):
                problems.append("HtmlToAst.__init__'s convert_charrefs does not default to False")
    if problems:
        rep.violation("C16.R3", key, site, "; ".join(problems) + ": with conversion on, `&amp;`/`&#65;` arrive as already-unescaped data, no Char/Entity node is built and the source text cannot be reproduced")
    else:
        rep.ok("C16.R3", key, site, "convert_charrefs is False by default on the whole path tokenize_html -> HtmlToAst -> HTMLParser")


def _judge_attribute_str(P: Ctx, rep: Report, hp) -> None:
    fi = P.attribute.methods.get("__str__")
    if fi is None:
        raise AnchorMissing("Attribute.__str__ not found")
    rep.saw_function(fi.fq)
    rets = [n for n in walk_local(fi.node) if isinstance(n, ast.Return)]
    if len(rets) != 1:
        raise Unsupported(f"{fi.fq}: {len(rets)} return statements")
    v = rets[0].value
    site = fi.module.site(rets[0])
    if not (isinstance(v, ast.Call) and isinstance(v.func, ast.Attribute) and v.func.attr == "join" and isinstance(v.func.value, ast.Constant) and len(v.args) == 1 and isinstance(v.args[0], (ast.GeneratorExp, ast.ListComp)) and len(v.args[0].generators) == 1):
        raise Unsupported(f"{fi.fq}: not a join over a comprehension")
    gen = v.args[0].generators[0]
    if not (isinstance(gen.target, ast.Tuple) and len(gen.target.elts) == 2 and all(isinstance(e, ast.Name) for e in gen.target.elts) and unparse(gen.iter) == "self.items()" and not gen.ifs):
        raise Unsupported(f"{fi.fq}: comprehension is not `for key, value in self.items()`")
    kname, vname = (e.id for e in gen.target.elts)
    elt = _resolve_name(v.args[0].elt)
    none_branch = None
    if isinstance(elt, ast.IfExp):
        # a separate form for value-less attributes (value None, `<input disabled>`): outside the grammar, allowed -
        # but every *string* value, the empty one included, must still take the name="value" branch
        t = elt.test
        neg = False
        while isinstance(t, ast.UnaryOp) and isinstance(t.op, ast.Not):
            t, neg = t.operand, not neg
        str_branch = None
        if isinstance(t, ast.Compare) and len(t.ops) == 1 and _is_name(t.left, vname) and isinstance(t.comparators[0], ast.Constant) and t.comparators[0].value is None and isinstance(t.ops[0], (ast.Is, ast.IsNot, ast.Eq, ast.NotEq)):
            is_none_when_true = isinstance(t.ops[0], (ast.Is, ast.Eq)) != neg
            str_branch = elt.orelse if is_none_when_true else elt.body
            none_branch = elt.body if is_none_when_true else elt.orelse
        elif _is_name(t, vname):
            truthy_when_true = not neg
            other = elt.orelse if truthy_when_true else elt.body
            key = f"{fi.fq}|attributes are written as name=\"value\" separated by one space"
            otpl = _template(other)
            # what the falsy branch writes for the empty string: substitute value = ""
            sub: list = []
            for k_, v_ in otpl:
                if k_ == "hole" and _is_name(v_, vname):
                    continue
                if k_ == "hole" and any(_is_name(x, vname) for x in ast.walk(v_)):
                    raise Unsupported(f"{fi.fq}: `{short(v_, 40)}` in the branch for falsy values")
                if k_ == "lit" and sub and sub[-1][0] == "lit":
                    sub[-1] = ("lit", sub[-1][1] + v_)
                else:
                    sub.append((k_, v_))
            if len(sub) == 2 and sub[0][0] == "hole" and _is_name(sub[0][1], kname) and sub[1] == ("lit", '=""'):
                str_branch = elt.body if truthy_when_true else elt.orelse
            else:
                rep.violation("C16.R3", key, site, f"`{short(elt, 70)}` selects the form by the truthiness of the value: an attribute whose double-quoted value is the empty string (`alt=\"\"`) takes the value-less branch and is rendered as {_fmt_tpl(otpl)}, not as `alt=\"\"`")
                return
        if str_branch is None:
            raise Unsupported(f"{fi.fq}: attribute form selected by `{short(elt.test, 40)}`")
        elt = str_branch
    tpl = _template(elt)
    lits = [x[1] for x in tpl if x[0] == "lit"]
    holes = [x[1] for x in tpl if x[0] == "hole"]
    key = f"{fi.fq}|attributes are written as name=\"value\" separated by one space"
    form_ok = v.func.value.value == " " and lits == ['="', '"'] and len(holes) == 2 and [k for k, _ in tpl] == ["hole", "lit", "hole", "lit"] and _is_name(holes[0], kname) and any(_is_name(x, vname) for x in ast.walk(holes[1]))
    if form_ok:
        rep.ok("C16.R3", key, site)
    else:
        rep.violation("C16.R3", key, site, f"attributes are serialised as {v.func.value.value!r}.join({_fmt_tpl(tpl)}): double-quoted `name=\"value\"` pairs separated by one space are not reproduced")
        return
    ps = hp.functions.get("HTMLParser.parse_starttag")
    if ps is None:
        raise AnchorMissing("stdlib HTMLParser.parse_starttag not found")
    # the stdlib reports None for an attribute without a value (`<input disabled>`)
    gives_none = [n for n in walk_local(ps.node) if isinstance(n, ast.Assign) and isinstance(n.value, ast.Constant) and n.value.value is None and any(unparse(t_) == "attrvalue" for t_ in n.targets)]
    keyn = f"{fi.fq}|value-less attributes are written bare"
    if gives_none:
        ntpl = _template(none_branch) if none_branch is not None else None
        if ntpl is not None and len(ntpl) == 1 and ntpl[0][0] == "hole" and _is_name(ntpl[0][1], kname):
            rep.ok("C16.R3", keyn, site, "`value is None` -> the bare name")
        elif ntpl is None:
            rep.violation("C16.R3", keyn, site, f"html.parser reports None for an attribute without a value ({hp.rel}:{gives_none[0].lineno}) and Attribute.__str__ formats it like a string: `<input disabled>` is rendered as `<input disabled=\"None\">`")
        else:
            rep.violation("C16.R3", keyn, site, f"an attribute without a value is rendered as {_fmt_tpl(ntpl)} instead of its bare name: `<input disabled>` is not reproduced")
    # the stdlib unescapes attribute values; the serialiser must escape them again
    # normalisations that no renderer can undo (evidence only)
    for n in walk_local(ps.node):
        if isinstance(n, ast.Call) and isinstance(n.func, ast.Attribute) and n.func.attr == "lower" and not n.args:
            rep.listed("C16.R3", f"stdlib|parse_starttag|{short(n, 40)}", f"{hp.rel}:{n.lineno}", "names are lower-cased by the tokenizer: upper-case spellings are outside the reproducible grammar")
    unesc = [n for n in walk_local(ps.node) if isinstance(n, ast.Assign) and isinstance(n.value, ast.Call) and dotted(n.value.func) == "unescape" and len(n.targets) == 1 and unparse(n.targets[0]) == unparse(n.value.args[0])]
    key = f"{fi.fq}|attribute values unescaped by the stdlib are escaped again on output"
    if not unesc:
        rep.ok("C16.R3", key, site, "the installed stdlib passes attribute values without unescaping")
        return
    h = holes[1]
    if isinstance(h, ast.Name):
        rep.violation(
            "C16.R3",
            key,
            site,
            f"HTMLParser.parse_starttag replaces character/entity references in attribute values ({hp.rel}:{unesc[0].lineno} `{short(unesc[0], 40)}`) but "
            f"Attribute.__str__ writes the value back raw: `<a href=\"?a=1&amp;b=2\">` is rendered as `<a href=\"?a=1&b=2\">`, and a value containing `&quot;` produces broken markup",
        )
        return
    rewritten = _escaped_chars(h, vname, fi)
    if rewritten is None:
        raise Unsupported(f"{fi.fq}: value expression {short(h, 50)}")
    need = {"&", '"'}
    if not rewritten & need:
        rep.violation("C16.R3", key, site, f"`{short(h, 50)}` does not re-escape `&` or `\"`: HTMLParser.parse_starttag replaces character/entity references in attribute values, so `<a href=\"?a=1&amp;b=2\">` is rendered as `<a href=\"?a=1&b=2\">`")
    else:
        rep.ok("C16.R3", key, site, f"value is written through `{short(h, 50)}` (rewrites {sorted(rewritten)})")
    key2 = f"{fi.fq}|attribute escaping rewrites exactly & and \""
    extra, missing = rewritten - need, (need - rewritten) if rewritten & need else set()
    if extra or missing:
        what = []
        if missing:
            what.append(f"{sorted(missing)} is left as it is, so a value containing it (written `&quot;` / `&amp;` in the source) is re-emitted as broken or different markup")
        if extra:
            ex = "'" if "'" in extra else sorted(extra)[0]
            shown = {"'": "alt=\"it's\" -> alt=\"it&#x27;s\"", "<": "title=\"a<b\" -> title=\"a&lt;b\"", ">": "title=\"a>b\" -> title=\"a&gt;b\""}.get(ex, "")
            what.append(f"{sorted(extra)} {'are' if len(extra) > 1 else 'is'} rewritten although legal literally inside a double-quoted value: such values round-trip without the escaper and no longer do ({shown})")
        rep.violation("C16.R3", key2, site, f"`{short(h, 50)}`: " + "; ".join(what))
    else:
        rep.ok("C16.R3", key2, site)


def _escaped_chars(e: ast.expr, vname: str, fi: FunctionInfo) -> set[str] | None:
    """Characters an escaping expression over ``vname`` rewrites: html.escape / xml.sax.saxutils.escape / .replace chains."""
    if isinstance(e, ast.Name):
        return set() if e.id == vname else None
    if isinstance(e, ast.BoolOp) and isinstance(e.op, ast.Or) and _is_name(e.values[0], vname) and all(isinstance(v, ast.Constant) and v.value == "" for v in e.values[1:]):
        return set()  # `value or ""`
    if isinstance(e, ast.Call) and dotted(e.func) == "str" and len(e.args) == 1:
        return _escaped_chars(e.args[0], vname, fi)
    if isinstance(e, ast.Call) and isinstance(e.func, ast.Attribute) and e.func.attr == "replace" and len(e.args) == 2:
        a0 = e.args[0]
        if isinstance(a0, ast.Call) and dotted(a0.func) == "chr" and len(a0.args) == 1 and isinstance(a0.args[0], ast.Constant) and isinstance(a0.args[0].value, int):
            old = chr(a0.args[0].value)
        elif isinstance(a0, ast.Constant) and isinstance(a0.value, str):
            old = a0.value
        else:
            return None
        inner = _escaped_chars(e.func.value, vname, fi)
        if inner is None:
            return None
        if isinstance(e.args[1], ast.Constant) and e.args[1].value == old:
            return inner
        return inner | {old}
    if isinstance(e, ast.Call) and e.args:
        full = fi.module.resolve(dotted(e.func) or "")
        inner = _escaped_chars(e.args[0], vname, fi)
        if inner is None:
            return None
        if full == "html.escape":
            q = e.args[1] if len(e.args) > 1 else next((k.value for k in e.keywords if k.arg == "quote"), None)
            if q is None or (isinstance(q, ast.Constant) and q.value):
                return inner | {"&", "<", ">", '"', "'"}
            if isinstance(q, ast.Constant):
                return inner | {"&", "<", ">"}
            return None
        if full in ("xml.sax.saxutils.escape",) and len(e.args) == 1 and not e.keywords:
            return inner | {"&", "<", ">"}
    return None


def _fmt_tpl(tpl: list) -> str:
    return " ".join(repr(v) if k == "lit" else "{" + short(v, 30) + "}" for k, v in tpl)


# ---------------------------------------------------------------------------
# R4 copy before mutate

ELEMENT_MUTATORS = {"reset_children", "append", "insert", "extend", "remove", "pop", "clear", "reverse", "__setitem__", "__delitem__", "__iadd__", "strip"}


def _implies_true(node, pname: str) -> bool:
    """CFG edge node on which the flag ``pname`` is known to be truthy."""
    from ..flow import facts

    if isinstance(node, tuple) and node[0] in ("T", "F") and isinstance(node[1], (ast.If, ast.While)):
        return any(_is_name(t, pname) and pol for t, pol in facts(node[1].test, node[0] == "T"))
    return False


def _flag_value(test: ast.expr, flag: str) -> bool | None:
    """Value of ``test`` when the boolean parameter ``flag`` is false (None: does not depend on the flag alone)."""
    if _is_name(test, flag):
        return False
    if isinstance(test, ast.UnaryOp) and isinstance(test.op, ast.Not):
        v = _flag_value(test.operand, flag)
        return None if v is None else not v
    if isinstance(test, ast.Compare) and len(test.ops) == 1 and _is_name(test.left, flag) and isinstance(test.comparators[0], ast.Constant) and isinstance(test.comparators[0].value, bool):
        c = test.comparators[0].value
        if isinstance(test.ops[0], (ast.Is, ast.Eq)):
            return c is False
        if isinstance(test.ops[0], (ast.IsNot, ast.NotEq)):
            return c is not False
    return None


def _selected(n: ast.AST, flag: str) -> bool:
    """Is the expression node evaluated when ``flag`` is false (conditional expressions and short circuits)?"""
    child = n
    p = parent(n)
    while p is not None and not isinstance(p, ast.stmt):
        if isinstance(p, ast.IfExp) and child is not p.test:
            v = _flag_value(p.test, flag)
            if v is not None and (child is p.body) != v:
                return False
        elif isinstance(p, ast.BoolOp) and child in p.values:
            for prev in p.values[: p.values.index(child)]:
                v = _flag_value(prev, flag)
                if v is not None and v == isinstance(p.op, ast.Or):
                    return False  # short-circuited
        child, p = p, parent(p)
    return True


def _may_be_self(e: ast.expr, flag: str, aliases: set[str]) -> bool:
    """Can the value of ``e`` be the element itself when ``flag`` is false?"""
    if isinstance(e, ast.Name):
        return e.id == "self" or e.id in aliases
    if isinstance(e, ast.IfExp):
        v = _flag_value(e.test, flag)
        if v is True:
            return _may_be_self(e.body, flag, aliases)
        if v is False:
            return _may_be_self(e.orelse, flag, aliases)
        return _may_be_self(e.body, flag, aliases) or _may_be_self(e.orelse, flag, aliases)
    if isinstance(e, ast.BoolOp):
        return any(_may_be_self(v, flag, aliases) and _selected(v, flag) for v in e.values)
    return False


def _use_role(n: ast.Name) -> str:
    """alias | copy-source | mutating | harmless | unknown - what a use of an element-valued name does."""
    child: ast.AST = n
    p = parent(n)
    while isinstance(p, (ast.IfExp, ast.BoolOp)) and not (isinstance(p, ast.IfExp) and child is p.test):
        child, p = p, parent(p)
    if isinstance(p, ast.Assign) and p.value is child and len(p.targets) == 1 and isinstance(p.targets[0], ast.Name):
        return "alias"
    if isinstance(p, ast.Return):
        return "mutating"  # handing out the original as "the copy"
    if child is not n:
        return "unknown"
    if isinstance(p, ast.Attribute) and isinstance(parent(p), ast.Call) and parent(p).func is p:
        if p.attr == "deepcopy":
            return "copy-source"
        if p.attr in ELEMENT_MUTATORS:
            return "mutating"
        if p.attr in ("walk", "find", "render", "__len__", "__str__"):
            return "harmless"
        return "unknown"
    if isinstance(p, ast.Subscript) and p.value is n:
        return "mutating" if isinstance(p.ctx, (ast.Store, ast.Del)) else "harmless"
    if isinstance(p, (ast.For, ast.comprehension)) and p.iter is n:
        return "mutating"  # the children reached this way are stripped in place / re-parented
    if isinstance(p, ast.Attribute) and p.attr in ("children", "_children"):
        return "mutating"
    if isinstance(p, ast.Attribute) and p.attr in ("name", "parent", "_parent") and isinstance(p.ctx, ast.Load):
        return "harmless"
    if isinstance(p, ast.Compare) and all(isinstance(o, (ast.Is, ast.IsNot)) for o in p.ops):
        return "harmless"
    if isinstance(p, ast.Call) and dotted(p.func) in ("len", "isinstance", "bool", "id") and n in p.args:
        return "harmless"
    if isinstance(p, (ast.If, ast.While)) and p.test is n or isinstance(p, ast.UnaryOp):
        return "harmless"
    return "unknown"


@rule("C16.R4")
def r4_copy_before_mutate(corpus: Corpus, rep: Report, tier: str):
    rep.rule("C16.R4", "strip(inplace=False) touches only the name rebound to self.deepcopy(); deepcopy does not write self; constructors copy the attribute mapping")
    P = _ctx(corpus)
    strip = P.element.methods.get("strip")
    if strip is None:
        raise AnchorMissing("Element.strip not found")
    rep.saw_function(strip.fq)
    if "inplace" not in strip.params:
        raise AnchorMissing("Element.strip has no `inplace` parameter")
    cfg = get_cfg(strip)
    flag = "inplace"
    flag_true = lambda n: _implies_true(n, flag)  # noqa: E731

    def is_copy(e) -> bool:
        return isinstance(e, ast.Call) and isinstance(e.func, ast.Attribute) and e.func.attr == "deepcopy" and _is_name(e.func.value, "self") and not e.args

    def single_target(b):
        return b.targets[0].id if isinstance(b, ast.Assign) and len(b.targets) == 1 and isinstance(b.targets[0], ast.Name) else None

    # names that (with inplace false) can hold the element itself, by fixpoint over plain assignments
    assigns = [n for n in walk_local(strip.node, into_lambdas=False) if single_target(n)]
    maybe_self: set[str] = set()
    changed = True
    while changed:
        changed = False
        for n in assigns:
            if single_target(n) not in maybe_self and _may_be_self(n.value, flag, maybe_self):
                maybe_self.add(single_target(n))
                changed = True
    working = set(maybe_self) | {single_target(n) for n in assigns if any(is_copy(x) for x in ast.walk(n.value))}
    if not working:
        raise Unsupported(f"{strip.fq}: no local name is bound to self or to self.deepcopy()")

    def sees_self(name: str, st) -> bool:
        """Can `name` still denote the element itself when `st` runs with inplace false?"""
        binds = _bindings(strip, name)
        for b in binds:
            if b == "ENTRY" or not (single_target(b) and _may_be_self(b.value, flag, maybe_self)):
                continue
            if not cfg.paths_avoiding("ENTRY", b, flag_true):
                continue
            others = {x for x in binds if x is not b and x is not st}
            if b is st or cfg.paths_avoiding(b, st, lambda n: n in others or flag_true(n)):
                return True
        return False

    seen_items: set[str] = set()
    for n in walk_local(strip.node, into_lambdas=False):
        if not (isinstance(n, ast.Name) and isinstance(n.ctx, ast.Load) and (n.id == "self" or n.id in working)):
            continue
        if not _selected(n, flag):
            continue  # in the branch of a conditional expression that is not taken when inplace is false
        st = cfg.stmt_of(n)
        role = _use_role(n)
        if role in ("alias", "copy-source"):
            continue
        if n.id == "self":
            if not cfg.paths_avoiding("ENTRY", st, flag_true):
                continue  # only reachable when inplace is true
            key = f"{strip.fq}|not inplace: `{short(st, 60)}` uses self"
            hit = True
        else:
            key = f"{strip.fq}|not inplace: `{short(st, 60)}` works on the copy"
            hit = n.id in maybe_self and sees_self(n.id, st)
        if key in seen_items:
            continue
        if not hit:
            seen_items.add(key)
            rep.ok("C16.R4", key, strip.module.site(st))
        elif role == "harmless":
            continue
        elif role == "mutating":
            seen_items.add(key)
            what = "self" if n.id == "self" else f"`{n.id}`, which can still be the element itself (no rebinding to self.deepcopy() on that path)"
            rep.violation("C16.R4", key, strip.module.site(st), f"with inplace=False `{short(st, 60)}` operates on {what}: strip() alters or returns the original tree instead of the copy (or moves the original's children into the copy: AssertionError `different parent`)")
        else:
            raise Unsupported(f"{strip.fq}: use of {n.id} in `{short(st, 60)}`")
    # (c) deepcopy does not write self
    for fi in _deepcopy_impls(P):
        rep.saw_function(fi.fq)
        key = f"{fi.fq}|does not modify self"
        bad = None
        for n in walk_local(fi.node):
            if isinstance(n, ast.Attribute) and isinstance(n.ctx, (ast.Store, ast.Del)) and _is_name(n.value, "self"):
                bad = n
            elif isinstance(n, ast.Subscript) and isinstance(n.ctx, (ast.Store, ast.Del)) and (_is_name(n.value, "self") or _is_self_attr(n.value)):
                bad = n
            elif isinstance(n, ast.Call) and isinstance(n.func, ast.Attribute) and n.func.attr in (ELEMENT_MUTATORS | {"update", "setdefault", "popitem"}) - {"strip"}:
                if _is_name(n.func.value, "self") or _is_self_attr(n.func.value):
                    bad = n
        if bad is not None:
            rep.violation("C16.R4", key, fi.module.site(bad), f"`{short(enclosing_stmt(bad), 60)}` modifies the element being copied")
        else:
            rep.ok("C16.R4", key, fi.site())
    # (c') a copy made by copy.copy(self) shares every field with self: each mutable field must be replaced on the copy
    mutable = _mutable_fields(P)
    for fi in _deepcopy_impls(P):
        for n in walk_local(fi.node):
            if isinstance(n, ast.Assign) and len(n.targets) == 1 and isinstance(n.targets[0], ast.Name) and _is_shallow_copy(n.value, fi):
                cv = n.targets[0].id
                key = f"{fi.fq}|a shallow copy replaces every mutable field"
                replaced = {}
                for m2 in walk_local(fi.node):
                    if isinstance(m2, ast.Assign) and len(m2.targets) == 1 and isinstance(m2.targets[0], ast.Attribute) and _is_name(m2.targets[0].value, cv):
                        replaced[m2.targets[0].attr] = m2.value
                shared = []
                for fld in sorted(mutable):
                    v2 = replaced.get(fld)
                    fresh = v2 is not None and (isinstance(v2, (ast.List, ast.Dict, ast.Set, ast.ListComp, ast.DictComp)) or (isinstance(v2, ast.Call) and not _is_self_attr(v2)))
                    if not fresh:
                        shared.append(fld)
                if shared:
                    rep.violation("C16.R4", key, fi.module.site(n), f"`{short(n, 40)}` copies the references, and {shared} {'is' if len(shared) == 1 else 'are'} not replaced on the copy: the copy and the original share {'that object' if len(shared) == 1 else 'those objects'}, so editing the attributes of a deepcopy()/strip() result alters the original tree")
                else:
                    rep.ok("C16.R4", key, fi.module.site(n), f"replaced on the copy: {sorted(set(replaced) & mutable)}")
    # (d) constructors copy the attribute mapping they are given (deepcopy passes self.attrs)
    init = P.element.methods.get("__init__")
    if init is None:
        raise AnchorMissing("Element.__init__ not found")
    dc = P.element.methods.get("deepcopy")
    passes_attrs = dc is not None and any(isinstance(n, ast.Call) and any(_is_self_attr(a, "attrs") for a in n.args) for n in walk_local(dc.node))
    params = [p for p in init.params if p != "self"]
    for n in walk_local(init.node):
        tgt = val = None
        if isinstance(n, ast.Assign) and len(n.targets) == 1:
            tgt, val = n.targets[0], n.value
        elif isinstance(n, ast.AnnAssign):
            tgt, val = n.target, n.value
        if not (_is_self_attr(tgt, "attrs") and val is not None):
            continue
        key = f"{init.fq}|the attribute mapping is copied"
        if not passes_attrs:
            rep.ok("C16.R4", key, init.module.site(n), "deepcopy does not hand self.attrs to the constructor")
        elif isinstance(val, ast.Call) and (dotted(val.func) in ("dict",) or P.c.find_class(init.module.resolve(dotted(val.func) or "")) is not None and P.c.find_class(init.module.resolve(dotted(val.func) or "")).fq == P.attribute.fq):
            rep.ok("C16.R4", key, init.module.site(n), f"`{short(val, 40)}` builds a new mapping")
        elif _can_be_param(val, params):
            rep.violation("C16.R4", key, init.module.site(n), f"`{short(n, 60)}` can store the very mapping it was given; deepcopy passes self.attrs, so the copy and the original share one Attribute object and editing the copy's attributes alters the original")
        else:
            raise Unsupported(f"{init.fq}: attrs value {short(val, 50)}")
    rep.expect_min("C16.R4", 5, "3 uses of the working name in strip + 2 deepcopy bodies + the attrs copy on the pinned tree")


def _mutable_fields(P: Ctx) -> set[str]:
    """Fields of an element that hold a mutable object: assigned in __init__ from a constructor call / list / dict display."""
    out = set()
    for ci in P.hier:
        init = ci.methods.get("__init__")
        if init is None:
            continue
        for n in walk_local(init.node):
            tgt = n.targets[0] if isinstance(n, ast.Assign) and len(n.targets) == 1 else getattr(n, "target", None)
            val = getattr(n, "value", None)
            if isinstance(n, (ast.Assign, ast.AnnAssign)) and _is_self_attr(tgt) and isinstance(val, (ast.List, ast.Dict, ast.Set, ast.Call)):
                if isinstance(val, ast.Call) and dotted(val.func) in ("str", "int", "bool", "tuple", "frozenset"):
                    continue
                out.add(tgt.attr)
    return out


def _can_be_param(e: ast.expr, params: list[str]) -> bool:
    if isinstance(e, ast.Name):
        return e.id in params
    if isinstance(e, ast.IfExp):
        return _can_be_param(e.body, params) or _can_be_param(e.orelse, params)
    if isinstance(e, ast.BoolOp):
        return any(_can_be_param(v, params) for v in e.values)
    return False


# ---------------------------------------------------------------------------
# R5 stack discipline

STACK_MUT = {"append", "appendleft", "pop", "popleft", "extend", "extendleft", "clear", "insert", "remove", "rotate", "reverse"}


def _stack_ops(P: Ctx, fi: FunctionInfo) -> list[ast.AST]:
    out = []
    for n in walk_local(fi.node):
        if isinstance(n, ast.Call) and isinstance(n.func, ast.Attribute) and n.func.attr in STACK_MUT and isinstance(n.func.value, ast.Attribute) and n.func.value.attr == P.stack_attr:
            out.append(n)
        elif isinstance(n, ast.Attribute) and n.attr == P.stack_attr and isinstance(n.ctx, (ast.Store, ast.Del)):
            out.append(n)
        elif isinstance(n, ast.Subscript) and isinstance(n.ctx, (ast.Store, ast.Del)) and isinstance(n.value, ast.Attribute) and n.value.attr == P.stack_attr:
            out.append(n)
    out.sort(key=lambda n: (n.lineno, n.col_offset))
    return out


def _is_top_read(P: Ctx, e: ast.expr, fi: FunctionInfo) -> bool:
    """``self.stack[-1]`` or a call of a Tree method that returns it."""
    if isinstance(e, ast.Subscript) and P.is_stack(e.value) and isinstance(e.slice, ast.UnaryOp) and isinstance(e.slice.op, ast.USub) and isinstance(e.slice.operand, ast.Constant) and e.slice.operand.value == 1:
        return True
    if isinstance(e, ast.Call) and isinstance(e.func, ast.Attribute) and _is_name(e.func.value, "self") and not e.args and not e.keywords:
        m = P.tree.methods.get(e.func.attr)
        if m is not None:
            rets = [n for n in walk_local(m.node) if isinstance(n, ast.Return)]
            return len(rets) == 1 and rets[0].value is not None and _is_top_read(P, rets[0].value, m)
    return False


class _Sim:
    """Symbolic run of straight-line nest code (one or two levels of Tree helpers are inlined)."""

    def __init__(self, P: Ctx):
        self.P = P
        self.sym: list[str] = []  # pushed above the untouched base
        self.popped = 0  # entries taken from the base
        self.inserts: list[tuple[str, str]] = []
        self.counter_updates: list[tuple[str, str, str, str]] = []  # counter, inc/dec, key text, function
        self.n_new = 0

    def value(self, e: ast.expr, fi: FunctionInfo, env: dict[str, str], hint: str = "") -> str | None:
        P = self.P
        if isinstance(e, ast.Name):
            return env.get(e.id)
        if _is_top_read(P, e, fi):
            if self.sym:
                return self.sym[-1]
            if self.popped == 0:
                return "T1"
            raise Unsupported(f"{fi.fq}: top-of-stack read after a pop")
        if isinstance(e, ast.Call) and isinstance(e.func, ast.Attribute) and P.is_stack(e.func.value) and e.func.attr == "pop" and not e.args:
            if self.sym:
                return self.sym.pop()
            self.popped += 1
            return f"T{self.popped}"
        if _fresh_ctor(P, e, fi):
            self.n_new += 1
            return f"NEW:{hint or 'element'}" + ("" if self.n_new == 1 else f"#{self.n_new}")
        if isinstance(e, ast.Call) and isinstance(e.func, ast.Attribute) and _is_name(e.func.value, "self") and e.func.attr in P.tree.methods:
            return self.call(e, fi, env)
        return None

    def call(self, call: ast.Call, fi: FunctionInfo, env: dict[str, str], depth: int = 0) -> str | None:
        callee = self.P.tree.methods[call.func.attr]
        if callee.fq == fi.fq or len(env.get("__depth__", "")) >= 2:
            raise Unsupported(f"{fi.fq}: helper nesting too deep at `{short(call, 40)}`")
        params = [p for p in callee.params if p != "self"]
        cenv: dict[str, str] = {"__depth__": env.get("__depth__", "") + "x"}
        for i, p in enumerate(params):
            arg = call.args[i] if i < len(call.args) else next((k.value for k in call.keywords if k.arg == p), None)
            if arg is None:
                continue  # default value: not an element
            v = self.value(arg, fi, env, p)
            if v is not None:
                cenv[p] = v
        return self.run(callee, cenv)

    def run(self, fi: FunctionInfo, env: dict[str, str], stmts: list | None = None) -> str | None:
        P = self.P
        for st in (fi.node.body if stmts is None else stmts):
            if isinstance(st, ast.Pass) or (isinstance(st, ast.Expr) and isinstance(st.value, ast.Constant)):
                continue
            if isinstance(st, ast.Return):
                return self.value(st.value, fi, env) if st.value is not None else None
            if _touches_counter(P, st):
                cu = _counter_update(P, st)
                if cu is None:
                    raise Unsupported(f"{fi.fq}: `{short(st, 50)}` uses the per-name counter in a way that is not +1 / -1 for one key")
                self.counter_updates.append((cu[0], cu[1], unparse(cu[2]), fi.qualname))
                continue
            if isinstance(st, (ast.Assign, ast.AnnAssign)):
                tgt = st.targets[0] if isinstance(st, ast.Assign) and len(st.targets) == 1 else getattr(st, "target", None)
                if isinstance(tgt, ast.Attribute) and isinstance(tgt.value, ast.Name) and tgt.value.id in env and tgt.attr not in FIELDS and isinstance(st.value, ast.Constant):
                    continue  # a plain flag on a tracked element (e.g. item.closed = False): neither stack nor links
                if not isinstance(tgt, ast.Name) or st.value is None:
                    raise Unsupported(f"{fi.fq}: `{short(st, 50)}`")
                v = self.value(st.value, fi, env, tgt.id)
                if v is None:
                    raise Unsupported(f"{fi.fq}: `{short(st, 50)}` is not an element, a stack entry or a helper result")
                env[tgt.id] = v
                continue
            call = st.value if isinstance(st, ast.Expr) and isinstance(st.value, ast.Call) else None
            if call is None or not isinstance(call.func, ast.Attribute):
                raise Unsupported(f"{fi.fq}: statement `{short(st, 50)}` outside the straight-line nest idiom")
            if P.is_stack(call.func.value):
                if call.func.attr == "pop" and not call.args:
                    self.value(call, fi, env)
                elif call.func.attr == "append" and len(call.args) == 1:
                    v = self.value(call.args[0], fi, env, "element")
                    if v is None:
                        raise Unsupported(f"{fi.fq}: `{short(st, 50)}` pushes an untracked value")
                    self.sym.append(v)
                else:
                    raise Unsupported(f"{fi.fq}: stack operation `{short(st, 50)}`")
            elif _is_name(call.func.value, "self") and call.func.attr in P.tree.methods:
                self.call(call, fi, env)
            elif call.func.attr in ("append", "insert") and call.args:
                rv = self.value(call.func.value, fi, env)
                av = self.value(call.args[-1], fi, env, "element")
                if rv is None or av is None:
                    raise Unsupported(f"{fi.fq}: `{short(st, 50)}` uses an untracked name")
                self.inserts.append((rv, av))
            else:
                raise Unsupported(f"{fi.fq}: statement `{short(st, 50)}` outside the straight-line nest idiom")
        return None


def _linear_paths(body: list, limit: int = 8) -> list[tuple[list, list]]:
    """Straight-line paths through a body whose only control flow is if/else and return: [(statements, [(test, polarity)])]."""
    paths: list[tuple[list, list]] = [([], [])]
    for st in body:
        nxt: list[tuple[list, list]] = []
        for stmts, guards in paths:
            if stmts and isinstance(stmts[-1], ast.Return):
                nxt.append((stmts, guards))
            elif isinstance(st, ast.If):
                for pol, blk in ((True, st.body), (False, st.orelse)):
                    for s2, g2 in _linear_paths(blk, limit):
                        nxt.append((stmts + s2, guards + [(st.test, pol)] + g2))
            else:
                nxt.append((stmts + [st], guards))
        paths = nxt
        if len(paths) > limit:
            raise Unsupported("too many paths through a nest function")
    return paths


def _simulate(P: Ctx, fi: FunctionInfo):
    """(final stack suffix, popped from base, insertions) of a nest function, the same on every path that builds a node.
    Paths that return without touching tree or stack are recorded as *dropping* paths (judged by R3)."""
    results = []
    drops = []
    updates: list = []
    for stmts, guards in _linear_paths(fi.node.body):
        sim = _Sim(P)
        sim.run(fi, {}, stmts)
        for u in sim.counter_updates:
            if u not in updates:
                updates.append(u)
        if not sim.inserts and not sim.sym and not sim.popped:
            drops.append(guards)
        else:
            results.append((sim.sym, sim.popped, sim.inserts))
    fi.__dict__["_c16_counter_updates"] = updates
    fi.__dict__["_c16_drop_paths"] = drops
    if not results:
        return [], 0, []
    norm = lambda r: (tuple(x.split("#")[0] for x in r[0]), r[1], tuple((a, b.split("#")[0]) for a, b in r[2]))  # noqa: E731
    if len({norm(r) for r in results}) != 1:
        raise Unsupported(f"{fi.fq}: the paths through the function treat stack / tree differently")
    return results[0]


def _tree_callees(P: Ctx, fi: FunctionInfo) -> list[FunctionInfo]:
    out = []
    for n in walk_local(fi.node):
        if isinstance(n, ast.Call) and isinstance(n.func, ast.Attribute) and _is_name(n.func.value, "self") and n.func.attr in P.tree.methods:
            out.append(P.tree.methods[n.func.attr])
    return out


@rule("C16.R5")
def r5_stack_discipline(corpus: Corpus, rep: Report, tier: str):
    rep.rule("C16.R5", "enclose pops nothing when no open element matches, the match depth otherwise, and never the root; the opening-tag function pushes exactly the new element under the current top; other nest functions leave the stack alone")
    P = _ctx(corpus)
    cbmap = _callback_map(P)
    void_attr, _ = _void_elements(P)
    push_fns = {e.tm.fq: e.tm for e in cbmap.get("handle_starttag", []) if e.cls is not None and _void_polarity(e, void_attr) is False}
    pop_fns = {e.tm.fq: e.tm for e in cbmap.get("handle_endtag", []) if e.cls is None}  # the Tree call that builds no node
    leaf_fns = {}
    for name, ems in cbmap.items():
        for e in ems:
            if e.cls is not None and e.tm.fq not in push_fns:
                leaf_fns[e.tm.fq] = e.tm
    if len(push_fns) != 1 or len(pop_fns) != 1:
        raise Unsupported(f"expected one opening and one closing Tree function, found {sorted(push_fns)} / {sorted(pop_fns)}")
    reset_fns = {P.tree.methods[n].fq for n in ("__init__", "clear") if n in P.tree.methods}
    # private Tree helpers (not reached from a callback directly): judged through their callers
    roles = {**push_fns, **pop_fns, **leaf_fns, **{fq: P.m.functions[fq.split(":", 1)[1]] for fq in reset_fns}}
    helper_of: dict[str, set[str]] = {}
    for fq, f in list(roles.items()):
        for h in _tree_callees(P, f):
            if h.fq not in roles:
                helper_of.setdefault(h.fq, set()).add(fq)
                for h2 in _tree_callees(P, h):
                    if h2.fq not in roles:
                        helper_of.setdefault(h2.fq, set()).add(fq)
    # every writer of the stack has one of the known roles
    for fi in P.m.functions.values():
        if fi.is_lambda:
            continue
        for op in _stack_ops(P, fi):
            key = f"{fi.fq}|stack write `{short(enclosing_stmt(op), 60)}`"
            site = fi.module.site(op)
            if fi.fq in push_fns or fi.fq in pop_fns or fi.fq in reset_fns:
                rep.ok("C16.R5", key, site, "opening / closing / reset function")
            elif fi.fq in helper_of:
                rep.ok("C16.R5", key, site, f"helper of {', '.join(sorted(x.split(':')[1] for x in helper_of[fi.fq]))}: judged through the symbolic run of its callers")
            elif fi.fq in leaf_fns:
                rep.violation("C16.R5", key, site, f"{fi.qualname} builds a childless node (terminal, void or self-closing tag) but changes the open-element stack: following siblings are nested inside it / the enclosing element is closed early")
            else:
                raise Unsupported(f"{fi.fq}: writes the open-element stack")
    # opening function
    (push,) = push_fns.values()
    rep.saw_function(push.fq)
    sym, popped, inserts = _simulate(P, push)
    key = f"{push.fq}|pushes exactly the new element under the current top"
    new = [v for _, v in inserts if v.startswith("NEW:")]
    base = [f"T{k}" for k in range(popped, 0, -1)]
    if len(inserts) == 1 and inserts[0][0] == "T1" and new and sym == base + [new[0]]:
        rep.ok("C16.R5", key, push.site(), f"stack: [.., top] -> [.., top, {new[0][4:]}]; {new[0][4:]} appended to top")
    else:
        rep.violation("C16.R5", key, push.site(), f"after {push.qualname} the stack is [.., {', '.join(x.replace('NEW:', '') for x in sym) or '-'}] (popped {popped}) and insertions are {inserts}: expected [.., top, new] with new appended to top - children of the new element would be attached to the wrong parent")
    # per-name counters consulted by the closing function: +1 exactly where an element is pushed
    (pop,) = pop_fns.values()
    used_counters = sorted({P.counter_of(x) for x in ast.walk(pop.node) if P.counter_of(x)})
    if used_counters:
        em = next(e for e in cbmap.get("handle_starttag", []) if e.tm.fq == push.fq)
        name_arg = unparse(em.ctor.args[0]) if em.ctor is not None and em.ctor.args else None
        item_names = {v[4:].split("#")[0] for v in new}
        for c in used_counters:
            key = f"{push.fq}|per-name counter {c} is incremented for the pushed element"
            ups = [u for u in push.__dict__.get("_c16_counter_updates", []) if u[0] == c]
            good_keys = {name_arg} | {f"{n}.name" for n in item_names}
            if not ups:
                rep.violation("C16.R5", key, push.site(), f"{pop.qualname} consults self.{c}, but {push.qualname} pushes the new element without incrementing it: the counter under-counts, so genuine closing tags are ignored as stray and following siblings are nested inside the unclosed element")
            elif len(ups) == 1 and ups[0][1] == "inc" and ups[0][2] in good_keys:
                rep.ok("C16.R5", key, push.site(), f"{c}[{ups[0][2]}] += 1 next to the push")
            else:
                raise Unsupported(f"{push.fq}: counter updates {ups}")
        for fq, fi in sorted(leaf_fns.items()):
            if _stack_ops(P, fi):
                continue
            _simulate(P, fi)
            for u in fi.__dict__.get("_c16_counter_updates", []):
                if u[0] in used_counters:
                    rep.violation("C16.R5", f"{fq}|per-name counter {u[0]} untouched by childless nodes", fi.site(), f"{fi.qualname} builds a childless node (never pushed) but changes self.{u[0]}: the counter no longer equals the number of open elements of that name")
    # childless nodes: appended to the current top
    for fq, fi in sorted(leaf_fns.items()):
        rep.saw_function(fq)
        key = f"{fq}|childless node is appended to the current top, stack untouched"
        if _stack_ops(P, fi):
            continue  # reported above
        sym, popped, inserts = _simulate(P, fi)
        base = [f"T{k}" for k in range(popped, 0, -1)]
        if not inserts and not sym and not popped and fi.__dict__.get("_c16_drop_paths"):
            rep.listed("C16.R5", key, fi.site(), "no path inserts a node: reported by C16.R3 (event dropped)")
        elif sym != base:
            rep.violation("C16.R5", key, fi.site(), f"{fi.qualname} builds a childless node but leaves the open-element stack as [.., {', '.join(x.replace('NEW:', '') for x in sym) or '-'}] after taking {popped} entr{'y' if popped == 1 else 'ies'} from it: following siblings are nested inside the node / the enclosing element is closed early")
        elif len(inserts) == 1 and inserts[0][0] == "T1" and inserts[0][1].startswith("NEW:"):
            rep.ok("C16.R5", key, fi.site())
        else:
            raise Unsupported(f"{fq}: insertions {inserts}")
    # closing function
    (pop,) = pop_fns.values()
    rep.saw_function(pop.fq)
    _judge_enclose(P, rep, pop)
    rep.expect_min("C16.R5", 10, "8 stack writes + opening + 3 childless + 2 enclose obligations on the pinned tree")


def _root_attr(P: Ctx) -> str | None:
    """Tree attribute that holds the root element (assigned from a constructor call and pushed first)."""
    for mn in ("__init__", "clear"):
        f = P.tree.methods.get(mn)
        if f is None:
            continue
        for n in walk_local(f.node):
            tgt = n.targets[0] if isinstance(n, ast.Assign) and len(n.targets) == 1 else getattr(n, "target", None)
            val = getattr(n, "value", None)
            if isinstance(n, (ast.Assign, ast.AnnAssign)) and _is_self_attr(tgt) and isinstance(val, ast.Call) and P.hier_class_named(val.func, f) is not None:
                return tgt.attr
    return None


def _root_name_attrs(P: Ctx) -> set[str]:
    """Tree attributes that hold the name given to the root: assigned in __init__ from the parameter the root is built with."""
    init = P.tree.methods.get("__init__")
    out: set[str] = set()
    if init is None:
        return out
    rootargs = set()
    for f in [init] + _tree_callees(P, init):
        for n in walk_local(f.node):
            if isinstance(n, ast.Call) and P.hier_class_named(n.func, f) is not None and n.args:
                rootargs.add(unparse(n.args[0]))
    for n in walk_local(init.node):
        if isinstance(n, ast.Assign) and len(n.targets) == 1 and _is_self_attr(n.targets[0]) and isinstance(n.value, ast.Name) and n.value.id in init.params:
            if n.value.id in rootargs or f"self.{n.targets[0].attr}" in rootargs:
                out.add(n.targets[0].attr)
    return out


class _Entry:
    """An abstract open element: all that enclose() may look at is whether its name equals the closing tag's."""

    def __init__(self, matches: bool, pos: int):
        self.matches, self.pos = matches, pos


class _Stops(Exception):
    def __init__(self, why: str):
        self.why = why


class _EncloseRun:
    """One run of the closing function over an abstract open-element stack (bottom .. top), given as the list of
    `entry.name == <closing name>` outcomes.  Values: ints, bools, entries, lists.  Counts the pops."""

    def __init__(self, P: Ctx, fi: FunctionInfo, pattern: list[bool]):
        self.P, self.fi = P, fi
        self.stack = [_Entry(m, i) for i, m in enumerate(pattern)]
        self.root = self.stack[0]
        self.root_attr = _root_attr(P)
        self.root_name_attrs = _root_name_attrs(P)
        self.name_param = [p for p in fi.params if p != "self"][0]
        self.opaque = set([p for p in fi.params if p != "self"][1:])  # further payload (e.g. the source text of the end tag)
        self.env: dict[str, object] = {}
        self.pops = 0
        self.iterating = 0
        self.steps = 0
        self.popped_entries: list[_Entry] = []
        # per-name counters: under the invariant counter[n] == number of open elements named n, the value for the
        # closing tag's name is the number of matching entries; decrements are recorded and paired with the pops
        self.count_match: dict[str, int] = {}
        self.decs: dict[str, list] = {}

    def counter_value(self, c: str) -> int:
        if c not in self.count_match:
            # the counter is incremented where an element is pushed: the root is not counted
            self.count_match[c] = sum(1 for e in self.stack + self.popped_entries if e.matches and e is not self.root)
        return self.count_match[c]

    def counter_key(self, k: ast.expr):
        if _is_name(k, self.name_param):
            return "name"
        if isinstance(k, ast.Attribute) and k.attr == "name":
            ent = self.ev(k.value)
            if isinstance(ent, _Entry):
                return ent
        raise Unsupported(f"{self.fi.fq}: counter key `{short(k, 30)}`")

    def ev(self, e: ast.expr):
        P = self.P
        if isinstance(e, ast.Subscript) and P.counter_of(e.value):
            if self.counter_key(e.slice) == "name":
                return self.counter_value(P.counter_of(e.value))
            raise Unsupported(f"{self.fi.fq}: counter read `{short(e, 40)}`")
        if isinstance(e, ast.Call) and isinstance(e.func, ast.Attribute) and e.func.attr == "get" and P.counter_of(e.func.value) and 1 <= len(e.args) <= 2:
            if self.counter_key(e.args[0]) == "name" and (len(e.args) == 1 or (isinstance(e.args[1], ast.Constant) and e.args[1].value in (0, None))):
                return self.counter_value(P.counter_of(e.func.value))
            raise Unsupported(f"{self.fi.fq}: counter read `{short(e, 40)}`")
        if isinstance(e, ast.Constant) and isinstance(e.value, (int, bool)) or isinstance(e, ast.Constant) and e.value is None:
            return e.value
        if isinstance(e, ast.Name):
            if e.id in self.env:
                return self.env[e.id]
            raise Unsupported(f"{self.fi.fq}: name {e.id}")
        if P.is_stack(e):
            return self.stack
        if _is_self_attr(e) and self.root_attr and e.attr == self.root_attr:
            return self.root  # the root element, which sits at the bottom of the stack
        if _is_self_attr(e) and e.attr in self.root_name_attrs:
            return ("rootname",)  # the name the root was given
        if isinstance(e, ast.BinOp) and isinstance(e.op, (ast.Add, ast.Sub)):
            l, r = self.ev(e.left), self.ev(e.right)
            if isinstance(l, int) and isinstance(r, int):
                return l + r if isinstance(e.op, ast.Add) else l - r
        if isinstance(e, ast.UnaryOp) and isinstance(e.op, ast.Not):
            return not self.truth(self.ev(e.operand))
        if isinstance(e, ast.UnaryOp) and isinstance(e.op, ast.USub):
            v = self.ev(e.operand)
            if isinstance(v, int):
                return -v
        if isinstance(e, ast.BoolOp):
            v = None
            for x in e.values:
                v = self.ev(x)
                if self.truth(v) != isinstance(e.op, ast.And):
                    return v
            return v
        if isinstance(e, ast.IfExp):
            return self.ev(e.body if self.truth(self.ev(e.test)) else e.orelse)
        if isinstance(e, ast.Compare) and len(e.ops) == 1:
            op = e.ops[0]
            l, r = e.left, e.comparators[0]
            for a_, b_ in ((l, r), (r, l)):
                if isinstance(a_, ast.Attribute) and a_.attr == "name" and _is_name(b_, self.name_param) and not _is_self_attr(a_):
                    ent = self.ev(a_.value)
                    if isinstance(ent, _Entry) and isinstance(op, (ast.Eq, ast.NotEq)):
                        return ent.matches if isinstance(op, ast.Eq) else not ent.matches
            for a_, b_ in ((l, r), (r, l)):
                if _is_name(a_, self.name_param) and isinstance(op, (ast.Eq, ast.NotEq)):
                    bv = self.ev(b_)
                    if bv == ("rootname",):
                        return self.root.matches == isinstance(op, ast.Eq)  # the closing tag's name equals the root's
                if isinstance(a_, ast.Attribute) and a_.attr == "name" and isinstance(op, (ast.Eq, ast.NotEq)) and not _is_self_attr(a_):
                    bv = self.ev(b_) if _is_self_attr(b_) else None
                    ent = self.ev(a_.value) if bv == ("rootname",) else None
                    if isinstance(ent, _Entry):
                        raise Unsupported(f"{self.fi.fq}: an element's name compared with the root's name")
            lv, rv = self.ev(l), self.ev(r)
            if isinstance(op, (ast.Is, ast.IsNot, ast.Eq, ast.NotEq)) and isinstance(lv, _Entry) and isinstance(rv, _Entry):
                return (lv is rv) == isinstance(op, (ast.Is, ast.Eq))  # Element.__eq__ is identity
            if isinstance(op, (ast.Is, ast.IsNot)) and (lv is None or rv is None):
                return (lv is rv) if isinstance(op, ast.Is) else (lv is not rv)
            if isinstance(lv, int) and isinstance(rv, int):
                return {ast.Eq: lv == rv, ast.NotEq: lv != rv, ast.Lt: lv < rv, ast.LtE: lv <= rv, ast.Gt: lv > rv, ast.GtE: lv >= rv}.get(type(op))
        if isinstance(e, ast.Subscript) and not isinstance(e.slice, ast.Slice):
            seq, i = self.ev(e.value), self.ev(e.slice)
            if isinstance(seq, list) and isinstance(i, int) and not isinstance(i, bool):
                if -len(seq) <= i < len(seq):
                    return seq[i]
                raise _Stops("IndexError: the open-element stack is indexed out of range")
        if isinstance(e, ast.NamedExpr) and isinstance(e.target, ast.Name):
            v = self.ev(e.value)
            self.env[e.target.id] = v  # `(x := expr)`: bind and yield the value
            return v
        if isinstance(e, (ast.GeneratorExp, ast.ListComp)):
            return self.comprehension(e, 0)
        if isinstance(e, ast.Tuple):
            return tuple(self.ev(x) for x in e.elts)
        if isinstance(e, ast.Call):
            d = dotted(e.func)
            if isinstance(e.func, ast.Attribute) and P.is_stack(e.func.value) and e.func.attr == "pop" and not e.args:
                return self.pop()
            args = [self.ev(a_) for a_ in e.args]
            kw = {k.arg: self.ev(k.value) for k in e.keywords}
            if d in ("any", "all") and len(args) == 1 and isinstance(args[0], list):
                res = [self.truth(x) for x in args[0]]
                return any(res) if d == "any" else all(res)
            if d == "next" and 1 <= len(args) <= 2 and isinstance(args[0], list) and not kw:
                if args[0]:
                    return args[0][0]
                if len(args) == 2:
                    return args[1]
                raise _Stops("StopIteration: next() of an exhausted search without a default")
            if d == "sum" and len(args) == 1 and isinstance(args[0], list) and all(isinstance(x, int) for x in args[0]):
                return sum(args[0])
            if d in ("min", "max") and len(args) == 1 and isinstance(args[0], list) and all(isinstance(x, int) for x in args[0]):
                if args[0]:
                    return (min if d == "min" else max)(args[0])
                if "default" in kw:
                    return kw["default"]
                raise _Stops(f"ValueError: {d}() of an empty sequence")
            if d in ("iter", "tuple") and len(args) == 1 and isinstance(args[0], list):
                return list(args[0])
            if d == "len" and len(args) == 1 and isinstance(args[0], list):
                return len(args[0])
            if d == "reversed" and len(args) == 1 and isinstance(args[0], list):
                return list(reversed(args[0]))
            if d == "list" and len(args) == 1 and isinstance(args[0], list):
                return list(args[0])
            if d == "enumerate" and args and isinstance(args[0], list):
                start = args[1] if len(args) > 1 else kw.get("start", 0)
                if isinstance(start, int):
                    return [(start + i, x) for i, x in enumerate(args[0])]
            if d == "range" and args and all(isinstance(x, int) for x in args) and not kw:
                return list(range(*args))
        raise Unsupported(f"{self.fi.fq}: expression `{short(e, 50)}`")

    def comprehension(self, e, k: int) -> list:
        """Eager value of a generator expression / list comprehension (the searches here consume it at once)."""
        if k == len(e.generators):
            return [self.ev(e.elt)]
        gen = e.generators[k]
        seq = self.ev(gen.iter)
        if not isinstance(seq, list):
            raise Unsupported(f"{self.fi.fq}: comprehension over `{short(gen.iter, 40)}`")
        over_stack = any(self.P.is_stack(x) for x in ast.walk(gen.iter))
        self.iterating += over_stack
        out = []
        try:
            for item in list(seq):
                self.bind(gen.target, item)
                if all(self.truth(self.ev(c)) for c in gen.ifs):
                    out += self.comprehension(e, k + 1)
        finally:
            self.iterating -= over_stack
        return out

    @staticmethod
    def truth(v) -> bool:
        if isinstance(v, _Entry):
            return True
        return bool(v)

    def pop(self):
        if self.iterating:
            raise Unsupported(f"{self.fi.fq}: pop() while iterating over the stack")
        if not self.stack:
            raise _Stops("IndexError: pop from an empty stack")
        self.pops += 1
        self.popped_entries.append(self.stack[-1])
        return self.stack.pop()

    def bind(self, tgt: ast.expr, val) -> None:
        if isinstance(tgt, ast.Name):
            self.env[tgt.id] = val
        elif isinstance(tgt, ast.Tuple) and isinstance(val, tuple) and len(val) == len(tgt.elts):
            for t, v in zip(tgt.elts, val):
                self.bind(t, v)
        else:
            raise Unsupported(f"{self.fi.fq}: assignment target {short(tgt, 30)}")

    def block(self, stmts) -> str | None:
        for st in stmts:
            sig = self.stmt(st)
            if sig:
                return sig
        return None

    def stmt(self, st: ast.stmt) -> str | None:
        self.steps += 1
        if self.steps > 2000:
            raise Unsupported(f"{self.fi.fq}: no termination within the step bound")
        if isinstance(st, ast.Pass) or (isinstance(st, ast.Expr) and isinstance(st.value, ast.Constant)):
            return None
        if isinstance(st, ast.Expr):
            self.ev(st.value)
            return None
        if isinstance(st, (ast.Assign, ast.AugAssign)) and _touches_counter(self.P, st.targets[0] if isinstance(st, ast.Assign) else st.target):
            cu = _counter_update(self.P, st)
            if cu is None or cu[1] != "dec":
                raise Unsupported(f"{self.fi.fq}: counter update `{short(st, 50)}`")
            k = self.counter_key(cu[2])
            self.counter_value(cu[0])
            self.decs.setdefault(cu[0], []).append(k)
            if k == "name" or k.matches:
                self.count_match[cu[0]] -= 1
            return None
        if isinstance(st, ast.Assign) and len(st.targets) == 1 and isinstance(st.targets[0], ast.Attribute) and st.targets[0].attr not in FIELDS and (isinstance(st.value, ast.Constant) or (isinstance(st.value, ast.Name) and st.value.id in self.opaque)):
            if isinstance(self.ev(st.targets[0].value), _Entry):
                return None  # a plain flag on an open element (e.g. ind.closed = True)
        if isinstance(st, ast.Assign) and len(st.targets) == 1:
            self.bind(st.targets[0], self.ev(st.value))
            return None
        if isinstance(st, ast.AnnAssign) and st.value is not None:
            self.bind(st.target, self.ev(st.value))
            return None
        if isinstance(st, ast.AugAssign) and isinstance(st.target, ast.Name) and isinstance(st.op, (ast.Add, ast.Sub)):
            cur, v = self.ev(st.target), self.ev(st.value)
            if isinstance(cur, int) and isinstance(v, int):
                self.env[st.target.id] = cur + v if isinstance(st.op, ast.Add) else cur - v
                return None
        if isinstance(st, ast.If):
            return self.block(st.body if self.truth(self.ev(st.test)) else st.orelse)
        if isinstance(st, ast.For):
            seq = self.ev(st.iter)
            if not isinstance(seq, list):
                raise Unsupported(f"{self.fi.fq}: loop over `{short(st.iter, 40)}`")
            over_stack = any(self.P.is_stack(x) for x in ast.walk(st.iter))
            broke = False
            self.iterating += over_stack
            try:
                for item in list(seq):
                    self.bind(st.target, item)
                    sig = self.block(st.body)
                    if sig == "break":
                        broke = True
                        break
                    if sig == "return":
                        return sig
            finally:
                self.iterating -= over_stack
            return None if broke else self.block(st.orelse)
        if isinstance(st, ast.While):
            broke = False
            while self.truth(self.ev(st.test)):
                self.steps += 1
                if self.steps > 2000:
                    raise Unsupported(f"{self.fi.fq}: no termination within the step bound")
                sig = self.block(st.body)
                if sig == "break":
                    broke = True
                    break
                if sig == "return":
                    return sig
            return None if broke else self.block(st.orelse)
        if isinstance(st, ast.Break):
            return "break"
        if isinstance(st, ast.Continue):
            return "continue"
        if isinstance(st, ast.Return):
            if st.value is not None:
                self.ev(st.value)
            return "return"
        if isinstance(st, ast.Raise):
            raise _Stops("raise")  # an explicit exception: judged by R6, the pops so far are what counts here
        raise Unsupported(f"{self.fi.fq}: statement `{short(st, 50)}`")


def _judge_enclose(P: Ctx, rep: Report, fi: FunctionInfo) -> None:
    """Decision table of the closing function over abstract stacks [Root, e1..] of depth 1-4 x every match pattern
    (Root never matches: tabled assumption): pops == distance of the innermost matching entry from the top, else 0."""
    ops = _stack_ops(P, fi)
    if not ops or any(not (isinstance(op, ast.Call) and op.func.attr == "pop" and not op.args) for op in ops):
        raise Unsupported(f"{fi.fq}: stack writes other than pop()")
    own = [p for p in fi.params if p != "self"]
    if not own or not any(isinstance(c, ast.Compare) and any(_is_name(x, own[0]) for x in [c.left] + c.comparators) for c in ast.walk(fi.node)):
        raise Unsupported(f"{fi.fq}: the first parameter is not the closing tag's name ({fi.params})")
    bad_match = bad_nomatch = bad_root = None
    used_counters = sorted({P.counter_of(x) for x in ast.walk(fi.node) if P.counter_of(x)})
    bad_counter: dict[str, str] = {}
    n_rows = 0
    for depth in range(1, 5):
        for bits in range(2 ** depth):
            # bit 0: the root carries the closing tag's name (tokenize_html(text, name=...)); it is not an open element
            pattern = [bool(bits >> k & 1) for k in range(depth)]
            want = next((d for d, m in enumerate(reversed(pattern[1:]), start=1) if m), 0)
            run = _EncloseRun(P, fi, pattern)
            n_rows += 1
            try:
                run.block(fi.node.body)
                got = f"{run.pops} popped"
                wrong = run.pops != want
            except _Stops as e:
                got = f"{run.pops} popped, then {e.why}" if e.why != "raise" else f"{run.pops} popped, then an exception is raised"
                wrong = run.pops != want or e.why != "raise"
            shape = "[Root" + "".join(", match" if m else ", other" for m in pattern[1:]) + "] (bottom .. top)"
            for c in used_counters:
                decs = list(run.decs.get(c, []))
                unpaired = []
                for ent in run.popped_entries:
                    if ent in decs:
                        decs.remove(ent)
                    elif ent.matches and "name" in decs:
                        decs.remove("name")
                    else:
                        unpaired.append(ent)
                if (unpaired or decs) and c not in bad_counter:
                    what = []
                    if unpaired:
                        what.append(f"{len(unpaired)} of the {len(run.popped_entries)} popped element(s) ({', '.join('the matched one' if e.matches else 'an implicitly closed one' for e in unpaired)}) get no decrement of {c}[<their name>]")
                    if decs:
                        what.append(f"{len(decs)} decrement(s) without a popped element")
                    bad_counter[c] = f"open elements {shape}: " + "; ".join(what)
            if pattern[0]:
                shape = shape.replace("[Root", "[Root (same name)", 1)
                if wrong and bad_root is None:
                    bad_root = f"open elements {shape}: {got}, expected {want}" + (" - the root itself is popped" if run.root in run.popped_entries else "")
                continue
            if wrong:
                msg = f"open elements {shape}: {got}, expected {want}"
                if want and bad_match is None:
                    bad_match = msg
                elif not want and bad_nomatch is None:
                    bad_nomatch = msg
    site = fi.site()
    key = f"{fi.fq}|pops down to the nearest open element with the closing tag's name"
    if bad_match:
        rep.violation("C16.R5", key, site, f"{fi.qualname}: {bad_match} - balanced input closes the wrong elements, so children are attached to the wrong parent and the rendering differs from the source")
    else:
        rep.ok("C16.R5", key, site, f"{n_rows}-row decision table over abstract stacks of depth 1-4")
    for c in used_counters:
        key = f"{fi.fq}|per-name counter {c} stays in step with the stack"
        if c in bad_counter:
            rep.violation("C16.R5", key, site, f"{fi.qualname} decides from self.{c} but does not keep it equal to the number of open elements per name - {bad_counter[c]}: afterwards the counter still claims an open element that is gone, a later closing tag of that name passes the guard and the pop loop runs through the Root (IndexError: pop from an empty deque) or closes unrelated elements")
        else:
            rep.ok("C16.R5", key, site, "every pop is paired with one decrement keyed by the popped element's name, on every row")
    key = f"{fi.fq}|the root is never treated as an open element"
    if bad_root:
        rep.violation("C16.R5", key, site, f"{fi.qualname}: {bad_root} - with tokenize_html(text, name=N) the root is not an open element (popping it leaves an empty stack: IndexError in last()), while an open element named N still is one and `</N>` must close it")
    else:
        rep.ok("C16.R5", key, site, "rows in which the root carries the closing tag's name behave as if it did not")
    key = f"{fi.fq}|no open element matches: nothing is popped"
    if bad_nomatch:
        rep.violation("C16.R5", key, site, f"{fi.qualname}: {bad_nomatch} - a stray `</x>` closes open elements (up to the root: the next event then raises IndexError in last() and the remaining text is lost)")
    else:
        rep.ok("C16.R5", key, site, "no pop on any no-match row")


# ---------------------------------------------------------------------------
# R6 totality


@rule("C16.R6")
def r6_totality(corpus: Corpus, rep: Report, tier: str):
    P = _ctx(corpus)
    entries: list[tuple[str | None, str, list[str]]] = [(None, "parsers.parse_html:tokenize_html", [])]
    for name in _stdlib_callbacks(corpus):
        if name in P.parser.methods:
            entries.append((None, f"parsers.parse_html:HtmlToAst.{name}", []))
    # append() on an element is collections.abc.MutableSequence.append -> Element.insert (not a package edge)
    for q in ("insert", "__setitem__"):
        if q in P.element.methods:
            entries.append((None, f"parsers.parse_html:Element.{q}", []))
    tmp = Report(rep.prop, rep.tier, quiet=True)
    escape_closure(corpus, tmp, "C16.R6", entries, "no exception escapes tokenize_html or any HTMLParser callback (callbacks run inside feed)")
    rep.rule("C16.R6", tmp.rule_docs["C16.R6"])
    for k in ("functions", "call_sites"):
        rep.analysed[k] |= tmp.analysed[k]
    r2_clean = not any(i.rule == "C16.R2" and i.status == "violation" for i in rep.items) and not any(r == "C16.R2" for r, _ in rep.errors)
    for it in tmp.items:
        if it.status == "violation" and _is_list_method_call(P, it.key):
            rep.ok("C16.R6", it.key, it.site, "the receiver is the children list (list.__setitem__ / list.insert), not an element: no recursion (engine resolves the call by method name)")
            continue
        if it.status == "violation" and r2_clean and _is_link_assertion(P, it.key):
            # the engine tables this for Element.insert/__setitem__/reset_children by name; the same guard moved into a helper
            rep.assumed("C16.R6", it.key, it.site, "link-consistency assertion of the Element hierarchy: C16.R1/R2 show that only fresh Elements are inserted while parsing")
        else:
            rep.items.append(it)
    rep.errors.extend(tmp.errors)
    rep.ok("C16.R6", "last() never sees an empty stack", P.m.func("tokenize_html").site(), "C16.R5: the closing function never pops the root (whatever name the root was given), every other function leaves at least what it found")
    rep.expect_min("C16.R6", 2, "HTMLParser.feed catalogue entry + the stack-never-empty argument")


def _is_list_method_call(P: Ctx, key: str) -> bool:
    """key = entry=..|RecursionError|origin=<fq>|<call text>: the call is `self._children.<m>(...)` inside Element.<m>."""
    parts = key.split("|", 3)
    if len(parts) != 4 or parts[1] != "RecursionError" or not parts[2].startswith("origin="):
        return False
    mname, _, q = parts[2][len("origin="):].partition(":")
    mod = P.c.modules.get(mname)
    fi = mod.functions.get(q) if mod is not None else None
    if fi is None or not P.in_hier(P.owner_class(fi)):
        return False
    for n in walk_local(fi.node):
        if isinstance(n, ast.Call) and short(n) == parts[3] and isinstance(n.func, ast.Attribute) and _is_self_attr(n.func.value, "_children"):
            init = P.element.methods.get("__init__")
            return init is not None and any(isinstance(a, (ast.Assign, ast.AnnAssign)) and _is_self_attr(a.targets[0] if isinstance(a, ast.Assign) else a.target, "_children") and isinstance(a.value, ast.List) for a in walk_local(init.node))
    return False


def _is_link_assertion(P: Ctx, key: str) -> bool:
    """key = entry=..|AssertionError|origin=<fq>|<text>: an assert / raise AssertionError in an Element method that
    tests `isinstance(x, Element)` or is guarded by a test on `x._parent`."""
    parts = key.split("|", 3)
    if len(parts) != 4 or parts[1] != "AssertionError" or not parts[2].startswith("origin="):
        return False
    fq = parts[2][len("origin="):]
    mname, _, q = fq.partition(":")
    mod = P.c.modules.get(mname)
    fi = mod.functions.get(q) if mod is not None else None
    if fi is None or not P.in_hier(P.owner_class(fi)):
        return False
    cfg = get_cfg(fi)
    for n in walk_local(fi.node):
        if isinstance(n, ast.Assert) and short(n) == parts[3]:
            t = n.test
            return isinstance(t, ast.Call) and dotted(t.func) == "isinstance" and len(t.args) == 2 and P.hier_class_named(t.args[1], fi) is not None
        if isinstance(n, ast.Raise) and short(n) == parts[3]:
            return any(isinstance(x, ast.Attribute) and x.attr == "_parent" for t, _ in cfg.guards(n) for x in ast.walk(t))
    return False


# ---------------------------------------------------------------------------
# R7 document order

ORDER_BREAKERS = {"sorted", "set", "frozenset", "reversed"}


def _children_source(e: ast.expr) -> bool:
    return _is_name(e, "self") or _is_self_attr(e, "_children") or _is_self_attr(e, "children")


def _truthy_kw(call: ast.Call, name: str, pos: int) -> bool | None:
    v = call.args[pos] if len(call.args) > pos else next((k.value for k in call.keywords if k.arg == name), None)
    if v is None:
        return False
    if isinstance(v, ast.Constant):
        return bool(v.value)
    return None


def _order_problem(P: Ctx, e: ast.expr, fi: FunctionInfo, seen: set) -> str | None:
    """None if ``e`` enumerates elements in document order; a description if it provably does not."""
    if _children_source(e):
        return None
    if isinstance(e, ast.IfExp):
        return _order_problem(P, e.body, fi, seen) or _order_problem(P, e.orelse, fi, seen)
    if isinstance(e, ast.Name):
        if e.id in seen:
            return None
        seen.add(e.id)
        for b in _bindings(fi, e.id):
            if not isinstance(b, (ast.Assign, ast.AnnAssign)) or b.value is None:
                raise Unsupported(f"{fi.fq}: binding of {e.id}")
            r = _order_problem(P, b.value, fi, seen)
            if r:
                return r
        return None
    if isinstance(e, ast.Call):
        d = dotted(e.func) or ""
        last = d.rsplit(".", 1)[-1]
        if last in ORDER_BREAKERS:
            return f"`{short(e, 50)}` does not keep document order"
        if last == "walk" and isinstance(e.func, ast.Attribute) and _is_name(e.func.value, "self"):
            return None
        if last == "chain" and len(e.args) == 2 and isinstance(e.args[0], (ast.List, ast.Tuple)) and len(e.args[0].elts) == 1 and _is_name(e.args[0].elts[0], "self"):
            return _order_problem(P, e.args[1], fi, seen)
        if last in ("list", "iter", "tuple") and len(e.args) == 1:
            return _order_problem(P, e.args[0], fi, seen)
    if isinstance(e, ast.Subscript) and isinstance(e.slice, ast.Slice) and e.slice.step is not None:
        return f"`{short(e, 50)}` reverses / strides the sequence"
    raise Unsupported(f"{fi.fq}: iteration source {short(e, 50)}")


class _TNode:
    def __init__(self, label: str, children=()):
        self.label, self.children = label, list(children)

    def preorder(self) -> list:
        out = []
        for c in self.children:
            out.append(c)
            out += c.preorder()
        return out


class _WalkRun:
    """Runs a traversal generator of the element class on an abstract tree; collects what it yields.
    Values: tree nodes, lists, iterators over lists, ints, bools, None.  Recursive calls of the same method run recursively."""

    def __init__(self, P: Ctx, fi: FunctionInfo, depth: int = 0):
        self.P, self.fi, self.depth = P, fi, depth
        self.out: list = []
        self.steps = 0

    def call_self(self, node: _TNode, args: dict) -> list:
        if self.depth > 12:
            raise Unsupported(f"{self.fi.fq}: recursion deeper than the sample trees")
        sub = _WalkRun(self.P, self.fi, self.depth + 1)
        return sub.run(node, args)

    def run(self, node: _TNode, args: dict) -> list:
        env = {"self": node}
        for p_ in [x for x in self.fi.params if x != "self"]:
            if p_ in args:
                env[p_] = args[p_]
            else:
                d = _param_default(self.fi, p_)
                if not isinstance(d, ast.Constant):
                    raise Unsupported(f"{self.fi.fq}: parameter {p_}")
                env[p_] = d.value
        self.env = env
        self.block(self.fi.node.body)
        return self.out

    def ev(self, e: ast.expr):
        if isinstance(e, ast.Constant):
            return e.value
        if isinstance(e, ast.Name):
            if e.id in self.env:
                return self.env[e.id]
            raise Unsupported(f"{self.fi.fq}: name {e.id}")
        if isinstance(e, (ast.List, ast.Tuple)):
            return [self.ev(x) for x in e.elts]
        if isinstance(e, ast.UnaryOp) and isinstance(e.op, ast.Not):
            return not self.ev(e.operand)
        if isinstance(e, ast.UnaryOp) and isinstance(e.op, ast.USub):
            return -self.ev(e.operand)
        if isinstance(e, ast.BoolOp):
            v = None
            for x in e.values:
                v = self.ev(x)
                if bool(v) != isinstance(e.op, ast.And):
                    return v
            return v
        if isinstance(e, ast.Attribute):
            b = self.ev(e.value)
            if isinstance(b, _TNode) and e.attr in ("_children", "children"):
                return list(b.children) if e.attr == "children" else b.children
            raise Unsupported(f"{self.fi.fq}: attribute `{short(e, 30)}`")
        if isinstance(e, ast.Subscript):
            b, k = self.ev(e.value), (self.ev(e.slice) if not isinstance(e.slice, ast.Slice) else None)
            if isinstance(b, _TNode):
                b = b.children
            if isinstance(b, list) and isinstance(k, int):
                if -len(b) <= k < len(b):
                    return b[k]
                raise _Stops("IndexError")
            if isinstance(b, list) and isinstance(e.slice, ast.Slice):
                lo = self.ev(e.slice.lower) if e.slice.lower else None
                hi = self.ev(e.slice.upper) if e.slice.upper else None
                st = self.ev(e.slice.step) if e.slice.step else None
                return b[lo:hi:st]
        if isinstance(e, ast.Compare) and len(e.ops) == 1:
            l, r, op = self.ev(e.left), self.ev(e.comparators[0]), e.ops[0]
            if isinstance(op, (ast.Is, ast.IsNot)):
                return (l is r) == isinstance(op, ast.Is)
            if isinstance(l, int) and isinstance(r, int):
                return {ast.Eq: l == r, ast.NotEq: l != r, ast.Lt: l < r, ast.LtE: l <= r, ast.Gt: l > r, ast.GtE: l >= r}.get(type(op))
        if isinstance(e, ast.Call):
            d = dotted(e.func)
            args = [self.ev(a) for a in e.args]
            kw = {k.arg: self.ev(k.value) for k in e.keywords}
            def seq(v):
                return v.children if isinstance(v, _TNode) else v
            if d == "iter" and len(args) == 1 and isinstance(seq(args[0]), list):
                return iter(list(seq(args[0])))
            if d in ("list", "tuple") and len(args) == 1:
                return list(seq(args[0]))
            if d == "reversed" and len(args) == 1 and isinstance(seq(args[0]), list):
                return list(reversed(seq(args[0])))
            if d == "len" and len(args) == 1 and isinstance(seq(args[0]), list):
                return len(seq(args[0]))
            if d in ("deque", "collections.deque") and len(args) <= 1:
                return list(seq(args[0])) if args else []
            if d == "next" and args and hasattr(args[0], "__next__"):
                try:
                    return next(args[0])
                except StopIteration:
                    if len(args) > 1:
                        return args[1]
                    raise _Stops("StopIteration")
            if isinstance(e.func, ast.Attribute):
                recv = self.ev(e.func.value)
                m = e.func.attr
                if isinstance(recv, _TNode) and m == self.fi.name:
                    params = [x for x in self.fi.params if x != "self"]
                    a2 = {params[i]: v for i, v in enumerate(args) if i < len(params)}
                    a2.update(kw)
                    return self.call_self(recv, a2)
                if isinstance(recv, list):
                    if m == "append" and len(args) == 1:
                        return recv.append(args[0])
                    if m == "extend" and len(args) == 1:
                        return recv.extend(list(seq(args[0])) if not hasattr(args[0], "__next__") else list(args[0]))
                    if m == "pop" and len(args) <= 1:
                        if not recv:
                            raise _Stops("IndexError: pop from empty list")
                        return recv.pop(*args)
                    if m == "popleft" and not args:
                        if not recv:
                            raise _Stops("IndexError")
                        return recv.pop(0)
                    if m == "appendleft" and len(args) == 1:
                        return recv.insert(0, args[0])
                    if m == "insert" and len(args) == 2:
                        return recv.insert(args[0], args[1])
        raise Unsupported(f"{self.fi.fq}: expression `{short(e, 50)}`")

    def items(self, v):
        if isinstance(v, _TNode):
            return iter(list(v.children))
        if isinstance(v, list):
            return iter(list(v))
        if hasattr(v, "__next__"):
            return v
        raise Unsupported(f"{self.fi.fq}: iteration over {type(v).__name__}")

    def block(self, stmts):
        for st in stmts:
            sig = self.stmt(st)
            if sig:
                return sig
        return None

    def stmt(self, st):
        self.steps += 1
        if self.steps > 5000:
            raise Unsupported(f"{self.fi.fq}: no termination within the step bound")
        if isinstance(st, ast.Pass) or (isinstance(st, ast.Expr) and isinstance(st.value, ast.Constant)):
            return None
        if isinstance(st, ast.Expr) and isinstance(st.value, ast.Yield):
            self.out.append(self.ev(st.value.value))
            return None
        if isinstance(st, ast.Expr) and isinstance(st.value, ast.YieldFrom):
            self.out.extend(list(self.items(self.ev(st.value.value))))
            return None
        if isinstance(st, ast.Expr):
            self.ev(st.value)
            return None
        if isinstance(st, ast.Assign) and len(st.targets) == 1 and isinstance(st.targets[0], ast.Name):
            self.env[st.targets[0].id] = self.ev(st.value)
            return None
        if isinstance(st, ast.AnnAssign) and isinstance(st.target, ast.Name) and st.value is not None:
            self.env[st.target.id] = self.ev(st.value)
            return None
        if isinstance(st, ast.If):
            return self.block(st.body if self.ev(st.test) else st.orelse)
        if isinstance(st, ast.For) and isinstance(st.target, ast.Name):
            broke = False
            for item in self.items(self.ev(st.iter)):
                self.env[st.target.id] = item
                sig = self.block(st.body)
                if sig == "break":
                    broke = True
                    break
                if sig == "return":
                    return sig
            return None if broke else self.block(st.orelse)
        if isinstance(st, ast.While):
            broke = False
            while self.ev(st.test):
                self.steps += 1
                if self.steps > 5000:
                    raise Unsupported(f"{self.fi.fq}: no termination within the step bound")
                sig = self.block(st.body)
                if sig == "break":
                    broke = True
                    break
                if sig == "return":
                    return sig
            return None if broke else self.block(st.orelse)
        if isinstance(st, ast.Break):
            return "break"
        if isinstance(st, ast.Continue):
            return "continue"
        if isinstance(st, ast.Return):
            return "return"
        raise Unsupported(f"{self.fi.fq}: statement `{short(st, 50)}`")


def _judge_walk(P: Ctx, rep: Report, walk: FunctionInfo) -> None:
    def tree():
        c = _TNode("c"); b = _TNode("b", [c]); d = _TNode("d"); a = _TNode("a", [b, d]); e = _TNode("e"); f = _TNode("f", [_TNode("g"), _TNode("h")])
        return _TNode("root", [a, e, f])

    site = walk.site()
    results = {}
    for inc in (False, True):
        root = tree()
        want = ([root] if inc else []) + root.preorder()
        try:
            got = _WalkRun(P, walk).run(root, {"include_self": inc})
            why = None
        except _Stops as ex:
            got, why = None, ex.why
        results[inc] = (got, want, why, root)
    got, want, why, root = results[False]
    labels = lambda seq: " ".join(n.label if isinstance(n, _TNode) else "?" for n in seq)  # noqa: E731
    key_order = f"{walk.fq}|children in list order"
    key_pre = f"{walk.fq}|pre-order, each element once"
    key_self = f"{walk.fq}|self first when requested"
    if why is not None:
        rep.violation("C16.R7", key_pre, site, f"walk() raises {why} on a small tree (root > a(b(c), d), e, f(g, h))")
        return
    if got == want:
        rep.ok("C16.R7", key_order, site)
        rep.ok("C16.R7", key_pre, site, "on the sample tree walk() yields " + labels(got))
    else:
        same_set = sorted(map(id, got)) == sorted(map(id, want))
        if same_set:
            rep.ok("C16.R7", key_order, site) if [n for n in got if n in root.children] == root.children else rep.violation("C16.R7", key_order, site, f"walk() visits the children out of list order: {labels(got)} instead of {labels(want)}")
            rep.violation("C16.R7", key_pre, site, f"walk() yields {labels(got)} on the sample tree; document (pre-)order is {labels(want)}: find() no longer returns matches in document order")
        else:
            rep.ok("C16.R7", key_order, site)
            n_dup = len(got) - len({id(n) for n in got})
            rep.violation("C16.R7", key_pre, site, f"walk() yields {labels(got)} on the sample tree instead of {labels(want)}" + (f": {n_dup} element(s) twice" if n_dup else ": elements are missing") + " - elements are not reachable exactly once")
    got, want, why, _ = results[True]
    if why is None and got == want:
        rep.ok("C16.R7", key_self, site)
    elif results[False][0] == results[False][1]:
        rep.violation("C16.R7", key_self, site, f"with include_self=True walk() yields {labels(got) if got is not None else why} instead of {labels(want)}: the element itself must come first, once")
    else:
        rep.ok("C16.R7", key_self, site, "(judged with the pre-order key)")


def _judge_class_tokens(P: Ctx, rep: Report) -> None:
    """The class filter of find() works on Attribute.classes: the class attribute split at any run of white space
    (HTML: space, tab, LF, FF, CR), which is what str.split() without arguments does."""
    fi = P.attribute.methods.get("classes")
    if fi is None:
        raise AnchorMissing("Attribute.classes not found")
    key = f"{fi.fq}|class names are separated by any white space"
    rets = [n for n in walk_local(fi.node) if isinstance(n, ast.Return) and n.value is not None]
    if len(rets) != 1:
        raise Unsupported(f"{fi.fq}: {len(rets)} return statements")
    site = fi.module.site(rets[0])
    splits = [c for c in ast.walk(_inline_locals(rets[0].value, fi)) if isinstance(c, ast.Call) and isinstance(c.func, ast.Attribute) and c.func.attr in ("split", "rsplit", "splitlines", "partition")]
    if len(splits) != 1:
        raise Unsupported(f"{fi.fq}: `{short(rets[0].value, 50)}` is not one split of the class attribute")
    c = splits[0]
    if not any(isinstance(x, ast.Constant) and x.value == "class" for x in ast.walk(c.func.value)):
        raise Unsupported(f"{fi.fq}: `{short(c, 40)}` does not split the class attribute")
    sep = c.args[0] if c.args else next((k.value for k in c.keywords if k.arg == "sep"), None)
    if c.func.attr == "split" and (sep is None or (isinstance(sep, ast.Constant) and sep.value is None)):
        rep.ok("C16.R7", key, site, "str.split() without a separator")
    elif c.func.attr in ("split", "rsplit") and isinstance(sep, ast.Constant) and isinstance(sep.value, str):
        rep.violation("C16.R7", key, site, f"`{short(c, 40)}` splits the class attribute at {sep.value!r} only: class names separated by a tab or a line break (`class=\"a\\tb\"`, a class list wrapped over two lines) are glued together, so find(classes=['a']) misses the element")
    else:
        raise Unsupported(f"{fi.fq}: `{short(c, 40)}`")


@rule("C16.R7")
def r7_document_order(corpus: Corpus, rep: Report, tier: str):
    rep.rule("C16.R7", "walk() is pre-order in list order without duplicates; find() filters it in order: name test, classes subset, every requested attribute")
    P = _ctx(corpus)
    # __iter__
    it = P.element.methods.get("__iter__")
    if it is None:
        raise AnchorMissing("Element.__iter__ not found")
    src = [n.value for n in walk_local(it.node) if isinstance(n, ast.YieldFrom)] + [n.value.args[0] for n in walk_local(it.node) if isinstance(n, ast.Return) and isinstance(n.value, ast.Call) and dotted(n.value.func) == "iter" and n.value.args]
    key = f"{it.fq}|iterates the children list in order"
    if len(src) != 1:
        raise Unsupported(f"{it.fq}: iteration idiom")
    if _is_self_attr(src[0], "_children"):
        rep.ok("C16.R7", key, it.site())
    elif isinstance(src[0], ast.Call) and (dotted(src[0].func) or "") in ORDER_BREAKERS:
        rep.violation("C16.R7", key, it.site(), f"`{short(src[0], 40)}`: children are not enumerated in list order, so render() and walk() leave document order")
    else:
        raise Unsupported(f"{it.fq}: source {short(src[0], 40)}")
    # walk: run on small abstract trees and compared with the pre-order of the descendants
    walk = P.element.methods.get("walk")
    if walk is None:
        raise AnchorMissing("Element.walk not found")
    rep.saw_function(walk.fq)
    _judge_walk(P, rep, walk)
    # find
    find = P.element.methods.get("find")
    if find is None:
        raise AnchorMissing("Element.find not found")
    rep.saw_function(find.fq)
    fcfg = get_cfg(find)
    ys = [n for n in walk_local(find.node, into_lambdas=False) if isinstance(n, (ast.Yield, ast.YieldFrom))]
    if not ys or any(not isinstance(y, ast.Yield) or not isinstance(y.value, ast.Name) for y in ys) or len({y.value.id for y in ys}) != 1:
        raise Unsupported(f"{find.fq}: expected `yield <element>` of one loop variable")
    cand = ys[0].value.id
    mains = [n for n in walk_local(find.node) if isinstance(n, ast.For) and _is_name(n.target, cand)]
    if len(mains) != 1:
        raise Unsupported(f"{find.fq}: loop binding {cand} not found")
    main = mains[0]
    key = f"{find.fq}|candidates are enumerated in document order"
    prob = _order_problem(P, main.iter, find, set())
    if prob:
        rep.violation("C16.R7", key, find.module.site(main), f"find(): {prob}; matches are not returned in document order (or duplicates collapse)")
    else:
        rep.ok("C16.R7", key, find.module.site(main), f"`{short(main.iter, 40)}` derives from self.walk() / self in order")
    _judge_find_filters(P, rep, find, main, cand)
    _judge_class_tokens(P, rep)
    rep.expect_min("C16.R7", 7, "__iter__, walk (3), find (4) on the pinned tree")


class _Raises(Exception):
    pass


class _Ret(Exception):
    def __init__(self, value):
        self.value = value


class _Frame:
    def __init__(self, fi: FunctionInfo, env: dict, skip: ast.AST | None = None):
        self.fi, self.env, self.skip = fi, env, skip  # skip: subtree whose bindings are not function-level (the main loop)


class _FindEval:
    """Abstract evaluation of one candidate of find()'s loop.

    Scenario: C (identifier is a class), N (the candidate has that tag name / is an instance), G (classes requested),
    S (every requested class is one of the candidate's class tokens), SUB (every requested class is a substring of the raw
    class attribute; S implies SUB), attrs variant ('none' | 'empty' | tuple of per-attribute match outcomes).
    Values are tagged tuples; helper methods of the element and local lambdas are inlined.
    """

    ROLES = {"identifier": ("ident",), "classes": "CLASSES", "attrs": "ATTRS"}

    def __init__(self, P: Ctx, find: FunctionInfo, main: ast.For, cand: str, C, N, G, T, U, attrs):
        self.P, self.find, self.main, self.cand = P, find, main, cand
        # T / U: per requested class (two abstract ones) - is it one of the element's class tokens / a substring of the raw attribute
        self.C, self.N, self.G, self.T, self.U, self.attrs = C, N, G, T, U, attrs
        self.S = all(T)
        self.K: ClassInfo | None = None  # concrete node class of the candidate (one of the classes the tag callbacks build)
        self.yields = 0
        self.set_calls: list[ast.Call] = []
        self.depth = 0

    # -- values
    def param_value(self, name: str):
        if name == "self":
            return ("self",)  # the element that is searched (not the candidate)
        if name == "identifier":
            return ("ident",)
        if name == "classes":
            return ("set",) if self.G else ("none",)
        if name == "attrs":
            if self.attrs == "none":
                return ("none",)
            return ("map", () if self.attrs == "empty" else tuple(self.attrs))
        raise Unsupported(f"{self.find.fq}: value of parameter {name}")

    @staticmethod
    def truth(v) -> bool:
        k = v[0]
        if k == "bool":
            return v[1]
        if k == "none":
            return False
        if k == "const":
            return bool(v[1])
        if k == "map":
            return len(v[1]) > 0
        if k == "set0":
            return False
        if k in ("set", "cand", "lambda", "ident", "attrsobj", "self"):
            return True
        raise Unsupported(f"truthiness of {k}")

    def lookup(self, name: str, fr: _Frame):
        if name in fr.env:
            return fr.env[name]
        fi = fr.fi
        binds = [b for b in _bindings(fi, name) if b == "ENTRY" or fr.skip is None or not any(b is x for x in ast.walk(fr.skip))]
        if "ENTRY" in binds:
            if fi.fq != self.find.fq:
                raise Unsupported(f"{fi.fq}: parameter {name} not bound")
            v = self.param_value(name)
            fr.env[name] = v
            for b in binds:
                if b != "ENTRY":
                    if not isinstance(b, (ast.Assign, ast.AnnAssign)) or b.value is None:
                        raise Unsupported(f"{fi.fq}: rebinding of {name}")
                    fr.env[name] = self.ev(b.value, fr)
            return fr.env[name]
        vals = [b for b in binds if isinstance(b, (ast.Assign, ast.AnnAssign)) and b.value is not None]
        if len(vals) == 1 and len(binds) == 1:
            fr.env[name] = ("pending",)
            fr.env[name] = self.ev(vals[0].value, fr)
            return fr.env[name]
        if not binds:
            ci = self.P.c.find_class(fi.module.resolve(name))
            if ci is not None and self.P.in_hier(ci):
                return ("class", ci)
        raise Unsupported(f"{fi.fq}: name {name}")

    # -- expressions
    def ev(self, e: ast.expr, fr: _Frame):
        P = self.P
        if isinstance(e, ast.Constant):
            if e.value is None:
                return ("none",)
            if isinstance(e.value, bool):
                return ("bool", e.value)
            return ("const", e.value)
        if isinstance(e, ast.Name):
            return self.lookup(e.id, fr)
        if isinstance(e, ast.Lambda):
            return ("lambda", e, fr)
        if isinstance(e, ast.Tuple) and e.elts:
            return ("tuple", tuple(self.ev(x, fr) for x in e.elts))
        if isinstance(e, ast.Dict) and not e.keys:
            return ("map", ())
        if isinstance(e, (ast.List, ast.Tuple, ast.Set)) and not e.elts:
            return ("set0",)  # an empty collection of requested classes
        if isinstance(e, ast.BoolOp):
            if isinstance(e.op, ast.Or) and len(e.values) == 2 and isinstance(e.values[1], ast.Constant) and e.values[1].value == "":
                first = self.ev(e.values[0], fr)
                if first[0] in ("val", "attrval"):
                    return first  # `value or ""`: None and "" are the same request / the same stored value
            v = None
            for x in e.values:
                v = self.ev(x, fr)
                if self.truth(v) != isinstance(e.op, ast.And):
                    return v
            return v
        if isinstance(e, ast.UnaryOp) and isinstance(e.op, ast.Not):
            return ("bool", not self.truth(self.ev(e.operand, fr)))
        if isinstance(e, ast.IfExp):
            return self.ev(e.body if self.truth(self.ev(e.test, fr)) else e.orelse, fr)
        if isinstance(e, ast.Attribute):
            base = self.ev(e.value, fr)
            if base[0] == "cand" and e.attr == "name":
                return ("candname",)
            if base[0] == "cand" and e.attr == "attrs":
                return ("attrsobj",)
            if base[0] == "attrsobj" and e.attr == "classes":
                return ("tokens",)
            raise Unsupported(f"{fr.fi.fq}: attribute `{short(e, 40)}`")
        if isinstance(e, ast.Subscript) and not isinstance(e.slice, ast.Slice):
            base, k = self.ev(e.value, fr), self.ev(e.slice, fr)
            if base[0] == "attrsobj":
                return self.attr_read(k, fr)
            raise Unsupported(f"{fr.fi.fq}: subscript `{short(e, 40)}`")
        if isinstance(e, ast.Compare) and len(e.ops) == 1:
            return self.compare(self.ev(e.left, fr), e.ops[0], self.ev(e.comparators[0], fr), e, fr)
        if isinstance(e, ast.Call):
            return self.call(e, fr)
        raise Unsupported(f"{fr.fi.fq}: expression `{short(e, 50)}`")

    def attr_read(self, k, fr):
        if k == ("const", "class"):
            return ("raw",)
        if k[0] == "key":
            return ("attrval", k[1])
        raise Unsupported(f"{fr.fi.fq}: attribute key {k}")

    def compare(self, l, op, r, node, fr):
        neg = isinstance(op, (ast.NotEq, ast.IsNot, ast.NotIn))
        res = None
        if isinstance(op, (ast.Is, ast.IsNot)) and (l[0] == "none" or r[0] == "none"):
            res = l[0] == r[0] == "none"
        elif isinstance(op, (ast.Is, ast.IsNot, ast.Eq, ast.NotEq)) and {l[0], r[0]} <= {"bool", "const"}:
            res = l[1] == r[1]
        elif isinstance(op, (ast.Eq, ast.NotEq)):
            pair = {l[0], r[0]}
            if pair == {"candname", "ident"}:
                res = False if self.C else self.N  # a tag name never equals a class object
            elif pair == {"attrval", "val"} and l[1] == r[1]:
                res = self.cur_outcome(l[1])
            elif pair == {"map", "const"} or pair == {"set", "const"}:
                raise Unsupported(f"{fr.fi.fq}: `{short(node, 40)}`")
        elif isinstance(op, (ast.In, ast.NotIn)) and l[0] == "key" and r[0] == "attrsobj":
            res = self.attrs[l[1]][0]  # the element carries the requested attribute
        elif isinstance(op, (ast.In, ast.NotIn)) and l[0] == "req":
            if r[0] == "tokens":
                res = self.T[l[1]]
            elif r[0] == "raw":
                res = self.U[l[1]]
        elif isinstance(op, (ast.LtE,)) and l[0] == "set" and r[0] == "tokens":
            res = self.S
        if res is None:
            raise Unsupported(f"{fr.fi.fq}: comparison `{short(node, 50)}`")
        return ("bool", res != neg)

    def cur_outcome(self, i: int) -> bool:
        return self.attrs[i][1]  # Attribute.__getitem__ of the element equals the requested value ('' for a missing key)

    def iterate(self, v, fr):
        """Items an iterable value yields (as values to bind to the loop target)."""
        if v[0] == "items":
            return [("tuple", (("key", i), ("val", i))) for i in range(len(v[1]))]
        if v[0] == "set":
            return [("req", 0), ("req", 1)]  # two abstract requested classes
        if v[0] == "set0":
            return []
        if v[0] == "none":
            raise _Raises("TypeError: iteration over None")
        raise Unsupported(f"{fr.fi.fq}: iteration over {v[0]}")

    def bind(self, tgt: ast.expr, v, fr):
        if isinstance(tgt, ast.Name):
            fr.env[tgt.id] = v
        elif isinstance(tgt, ast.Tuple) and v[0] == "tuple" and len(v[1]) == len(tgt.elts):
            for t, x in zip(tgt.elts, v[1]):
                self.bind(t, x, fr)
        else:
            raise Unsupported(f"{fr.fi.fq}: loop target {short(tgt, 30)}")

    def call(self, e: ast.Call, fr: _Frame):
        P = self.P
        d = dotted(e.func) or ""
        last = d.rsplit(".", 1)[-1]
        f = e.func
        if last in ("all", "any") and isinstance(f, ast.Name) and len(e.args) == 1 and isinstance(e.args[0], (ast.GeneratorExp, ast.ListComp)) and len(e.args[0].generators) == 1:
            gen = e.args[0].generators[0]
            res = []
            for item in self.iterate(self.ev(gen.iter, fr), fr):
                self.bind(gen.target, item, fr)
                if all(self.truth(self.ev(c, fr)) for c in gen.ifs):
                    res.append(self.truth(self.ev(e.args[0].elt, fr)))
            return ("bool", all(res) if last == "all" else any(res))
        if d in ("inspect.isclass", "isclass") and len(e.args) == 1 and self.ev(e.args[0], fr)[0] == "ident":
            return ("bool", self.C)
        if d == "isinstance" and len(e.args) == 2:
            a0, a1 = self.ev(e.args[0], fr), self.ev(e.args[1], fr)
            if a0[0] == "cand" and a1[0] == "ident":
                if not self.C:
                    raise _Raises("TypeError: isinstance() with a tag-name string as second argument")
                return ("bool", self.N)
            if a1[0] == "ident" and a0[0] == "ident":
                raise Unsupported(f"{fr.fi.fq}: `{short(e, 40)}`")
            if a0[0] == "cand" and (a1[0] == "class" or (a1[0] == "tuple" and all(x[0] == "class" for x in a1[1]))):
                if self.K is None:
                    raise Unsupported(f"{fr.fi.fq}: `{short(e, 40)}` (candidate class unknown)")
                mro = {c.fq for c in self.P.c.mro(self.K)}
                return ("bool", any(x[1].fq in mro for x in ([a1] if a1[0] == "class" else a1[1])))
        if d == "isinstance" and len(e.args) == 2 and self.ev(e.args[0], fr)[0] == "ident" and unparse(e.args[1]) in ("type", "str"):
            return ("bool", self.C if unparse(e.args[1]) == "type" else not self.C)
        if isinstance(f, ast.Name) and last in ("set", "frozenset", "list", "tuple", "sorted") and len(e.args) == 1:
            v = self.ev(e.args[0], fr)
            if v[0] in ("set", "tokens", "set0"):
                return v
            if not e.args:
                return ("set0",)
            if v[0] == "none":
                raise _Raises("TypeError: set(None)")
        if isinstance(f, ast.Name) and last in ("set", "frozenset", "list", "tuple") and not e.args and not e.keywords:
            return ("set0",)
        if isinstance(f, ast.Name) and last == "dict" and len(e.args) <= 1:
            v = self.ev(e.args[0], fr) if e.args else ("map", ())
            if v[0] == "map":
                return v
        if isinstance(f, ast.Attribute) and (_is_name(f.value, "self") and fr.fi.cls is not None and P.in_hier(fr.fi.cls) or P.hier_class_named(f.value, fr.fi) is not None):
            # a helper of the element class called on the searching element or on the class (static / class method)
            meth = P.c.lookup_method(P.element, f.attr)
            if meth is not None and not meth.is_generator() and f.attr not in ("walk", "find"):
                return self.inline(meth, e, fr, fr.env.get("self", ("self",)) if _is_name(f.value, "self") else ("self",))
        if isinstance(f, ast.Attribute):
            recv = self.ev(f.value, fr)
            m = f.attr
            if recv[0] == "none":
                raise _Raises(f"AttributeError: None has no attribute {m} (`{short(e, 40)}` with the default None)")
            if recv[0] == "map" and m == "items" and not e.args:
                return ("items", recv[1])
            if recv[0] == "set0" and m == "issubset" and len(e.args) == 1:
                return ("bool", True)
            if recv[0] == "set" and len(e.args) == 1:
                arg = self.ev(e.args[0], fr)
                if arg[0] == "tokens":
                    self.set_calls.append(e)
                    return ("bool", self.S)
            if recv[0] == "attrsobj" and m == "get" and 1 <= len(e.args) <= 2:
                return self.attr_read(self.ev(e.args[0], fr), fr)
            if recv[0] == "raw" and m == "split" and not e.args:
                return ("tokens",)
            if recv[0] == "cand":
                meth = P.c.lookup_method(P.element, m)
                if meth is not None and not meth.is_generator():
                    return self.inline(meth, e, fr, recv)
        if isinstance(f, ast.Name):
            fv = self.lookup(f.id, fr) if (f.id in fr.env or _bindings(fr.fi, f.id)) else None
            if fv is not None and fv[0] == "lambda":
                lam, lfr = fv[1], fv[2]
                params = [a.arg for a in lam.args.args]
                if len(params) != len(e.args) or e.keywords:
                    raise Unsupported(f"{fr.fi.fq}: call `{short(e, 40)}`")
                env = dict(lfr.env)
                for p_, a_ in zip(params, e.args):
                    env[p_] = self.ev(a_, fr)
                return self.ev(lam.body, _Frame(lfr.fi, env, lfr.skip))
        raise Unsupported(f"{fr.fi.fq}: call `{short(e, 50)}`")

    def inline(self, meth: FunctionInfo, call: ast.Call, fr: _Frame, selfval):
        self.depth += 1
        if self.depth > 3:
            raise Unsupported(f"{meth.fq}: helper nesting too deep")
        params = [p for p in meth.params if p != "self"]
        env = {"self": selfval}
        for i, p_ in enumerate(params):
            arg = call.args[i] if i < len(call.args) else next((k.value for k in call.keywords if k.arg == p_), None)
            if arg is None:
                d = _param_default(meth, p_)
                if d is None:
                    raise Unsupported(f"{meth.fq}: no argument for {p_}")
                env[p_] = self.ev(d, fr)
            else:
                env[p_] = self.ev(arg, fr)
        nf = _Frame(meth, env)
        try:
            self.block(meth.node.body, nf)
            out = ("none",)
        except _Ret as r:
            out = r.value
        self.depth -= 1
        return out

    # -- statements: None | 'break' | 'continue'
    def block(self, stmts, fr) -> str | None:
        for st in stmts:
            sig = self.stmt(st, fr)
            if sig:
                return sig
        return None

    def stmt(self, st: ast.stmt, fr: _Frame) -> str | None:
        if isinstance(st, ast.Pass) or (isinstance(st, ast.Expr) and isinstance(st.value, ast.Constant)):
            return None
        if isinstance(st, ast.If):
            return self.block(st.body if self.truth(self.ev(st.test, fr)) else st.orelse, fr)
        if isinstance(st, (ast.Assign, ast.AnnAssign)):
            tgt = st.targets[0] if isinstance(st, ast.Assign) and len(st.targets) == 1 else getattr(st, "target", None)
            if isinstance(tgt, ast.Name) and st.value is not None:
                fr.env[tgt.id] = self.ev(st.value, fr)
                return None
        if isinstance(st, ast.AugAssign) and isinstance(st.target, ast.Name) and isinstance(st.op, (ast.BitAnd, ast.BitOr)):
            cur, v = self.truth(self.lookup(st.target.id, fr)), self.truth(self.ev(st.value, fr))
            fr.env[st.target.id] = ("bool", (cur and v) if isinstance(st.op, ast.BitAnd) else (cur or v))
            return None
        if isinstance(st, ast.Expr) and isinstance(st.value, ast.Yield) and fr.fi.fq == self.find.fq and _is_name(st.value.value, self.cand):
            self.yields += 1
            return None
        if isinstance(st, ast.Continue):
            return "continue"
        if isinstance(st, ast.Break):
            return "break"
        if isinstance(st, ast.Return):
            raise _Ret(self.ev(st.value, fr) if st.value is not None else ("none",))
        if isinstance(st, ast.For):
            broke = False
            for item in self.iterate(self.ev(st.iter, fr), fr):
                self.bind(st.target, item, fr)
                sig = self.block(st.body, fr)
                if sig == "break":
                    broke = True
                    break
            return None if broke else self.block(st.orelse, fr)
        raise Unsupported(f"{fr.fi.fq}: statement `{short(st, 50)}` in the candidate test")

    def run(self) -> str | None:
        fr = _Frame(self.find, {self.cand: ("cand",)}, self.main)
        try:
            return self.block(self.main.body, fr)
        except _Ret:
            return "return"


def _find_scenarios():
    # per requested attribute: (the element has the key, Attribute.__getitem__ equals the requested value)
    M, D, A, X = (True, True), (True, False), (False, True), (False, False)  # match / differs / absent but '' requested / absent
    variants = ["none", "empty", (M,), (D,), (A,), (X,), (M, M), (M, D), (D, M), (M, A), (A, M), (D, D)]
    TT, TF, FF = (True, True), (True, False), (False, False)
    for C in (False, True):
        for N in (True, False):
            for G, T, U in ((False, TT, TT), (True, TT, TT), (True, TF, TT), (True, TF, TF), (True, FF, TT), (True, FF, FF)):
                for a in variants:
                    yield C, N, G, T, U, a


def _scenario_text(C, N, G, T, U, a) -> str:
    idt = "identifier is an element class" if C else "identifier is a tag name"
    if not G:
        cls = "no classes requested"
    elif all(T):
        cls = "both requested classes are among the element's class tokens"
    else:
        cls = f"{'one' if any(T) else 'none'} of the two requested classes is among the element's class tokens"
        if all(U):
            cls += ", the other only as a substring of the raw class attribute (e.g. 'note' in class=\"notebook\")" if any(T) else ", both occur as substrings of the raw class attribute (e.g. 'note' in class=\"notebook\")"
    names = {(True, True): "present and equal", (True, False): "present but different", (False, True): "absent on the element (and '' / None requested, which Attribute.__getitem__ also returns for a missing key)", (False, False): "absent on the element"}
    att = "no attrs requested" if a in ("none", "empty") else "requested attributes: " + ", ".join(names[x] for x in a)
    return f"{idt} and {'matches' if N else 'does not match'}, {cls}, {att}"


def _judge_find_filters(P: Ctx, rep: Report, find: FunctionInfo, main: ast.For, cand: str) -> None:
    """Decision table of the candidate test against: yield once iff name and (classes is None or token-subset) and all attrs match."""
    keys = {
        "classes": f"{find.fq}|classes filter: requested classes are a subset of the element's",
        "attrs": f"{find.fq}|attrs filter: every requested attribute must match",
        "name": f"{find.fq}|name filter: tag name equals / class is instance of the identifier",
    }
    site = find.module.site(main)
    bad: dict[str, str] = {}
    set_calls: dict[int, ast.Call] = {}
    results: dict[tuple, tuple[bool, str, int]] = {}
    # node classes that carry a tag name: what the tag callbacks build
    cbmap = _callback_map(P)
    kinds: list[ClassInfo] = []
    for cbn in ("handle_starttag", "handle_startendtag"):
        for em in cbmap.get(cbn, []):
            if em.cls is not None and em.cls not in kinds:
                kinds.append(em.cls)
    if not kinds:
        raise Unsupported(f"{find.fq}: no tag node classes found")
    void_attr, _ = _void_elements(P)
    boxes = [em.cls for em in cbmap.get("handle_starttag", []) if em.cls is not None and _void_polarity(em, void_attr) is False]
    kinds.sort(key=lambda k: k not in boxes)  # the element that can have children leads the full table
    TT = (True, True)
    rows = [(kinds[0], sc) for sc in _find_scenarios()]
    rows += [(k, (C, N, False, TT, TT, "none")) for k in kinds[1:] for C in (False, True) for N in (True, False)]
    kind_bad: str | None = None
    for K, sc in rows:
        C, N, G, T, U, a = sc
        run = _FindEval(P, find, main, cand, C, N, G, T, U, a)
        run.K = K
        want = 1 if (N and (not G or all(T)) and (a in ("none", "empty") or all(p_ and e_ for p_, e_ in a))) else 0
        try:
            sig = run.run()
            got = "the element is yielded" + (f" {run.yields} times" if run.yields > 1 else "") if run.yields else "the element is not yielded"
            wrong = run.yields != want
            if sig in ("break", "return"):
                wrong, got = True, "the candidate loop is left: later matching elements are never returned"
        except _Raises as e:
            wrong, got = True, str(e)
        for c in run.set_calls:
            set_calls[id(c)] = c
        if K is kinds[0]:
            results[sc] = (wrong, got, want)
        elif wrong and kind_bad is None:
            kind_bad = f"when the element is a {K.name} and {_scenario_text(*sc)}: {got} (expected: {'yielded once' if want else 'not yielded'}) - every element built from a tag ({', '.join(k.name for k in kinds)}) must be found by its tag name"
    for sc, (wrong, got, want) in results.items():
        if not wrong:
            continue
        C, N, G, T, U, a = sc
        TT_ = (True, True)
        plain_rows = [k2 for k2, v2 in results.items() if k2[0] == C and k2[1] and not k2[2] and v2[2] == 1]
        if not N:
            which = "name"
        elif plain_rows and all(results[k2][0] for k2 in plain_rows):
            which = "name"  # never found by name, whatever else is requested
        elif results[(C, N, False, TT_, TT_, a)][0]:
            which = "attrs"  # wrong even when no classes are requested
        else:
            which = "classes"
        bad.setdefault(which, f"when {_scenario_text(*sc)}: {got} (expected: {'yielded once' if want else 'not yielded'})")
    if kind_bad:
        bad.setdefault("name", kind_bad)
    for c in set_calls.values():
        if c.func.attr != "issubset":
            bad["classes"] = f"`{short(c, 50)}`: the class filter must accept an element iff every requested class is among its classes (issubset); `{c.func.attr}` accepts a different set of elements"
    for which, key in keys.items():
        if which in bad:
            rep.violation("C16.R7", key, site, f"find(): {bad[which]}")
        else:
            rep.ok("C16.R7", key, site, f"{len(rows)}-row decision table of the candidate test agrees with: name and (classes is None or token-subset) and all requested attributes equal")


# ---------------------------------------------------------------------------
# R8 every parse starts from clean tokenizer state

CACHE_DECORATORS = {"lru_cache", "cache", "cached_property", "cached", "memoize"}


def _parser_ctor(P: Ctx, e: ast.expr, fi: FunctionInfo) -> bool:
    if not isinstance(e, ast.Call):
        return False
    ci = P.c.find_class(fi.module.resolve(dotted(e.func) or ""))
    return ci is not None and any(c.fq == P.parser.fq for c in P.c.mro(ci))


def _parser_lifetime(P: Ctx, recv: ast.expr, fi: FunctionInfo, call_stmt, depth: int = 0) -> tuple[bool, str]:
    """(fresh, why): is the parser object that receives feed() created for this very call?"""
    if _parser_ctor(P, recv, fi):
        return True, f"constructed in the call: {short(recv, 40)}"
    if isinstance(recv, ast.Call) and isinstance(recv.func, ast.Attribute) and recv.func.attr in ("setdefault", "get", "pop", "__getitem__"):
        box = recv.func.value
        root = box
        while isinstance(root, (ast.Subscript, ast.Attribute)):
            root = root.value
        if isinstance(box, ast.Attribute) or (isinstance(root, ast.Name) and not _bindings(fi, root.id)):
            return False, f"`{short(recv, 40)}` takes the parser out of a container that lives across calls"
        raise Unsupported(f"{fi.fq}: parser obtained from `{short(recv, 40)}`")
    if isinstance(recv, ast.Call) and depth < 2:
        tg = [t for t in P.g.resolve_call(recv, fi) if isinstance(t, FunctionInfo)]
        if len(tg) == 1 and not tg[0].is_lambda:
            f = tg[0]
            if any(d.rsplit(".", 1)[-1] in CACHE_DECORATORS for d in f.decorators()):
                return False, f"`{f.qualname}` is memoised ({', '.join(f.decorators())}): it hands out the same parser again"
            rets = [n for n in walk_local(f.node) if isinstance(n, ast.Return)]
            if rets and all(r.value is not None for r in rets):
                sub = [_parser_lifetime(P, r.value, f, get_cfg(f).stmt_of(r), depth + 1) for r in rets]
                if all(x[0] for x in sub):
                    return True, f"`{f.qualname}` builds a new parser on every call"
                return False, next(x[1] for x in sub if not x[0])
        raise Unsupported(f"{fi.fq}: parser obtained from `{short(recv, 40)}`")
    if isinstance(recv, ast.Name):
        binds = _bindings(fi, recv.id)
        if not binds:
            if recv.id in fi.module.const_nodes or any(isinstance(st, (ast.Assign, ast.AnnAssign)) and any(_is_name(x, recv.id) for x in ast.walk(st)) for st in fi.module.tree.body):
                return False, f"`{recv.id}` is a module-level / enclosing-scope object that lives across calls"
            raise Unsupported(f"{fi.fq}: parser name {recv.id} has no binding")
        if binds == ["ENTRY"]:
            raise Unsupported(f"{fi.fq}: the parser is a parameter ({recv.id})")
        cfg = get_cfg(fi)
        for b in binds:
            if not isinstance(b, (ast.Assign, ast.AnnAssign)) or b.value is None:
                raise Unsupported(f"{fi.fq}: binding of {recv.id}")
            ok, why = _parser_lifetime(P, b.value, fi, b, depth)
            if not ok:
                return False, why
            if cfg.loops.get(b) is not cfg.loops.get(call_stmt):
                return False, f"`{recv.id}` is created outside the loop that feeds it repeatedly"
        return True, f"`{recv.id}` is bound to a parser constructed in this call"
    if isinstance(recv, (ast.Subscript, ast.Attribute)):
        return False, f"`{short(recv, 40)}` is stored state that lives across calls"
    if isinstance(recv, ast.IfExp):
        a, b = _parser_lifetime(P, recv.body, fi, call_stmt, depth), _parser_lifetime(P, recv.orelse, fi, call_stmt, depth)
        return (a[0] and b[0]), (a[1] if not a[0] else b[1])
    raise Unsupported(f"{fi.fq}: parser expression `{short(recv, 40)}`")


def _mentions_parser(P: Ctx, node: ast.AST, fi: FunctionInfo, depth: int = 0) -> bool:
    """Does the definition mention the parser class, directly or through a package function it calls / a module-level name?"""
    names = {x.id for x in ast.walk(node) if isinstance(x, ast.Name)}
    if P.parser.name in names:
        return True
    if depth >= 2:
        return False
    for c in ast.walk(node):
        if isinstance(c, ast.Call):
            for t in P.g.resolve_call(c, fi):
                if isinstance(t, FunctionInfo) and not t.is_lambda and t.cls is None and _mentions_parser(P, t.node, t, depth + 1):
                    return True
    val = node.value if isinstance(node, (ast.Assign, ast.AnnAssign)) else None
    for x in ast.walk(val) if val is not None else []:
        if isinstance(x, ast.Name):
            for st in fi.module.tree.body:
                if isinstance(st, (ast.Assign, ast.AnnAssign)) and st is not node and any(_is_name(y, x.id) for t in (st.targets if isinstance(st, ast.Assign) else [st.target]) for y in ast.walk(t)):
                    if _mentions_parser(P, st, fi, depth + 1):
                        return True
    return False


def _feed_resets(P: Ctx, corpus: Corpus) -> tuple[bool, str]:
    """Does HtmlToAst.feed() bring the inherited tokenizer state back to empty before feeding?"""
    feed = P.parser.methods.get("feed")
    if feed is None:
        return False, "HtmlToAst does not override feed()"
    cfg = get_cfg(feed)
    sup = [n for n in walk_local(feed.node) if isinstance(n, ast.Call) and dotted(n.func) == "super().feed"]
    res = [n for n in walk_local(feed.node) if isinstance(n, ast.Call) and dotted(n.func) in ("self.reset", "super().reset") and not n.args]
    if not sup:
        raise Unsupported(f"{feed.fq}: no super().feed(...) call")
    _, _, std = _stdlib(corpus)
    sreset = std.methods.get("reset")
    clears = sreset is not None and any(isinstance(n, ast.Assign) and any(_is_self_attr(t, "rawdata") for t in n.targets) for n in walk_local(sreset.node))
    own = P.parser.methods.get("reset")
    if own is not None and not any(isinstance(n, ast.Call) and dotted(n.func) == "super().reset" for n in walk_local(own.node)):
        clears = False
    if res and clears and all(any(cfg.dominates(cfg.stmt_of(r), cfg.stmt_of(c)) for r in res) for c in sup):
        return True, "feed() calls reset() (stdlib: clears rawdata and CDATA mode) before super().feed()"
    return False, "feed() does not reset the inherited HTMLParser buffer"


@rule("C16.R8")
def r8_clean_state_per_parse(corpus: Corpus, rep: Report, tier: str):
    rep.rule("C16.R8", "each parse starts from clean tokenizer state: the parser that tokenize_html (or any package caller) feeds is constructed for that call, or feed() resets the inherited buffer first")
    P = _ctx(corpus)
    resets, rwhy = _feed_resets(P, corpus)
    feed = P.parser.methods.get("feed")
    sites = []
    for fi in corpus.all_functions():
        if fi.is_lambda:
            continue
        for call in walk_local(fi.node, into_lambdas=False):
            if not (isinstance(call, ast.Call) and isinstance(call.func, ast.Attribute) and call.func.attr == "feed"):
                continue
            if dotted(call.func) == "super().feed":
                continue
            tg = P.g.resolve_call(call, fi)
            hit = any(isinstance(t, FunctionInfo) and feed is not None and t.fq == feed.fq for t in tg)
            if not hit:
                rt = P.g.expr_type(call.func.value, fi)
                hit = bool(rt and rt[0] == "is" and any(c.fq == P.parser.fq for c in P.c.mro(rt[1])))
            if not hit and fi.module.resolve(P.parser.name) == f"{P.m.name}.{P.parser.name}":
                # receiver of unknown type in a module that knows the parser class: look at what its root name holds
                root = call.func.value
                while isinstance(root, (ast.Subscript, ast.Attribute, ast.Call)):
                    root = root.value if not isinstance(root, ast.Call) else root.func
                if isinstance(root, ast.Name) and root.id != "self":
                    defs = [st for st in fi.module.tree.body if isinstance(st, (ast.Assign, ast.AnnAssign)) and any(_is_name(x, root.id) for t in (st.targets if isinstance(st, ast.Assign) else [st.target]) for x in ast.walk(t))]
                    defs += [b for b in _bindings(fi, root.id) if b != "ENTRY"]
                    if any(_mentions_parser(P, d, fi) for d in defs):
                        hit = True
                    elif fi.module.name == P.m.name and not any(isinstance(t, FunctionInfo) for t in tg):
                        raise Unsupported(f"{fi.fq}: cannot tell whether `{short(call, 50)}` feeds an HtmlToAst")
            if hit:
                sites.append((fi, call))
    for fi, call in sites:
        rep.saw_function(fi.fq)
        rep.saw_call(fi.module.site(call))
        key = f"{fi.fq}|the parser fed here starts from clean state"
        site = fi.module.site(call)
        if resets:
            rep.ok("C16.R8", key, site, rwhy)
            continue
        fresh, why = _parser_lifetime(P, call.func.value, fi, get_cfg(fi).stmt_of(call))
        if fresh:
            rep.ok("C16.R8", key, site, why)
        else:
            rep.violation(
                "C16.R8",
                key,
                site,
                f"{why}, and {rwhy}: HTMLParser keeps unconsumed input (rawdata) and CDATA mode between feed() calls, so after a document that ends inside an unfinished construct "
                "(`text <div`, `a &am`, `<script>`) the left-over text is prepended to - or swallows - the next, well-formed document and its rendering no longer equals its source",
            )
    rep.expect_min("C16.R8", 1, "tokenize_html feeds a parser")


# ---------------------------------------------------------------------------
# R9 traversal depth


def _loop_vars_over_children(fi: FunctionInfo) -> set[str]:
    """Names bound by a for loop / comprehension in ``fi`` (candidates for 'a child of the element at hand')."""
    out = set()
    for n in walk_local(fi.node):
        if isinstance(n, (ast.For, ast.comprehension)):
            for x in ast.walk(n.target):
                if isinstance(x, ast.Name):
                    out.add(x.id)
    return out


@rule("C16.R9")
def r9_traversal_depth(corpus: Corpus, rep: Report, tier: str):
    rep.rule("C16.R9", "the parser builds trees of unbounded depth iteratively: a traversal of the element that can have children must not call itself once per nesting level")
    P = _ctx(corpus)
    cbmap = _callback_map(P)
    void_attr, _ = _void_elements(P)
    containers = [e.cls for e in cbmap.get("handle_starttag", []) if e.cls is not None and _void_polarity(e, void_attr) is False]
    if len(containers) != 1:
        raise Unsupported(f"expected one element class with children, found {[c.name for c in containers]}")
    box = containers[0]
    # the tree is built without recursion (otherwise depth is bounded by the parser itself and this rule is moot)
    push = [e.tm for e in cbmap.get("handle_starttag", []) if e.cls is box]
    rep.saw_function(push[0].fq)
    seen = set()
    n = 0
    for ci in corpus.mro(box):
        for name, fi in ci.methods.items():
            if name in seen or fi.is_lambda:
                continue
            seen.add(name)
            vars_ = _loop_vars_over_children(fi)
            rec = [c for c in walk_local(fi.node) if isinstance(c, ast.Call) and isinstance(c.func, ast.Attribute) and c.func.attr == name and isinstance(c.func.value, ast.Name) and c.func.value.id in vars_]
            if not vars_:
                continue
            n += 1
            key = f"{fi.fq}|no recursion per nesting level"
            if rec:
                rep.violation(
                    "C16.R9",
                    key,
                    fi.module.site(rec[0]),
                    f"{fi.qualname} calls `{short(rec[0], 40)}` for every child, i.e. once per nesting level, while {push[0].qualname} nests elements without any depth bound: "
                    f"on balanced input such as '<b>'*1000 + 'x' + '</b>'*1000 the tree is built but {name}() raises RecursionError",
                )
            else:
                rep.ok("C16.R9", key, fi.site(), "loops over children without calling itself on them")
    rep.expect_min("C16.R9", 4, "walk, deepcopy, strip, render (and the other child loops) of the container element")


# ---------------------------------------------------------------------------
# R10: the override that shields feed() from html.parser's marked-section AssertionErrors swallows all of them

_COVERS_ASSERTION = ("AssertionError", "Exception", "BaseException")


def _handler_covers_assertion(h: ast.ExceptHandler) -> bool | None:
    """True / False, None when a handler type is not a plain (dotted) exception name."""
    if h.type is None:
        return True
    names = list(h.type.elts) if isinstance(h.type, ast.Tuple) else [h.type]
    unknown = False
    for t in names:
        d = dotted(t)
        if d is None:
            unknown = True
        elif d.rsplit(".", 1)[-1] in _COVERS_ASSERTION:
            return True
        elif not (d.rsplit(".", 1)[-1].endswith(("Error", "Exception", "Warning", "Exit", "Interrupt", "StopIteration"))):
            unknown = True
    return None if unknown else False


def _stdlib_marked_section_raises(mb) -> list[str]:
    """Texts of the `raise AssertionError(..)` statements in _markupbase.parse_marked_section and the self._helpers it calls."""
    fn = mb.functions.get("ParserBase.parse_marked_section")
    if fn is None:
        raise AnchorMissing("stdlib _markupbase.ParserBase.parse_marked_section not found")
    fns = [fn]
    for c in walk_local(fn.node):
        if isinstance(c, ast.Call) and isinstance(c.func, ast.Attribute) and _is_name(c.func.value, "self"):
            g = mb.functions.get(f"ParserBase.{c.func.attr}")
            if g is not None and g not in fns:
                fns.append(g)
    out = []
    for g in fns:
        for n in walk_local(g.node):
            if isinstance(n, ast.Raise) and n.exc is not None:
                f = n.exc.func if isinstance(n.exc, ast.Call) else n.exc
                if dotted(f) == "AssertionError":
                    out.append(f"{g.name}: {short(n, 70)}")
    return out


def _raise_excludes_assertion(r: ast.Raise, h: ast.ExceptHandler) -> bool:
    """The raise sits under `if not isinstance(<bound name>, <classes covering AssertionError>)` (or in the else branch of
    the positive test): it is not reached for an AssertionError."""
    if not h.name:
        return False
    child: ast.AST = r
    p = parent(r)
    while p is not None and p is not h:
        if isinstance(p, ast.If):
            test, pol = p.test, True
            if isinstance(test, ast.UnaryOp) and isinstance(test.op, ast.Not):
                test, pol = test.operand, False
            if isinstance(test, ast.Call) and _is_name(test.func, "isinstance") and len(test.args) == 2 and _is_name(test.args[0], h.name):
                cls = list(test.args[1].elts) if isinstance(test.args[1], ast.Tuple) else [test.args[1]]
                covers = any((dotted(t) or "").rsplit(".", 1)[-1] in _COVERS_ASSERTION for t in cls)
                in_body = any(child is st for st in p.body)
                in_else = any(child is st for st in p.orelse)
                if covers and ((not pol and in_body) or (pol and in_else)):
                    return True
        child, p = p, parent(p)
    return False


@rule("C16.R10")
def r10_marked_section_handler_swallows(corpus: Corpus, rep: Report, tier: str):
    rep.rule(
        "C16.R10",
        "the handler that catches the AssertionError of the inherited parse_marked_section (the raise html.parser reaches from feed()) "
        "swallows every such AssertionError: no path of the handler re-raises it",
    )
    P = _ctx(corpus)
    _, mb, _ = _stdlib(corpus)
    rep.saw_sibling(mb.rel)
    raises = _stdlib_marked_section_raises(mb)
    name = "parse_marked_section"
    key = f"{P.parser.fq}.{name}|every AssertionError of the inherited call is swallowed"
    if not raises:
        rep.ok("C16.R10", key, P.parser.methods[name].site() if name in P.parser.methods else P.m.site(P.parser.node), "the installed _markupbase.parse_marked_section raises no AssertionError: nothing to swallow")
        return
    fi = P.parser.methods.get(name)
    if fi is None:
        raise AnchorMissing(f"{P.parser.name} no longer overrides {name} (C16.R6 judges the feed() entry)")
    rep.saw_function(fi.fq)
    sup = [c for c in walk_local(fi.node) if isinstance(c, ast.Call) and isinstance(c.func, ast.Attribute) and c.func.attr == name and not _is_name(c.func.value, "self")]
    if not sup:
        raise Unsupported(f"{fi.qualname} does not call the inherited {name}: a re-implementation is not understood")
    # an outer safety net (a handler for AssertionError around feed / in the entry point) would make a re-raise harmless: not decided here
    outer_net = False
    for q in [P.parser.methods.get("feed"), P.m.functions.get("tokenize_html")]:
        if q is None:
            continue
        for n in walk_local(q.node):
            if isinstance(n, ast.ExceptHandler) and _handler_covers_assertion(n) is not False:
                outer_net = True
    for call in sup:
        rep.saw_call(fi.module.site(call))
        verdict = None  # ("ok"|"violation"|"error", site node, text)
        child: ast.AST = call
        p = parent(call)
        while p is not None and verdict is None:
            if isinstance(p, ast.Try) and any(child is st for st in p.body):
                for h in p.handlers:
                    cov = _handler_covers_assertion(h)
                    if cov is None:
                        verdict = ("error", h, f"handler type `{short(h.type, 40)}` is not a plain exception class name")
                        break
                    if not cov:
                        continue
                    bad = [r for st in h.body for r in ast.walk(st) if isinstance(r, ast.Raise) and enclosing_function(r) is fi and not _raise_excludes_assertion(r, h)]
                    if not bad:
                        verdict = ("ok", h, f"`except {short(h.type, 30) if h.type is not None else ''}` has no raise on any path: each of the {len(raises)} AssertionErrors of the stdlib path ends in the handler's recovery")
                        break
                    r = bad[0]
                    reraise = r.exc is None or (h.name and _is_name(r.exc, h.name))
                    nested_try = any(isinstance(a, ast.Try) for a in _ancestors_until(r, h))
                    if not reraise or nested_try or outer_net:
                        verdict = ("error", r, f"`{short(r, 50)}` inside the AssertionError handler of {fi.qualname}: whether the raised exception still leaves feed() is not decided")
                    else:
                        cond = [a for a in _ancestors_until(r, h) if isinstance(a, (ast.If, ast.Match, ast.While, ast.For))]
                        how = f"under `{short(cond[0].test, 60)}`" if cond and isinstance(cond[0], (ast.If, ast.While)) else ("conditionally" if cond else "unconditionally")
                        verdict = (
                            "violation",
                            r,
                            f"the handler for the inherited {name} re-raises the AssertionError {how}: html.parser reaches {len(raises)} different `raise AssertionError` there "
                            f"({'; '.join(raises[:3])}), so some malformed `<![...` input makes feed() - hence tokenize_html - raise instead of yielding a bogus comment",
                        )
                    break
                # a try without a covering handler: keep looking outwards
            if p is fi.node:
                break
            child, p = p, parent(p)
        if verdict is None:
            # C16.R6 (engine) reports the unguarded call; nothing to add here
            rep.listed("C16.R10", key + "|unguarded", fi.module.site(call), "the inherited call is not inside a handler for AssertionError: judged by C16.R6")
            continue
        kind, node, text = verdict
        if kind == "ok":
            rep.ok("C16.R10", key, fi.module.site(node), text)
        elif kind == "violation":
            rep.violation("C16.R10", key, fi.module.site(node), text)
        else:
            rep.error("C16.R10", text)
    rep.expect_min("C16.R10", 1, "the one inherited parse_marked_section call of the override")


def _ancestors_until(n: ast.AST, stop: ast.AST) -> list:
    out = []
    p = parent(n)
    while p is not None and p is not stop:
        out.append(p)
        p = parent(p)
    return out


RULES = [r1_owner_writes, r2_fresh_insertion, r3_callbacks_and_delimiters, r4_copy_before_mutate, r5_stack_discipline, r6_totality, r7_document_order, r8_clean_state_per_parse, r9_traversal_depth, r10_marked_section_handler_swallows]


def _method_src(fi: FunctionInfo) -> str:
    return ast.get_source_segment(fi.module.src, fi.node) or ""


def mutants(corpus: Corpus):
    out: list = []
    P = _ctx(corpus)
    m = P.m
    src = m.src

    def multi(edits, tail=""):
        new_src = src
        for node, txt in sorted(edits, key=lambda e_: (-e_[0].lineno, -e_[0].col_offset)):
            new_src = splice(new_src, node, txt)
        return new_src + tail

    # the calls that hand the source text of a start tag to the tree (repair 991316c)
    raw_calls = [n for cbn in ("handle_starttag", "handle_startendtag") if cbn in P.parser.methods for n in walk_local(P.parser.methods[cbn].node) if _is_starttag_text(n)]

    def add(mid, rid, node, text, expect, canary=False, noraw=False, tail=""):
        """noraw: also drop the source start tags, so that the rebuilt start tag (Attribute.__str__, fallback template) is on the path again."""
        if node is None or (noraw and not raw_calls and False):
            out.append((mid, "anchor for this mutant not found on the current tree"))
        else:
            edits = [(node, text)] + ([(c_, "None") for c_ in raw_calls] if noraw else [])
            out.append(Mutant(mid, rid, m.rel, multi(edits, tail), expect=expect, canary=canary))

    def parent_store(fi):
        return find_node(fi, lambda n: isinstance(n, ast.Assign) and unparse(n) == "item._parent = self")

    E = P.element.methods
    T = P.tree.methods
    H = P.parser.methods
    # ---- R1
    add("c16-insert-parent-store-dropped", "C16.R1", parent_store(E["insert"]), "pass", "Element.insert|parent set", canary=True)
    add("c16-setitem-parent-store-dropped", "C16.R1", parent_store(E["__setitem__"]), "pass", "Element.__setitem__|parent set")
    add("c16-reset-children-parent-store-dropped", "C16.R1", parent_store(E["reset_children"]), "pass", "Element.reset_children|parent set")
    c = find_node(T["nest_tag"], lambda n: isinstance(n, ast.Call) and unparse(n.func) == "pointer.append")
    add("c16-children-list-written-by-tree", "C16.R1", c.func if c is not None else None, "pointer._children.append", "Tree.nest_tag")
    # ---- R2
    c = find_node(E["deepcopy"], lambda n: isinstance(n, ast.Call) and unparse(n.func) == "_copy.append")
    add("c16-deepcopy-appends-original-child", "C16.R2", c.args[0] if c is not None else None, "child", "Element.deepcopy|insert", canary=True)
    td = [ci.methods["deepcopy"] for ci in P.hier if ci.fq != P.element.fq and "deepcopy" in ci.methods]
    r = find_node(td[0], lambda n: isinstance(n, ast.Return)) if td else None
    add("c16-terminal-deepcopy-returns-self", "C16.R2", r.value if r is not None else None, "self", "returns a fresh object")
    a = find_node(T["nest_vtag"], lambda n: isinstance(n, ast.Assign) and isinstance(n.value, ast.Call) and unparse(n.value.func) == "VoidTag")
    add("c16-void-tag-instances-cached", "C16.R2", a.value if a is not None else None, "self.__dict__.setdefault('_void_' + name, VoidTag(name, attrs))", "Tree.nest_vtag|insert")
    # ---- R3
    add("c16-handle-pi-override-removed", "C16.R3", H["handle_pi"].node if "handle_pi" in H else None, "pass", "handle_pi|overrides")
    add("c16-startendtag-override-removed", "C16.R3", H["handle_startendtag"].node if "handle_startendtag" in H else None, "pass", "handle_startendtag|overrides")
    cm = m.classes.get("Comment")
    js = find_node(cm.methods["render"], lambda n: isinstance(n, ast.JoinedStr)) if cm else None
    add("c16-comment-render-padded", "C16.R3", js, 'f"<!-- {self.data} -->"', "handle_comment|node class", canary=True)
    xt = m.classes.get("XTag")
    xc = None
    if xt:
        xc = find_node(xt.methods["render"], lambda n: isinstance(n, ast.JoinedStr) and "/>" in unparse(n)) or find_node(xt.methods["render"], lambda n: isinstance(n, ast.Constant) and n.value == "/>")
    if isinstance(xc, ast.JoinedStr):
        add("c16-xtag-render-space-before-slash", "C16.R3", xc, "f\"<{self.name}{' ' if self.attrs else ''}{self.attrs} />\"", "self-closing form")
    else:
        add("c16-xtag-render-space-before-slash", "C16.R3", xc, '" />"', "self-closing form", noraw=True)
    c = find_node(H["handle_comment"], lambda n: isinstance(n, ast.Call) and unparse(n.func).endswith("nest_terminal"))
    add("c16-comment-text-stripped", "C16.R3", c.args[1] if c is not None else None, "data.strip()", "handle_comment: arguments")
    c = find_node(H["handle_charref"], lambda n: isinstance(n, ast.Call) and unparse(n.func).endswith("nest_terminal"))
    if c is None:  # the reference callbacks go through a helper of the parser
        c = find_node(H["handle_charref"], lambda n: isinstance(n, ast.Call) and _is_name(n.func.value if isinstance(n.func, ast.Attribute) else None, "self") and n.args and unparse(n.args[0]) == "Char")
    add("c16-charref-built-as-entity", "C16.R3", c.args[0] if c is not None else None, "Entity", "handle_charref|node class")
    vs = next((st for st in P.parser.node.body if isinstance(st, ast.Assign) and unparse(st.targets[0]) == "void_elements"), None)
    if vs is not None and isinstance(vs.value, ast.Set):
        keep = [repr(e.value) for e in vs.value.elts if isinstance(e, ast.Constant) and e.value != "wbr"]
        add("c16-void-set-loses-wbr", "C16.R3", vs.value, "{" + ", ".join(keep) + "}", "void_elements")
        keep2 = [repr(e.value) for e in vs.value.elts if isinstance(e, ast.Constant) and e.value != "param"]
        add("c16-void-set-loses-param", "C16.R3", vs.value, "{" + ", ".join(keep2) + "}", "void_elements")
    else:
        out.append(("c16-void-set-loses-wbr", "void_elements is not a set literal"))
    c = find_node(H["__init__"], lambda n: isinstance(n, ast.Call) and dotted(n.func) == "super().__init__") if "__init__" in H else None
    add("c16-convert-charrefs-not-forwarded", "C16.R3", c, "super().__init__()", "character references are reported")
    at = P.attribute.methods.get("__str__")
    js = find_node(at, lambda n: isinstance(n, ast.JoinedStr)) if at else None
    add("c16-attribute-single-quoted", "C16.R3", js, "f\"{key}='{value}'\"", "attributes are written as", noraw=True)
    vt = m.classes.get("VoidTag")
    vjs = find_node(vt.methods["render"], lambda n: isinstance(n, ast.JoinedStr)) if vt else None
    if vjs is not None:
        add("c16-void-tag-rendered-self-closing", "C16.R3", vjs, "f\"<{self.name}{' ' if self.attrs else ''}{self.attrs}/>\"", "void branch")
    else:
        vcall = find_node(vt.methods["render"], lambda n: isinstance(n, ast.Call) and isinstance(n.func, ast.Attribute) and _is_name(n.func.value, "self") and not n.args) if vt else None
        add("c16-void-tag-rendered-self-closing", "C16.R3", vcall, (unparse(vcall.func) + '("/>")') if vcall is not None else "", "void branch", noraw=True)
    # R3 (class: an event is dropped under a condition well-formed input satisfies)
    nt_ = T["nest_terminal"]
    first = next((x for x in nt_.node.body if not (isinstance(x, ast.Expr) and isinstance(x.value, ast.Constant))), None)
    dp = [p_ for p_ in nt_.params if p_ != "self"]
    if first is not None and len(dp) == 2:
        add("c16-empty-terminal-events-dropped", "C16.R3", first, f"if not {dp[1]}:\n            return\n        " + ast.get_source_segment(src, first), "every event produces a node")
    hc_ = find_node(H["handle_comment"], lambda n: isinstance(n, ast.Expr) and isinstance(n.value, ast.Call) and unparse(n.value.func).endswith("nest_terminal"))
    cp = [p_ for p_ in H["handle_comment"].params if p_ != "self"]
    if hc_ is not None and cp:
        add("c16-blank-comments-dropped", "C16.R3", hc_, f"if {cp[0]}.strip():\n            " + ast.get_source_segment(src, hc_), "handle_comment: every event")
    hd_ = find_node(H["handle_data"], lambda n: isinstance(n, ast.Expr) and isinstance(n.value, ast.Call) and unparse(n.value.func).endswith("nest_terminal"))
    dp2 = [p_ for p_ in H["handle_data"].params if p_ != "self"]
    if hd_ is not None and dp2:
        add("c16-whitespace-data-dropped", "C16.R3", hd_, f"if {dp2[0]}.isspace():\n            return\n        " + ast.get_source_segment(src, hd_), "handle_data: every event")
    # ---- R4
    s_ = E["strip"]
    iff = find_node(s_, lambda n: isinstance(n, ast.If) and unparse(n.test) == "not inplace")
    add("c16-strip-copy-condition-inverted", "C16.R4", iff.test if iff is not None else None, "inplace", "Element.strip|not inplace", canary=True)
    lp = find_node(s_, lambda n: isinstance(n, ast.For) and unparse(n.iter) == "element")
    add("c16-strip-recurses-over-original", "C16.R4", lp.iter if lp is not None else None, "self", "uses self")
    a = find_node(E["__init__"], lambda n: isinstance(n, ast.AnnAssign) and unparse(n.target) == "self.attrs")
    add("c16-attrs-mapping-shared", "C16.R4", a.value if a is not None else None, "attr if isinstance(attr, Attribute) else Attribute(attr or {})", "attribute mapping is copied")
    # ---- R5
    en = T["enclose"]
    fl = find_node(en, lambda n: isinstance(n, ast.For) and n.orelse)
    add("c16-enclose-no-match-reset-dropped", "C16.R5", fl.orelse[0] if fl is not None else None, "pass", "nothing is popped")
    br = find_node(en, lambda n: isinstance(n, ast.Break))
    add("c16-enclose-break-dropped", "C16.R5", br, "pass", "pops down to the nearest")
    if fl is not None and len(fl.body) == 2:
        s0, s1 = fl.body
        out.append(Mutant("c16-enclose-counts-after-the-test", "C16.R5", m.rel, splice(splice(src, s1, ast.get_source_segment(src, s0)), s0, ast.get_source_segment(src, s1)), expect="pops down to the nearest"))
    else:
        out.append(("c16-enclose-counts-after-the-test", "the search loop of enclose() no longer has the count/test pair"))
    a = find_node(T["nest_xtag"], lambda n: isinstance(n, ast.Expr) and unparse(n) == "top.append(item)")
    add("c16-xtag-pushed-on-stack", "C16.R5", a, "top.append(item)\n        self.stack.append(item)", "Tree.nest_xtag|stack write")
    a = find_node(T["nest_tag"], lambda n: isinstance(n, ast.Expr) and unparse(n) == "self.stack.append(pointer)")
    add("c16-nest-tag-forgets-to-restore-parent", "C16.R5", a, "pass", "pushes exactly")
    # ---- R6
    add("c16-strict-mode-raises-on-unmatched-close", "C16.R6", fl.orelse[0] if fl is not None else None, 'raise ValueError(f"unmatched closing tag {name}")', "ValueError")
    c = find_node(H["handle_charref"], lambda n: isinstance(n, ast.Call) and unparse(n.func).endswith("nest_terminal"))
    if c is None:
        c = find_node(H["handle_charref"], lambda n: isinstance(n, ast.Call) and n.args and unparse(n.args[0]) == "Char")
    add("c16-charref-validated-with-int", "C16.R6", c.args[-1] if c is not None else None, "str(int(data))", "int(")
    pms = H.get("parse_marked_section")
    add("c16-marked-section-override-removed", "C16.R6", pms.node if pms is not None else None, "pass", "feed")  # reverts cda43d1
    hd = find_node(pms, lambda n: isinstance(n, ast.ExceptHandler) and n.type is not None) if pms is not None else None
    add("c16-marked-section-handler-narrowed", "C16.R6", hd.type if hd is not None else None, "ValueError", "feed")
    # ---- R10 (class: the handler still names AssertionError but lets some of them through)
    hb = hd.body[0] if hd is not None and hd.body else None
    hseg = ast.get_source_segment(src, hb) if hb is not None else None
    if hd is not None and hb is not None and not isinstance(hd.type, ast.Tuple):
        hname_ = hd.name or "exc"
        edits = [(hb, f"if 'unknown status keyword' not in str({hname_}):\n                raise\n            {hseg}")] + ([] if hd.name else [(hd.type, f"{ast.get_source_segment(src, hd.type)} as exc")])
        out.append(Mutant("c16-marked-section-handler-filters-by-message", "C16.R10", m.rel, multi(edits), expect="every AssertionError of the inherited call is swallowed"))
    else:
        out.append(("c16-marked-section-handler-filters-by-message", "the parse_marked_section override has no single-class handler with a body"))
    add("c16-marked-section-handler-reraises-when-reporting", "C16.R10", hb, f"if report:\n                raise\n            {hseg}", "every AssertionError of the inherited call is swallowed")
    # ---- R4 (class: an operation of strip() reaches the original although inplace is false)
    c = find_node(s_, lambda n: isinstance(n, ast.Call) and unparse(n.func) == "element.reset_children")
    add("c16-strip-resets-children-of-original", "C16.R4", c.func.value if c is not None else None, "self", "uses self")
    c = find_node(s_, lambda n: isinstance(n, ast.Attribute) and unparse(n) == "element.children")
    add("c16-strip-takes-children-from-original", "C16.R4", c.value if c is not None else None, "self", "uses self")
    r = find_node(s_, lambda n: isinstance(n, ast.Return))
    add("c16-strip-returns-original", "C16.R4", r.value if r is not None else None, "self", "uses self")
    # ---- R8 (class: a parser object that outlives the call is fed again without reset)
    tok = m.func("tokenize_html")
    ctor = find_node(tok, lambda n: isinstance(n, ast.Call) and unparse(n.func) == P.parser.name)
    if ctor is not None:
        seg = ast.get_source_segment(src, ctor)
        out.append(Mutant("c16-parser-cached-per-config", "C16.R8", m.rel, splice(src, ctor, f"_parser_cache.setdefault((name, convert_charrefs), {seg})") + "\n\n_parser_cache: dict = {}\n", expect="tokenize_html"))
        out.append(Mutant("c16-parser-factory-memoised", "C16.R8", m.rel, splice(src, ctor, "_get_parser(name, convert_charrefs)") + f"\n\nimport functools\n\n\n@functools.lru_cache(maxsize=None)\ndef _get_parser(name, convert_charrefs):\n    return {seg}\n", expect="tokenize_html", canary=True))
        out.append(Mutant("c16-parser-module-singleton", "C16.R8", m.rel, splice(src, ctor, "_PARSER") + f"\n\n_PARSER = {P.parser.name}()\n", expect="tokenize_html"))
    else:
        out.append(("c16-parser-cached-per-config", "tokenize_html no longer constructs the parser itself"))
    # ---- R5 (class: closing decision taken from bookkeeping that is not kept in step with the stack)
    def counter_variant(dec_all: bool, inc: bool, void_inc: bool = False):
        edits = []
        for mn in ("__init__", "clear"):
            st = find_node(T[mn], lambda n: isinstance(n, ast.Expr) and unparse(n) == "self.stack.append(self.outmost)") if mn in T else None
            if st is None:
                return None
            edits.append((st, "self.stack.append(self.outmost)\n        " + ("self.open_names: dict = {}" if mn == "__init__" else "self.open_names.clear()")))
        nt = T["nest_tag"]
        st = find_node(nt, lambda n: isinstance(n, ast.Expr) and unparse(n) == "self.stack.append(item)")
        pn = [p_ for p_ in nt.params if p_ != "self"]
        if st is None or not pn:
            return None
        bump = f"self.open_names[{pn[0]}] = self.open_names.get({pn[0]}, 0) + 1"
        if inc:
            edits.append((st, "self.stack.append(item)\n        " + bump))
        if void_inc:
            vt_ = T["nest_vtag"]
            st = find_node(vt_, lambda n: isinstance(n, ast.Expr) and unparse(n) == "top.append(item)")
            pv = [p_ for p_ in vt_.params if p_ != "self"]
            if st is None or not pv:
                return None
            edits.append((st, "top.append(item)\n        " + bump.replace(pn[0], pv[0])))
        body = [x for x in en.node.body if not (isinstance(x, ast.Expr) and isinstance(x.value, ast.Constant))]
        ep = [p_ for p_ in en.params if p_ != "self"][0]
        if dec_all:
            text = f"if not self.open_names.get({ep}):\n            return\n        while True:\n            closed = self.stack.pop()\n            self.open_names[closed.name] -= 1\n            if closed.name == {ep}:\n                break"
        else:
            text = f"if not self.open_names.get({ep}):\n            return\n        while (closed := self.stack.pop()).name != {ep}:\n            pass\n        closed.closed = True\n        self.open_names[{ep}] -= 1"
        edits.append((body[0], text))
        for x in body[1:]:
            edits.append((x, "pass"))
        new_src = src
        for node, txt in sorted(edits, key=lambda e_: (-e_[0].lineno, -e_[0].col_offset)):
            new_src = splice(new_src, node, txt)
        return new_src

    for mid, args, exp in (
        ("c16-open-counter-decremented-for-match-only", (False, True), "stays in step"),
        ("c16-open-counter-never-incremented", (True, False), "is incremented for the pushed element"),
        ("c16-open-counter-incremented-for-void-tags", (True, True, True), "untouched by childless"),
    ):
        ns = counter_variant(*args)
        out.append(Mutant(mid, "C16.R5", m.rel, ns, expect=exp) if ns else (mid, "Tree no longer has the stack idiom this mutant rewrites"))
    at3 = P.attribute.methods.get("__str__")
    js3 = find_node(at3, lambda n: isinstance(n, ast.JoinedStr)) if at3 else None
    vfv = [v for v in js3.values if isinstance(v, ast.FormattedValue)] if js3 is not None else []
    if len(vfv) == 2 and isinstance(vfv[1].value, ast.Name):
        vn = vfv[1].value.id
        add("c16-attribute-html-escape-all", "C16.R3", vfv[1].value, f'html.escape({vn} or "")', "rewrites exactly", noraw=True, tail="\n\nimport html\n")
        add("c16-attribute-escapes-apostrophe-too", "C16.R3", vfv[1].value, f"""{vn}.replace("&", "&amp;").replace(chr(34), "&quot;").replace("'", "&#39;")""", "rewrites exactly", noraw=True)
        add("c16-attribute-escapes-ampersand-only", "C16.R3", vfv[1].value, f"""{vn}.replace("&", "&amp;")""", "rewrites exactly", noraw=True)
    else:
        out.append(("c16-attribute-html-escape-all", "Attribute.__str__ no longer writes the bare value"))
    at2 = P.attribute.methods.get("__str__")
    js2 = find_node(at2, lambda n: isinstance(n, ast.JoinedStr)) if at2 else None
    if js2 is not None:
        seg = ast.get_source_segment(src, js2)
        add("c16-attribute-bare-when-falsy", "C16.R3", js2, f"({seg} if value else key)", "attributes are written as", noraw=True)
    # ---- reverts of the repairs landed for this property
    # 991316c: start tags are no longer copied from the source -> the rebuilt start tag writes attribute values raw
    if raw_calls:
        out.append(Mutant("c16-revert-source-start-tags", "C16.R3", m.rel, multi([(c_, "None") for c_ in raw_calls]), expect="escaped again on output", canary=True))
    else:
        out.append(("c16-revert-source-start-tags", "the tag callbacks do not pass get_starttag_text() any more"))
    # 7b06096 (on the path only without the source start tags): value None formatted as a string
    ats = P.attribute.methods.get("__str__")
    ife = find_node(ats, lambda n: isinstance(n, ast.IfExp) and "is None" in unparse(n.test)) if ats else None
    if ife is not None and raw_calls:
        strb = ife.orelse if "is None" in unparse(ife.test) and "not" not in unparse(ife.test) else ife.body
        add("c16-revert-valueless-attribute-bare", "C16.R3", ife, ast.get_source_segment(src, strb), "value-less attributes", noraw=True)
    else:
        out.append(("c16-revert-valueless-attribute-bare", "Attribute.__str__ has no `is None` branch"))
    # 535b686: unknown_decl stores the reported text like a <!DOCTYPE> declaration
    ud = H.get("unknown_decl")
    udc = find_node(ud, lambda n: isinstance(n, ast.Call) and unparse(n.func).endswith("nest_terminal")) if ud else None
    udp = [p_ for p_ in ud.params if p_ != "self"] if ud else []
    add("c16-revert-marked-section-brackets", "C16.R3", udc.args[1] if udc is not None and len(udc.args) > 1 and udp else None, udp[0] if udp else "", "marked sections re-emit")
    # 4df0f5d: a ';' after every reference, terminated or not
    for cbn, kls in (("handle_charref", "Char"), ("handle_entityref", "Entity")):
        rc = find_node(H[cbn], lambda n: isinstance(n, ast.Call) and isinstance(n.func, ast.Attribute) and _is_name(n.func.value, "self") and n.args and unparse(n.args[0]) == kls) if cbn in H else None
        rp = [p_ for p_ in H[cbn].params if p_ != "self"] if cbn in H else []
        add(f"c16-revert-semicolon-only-if-in-source-{kls.lower()}", "C16.R3", rc, f"self.struct.nest_terminal({kls}, {rp[0]})" if rp else "", "is written only where the source has one")
    nr = P.parser.methods.get("_nest_reference")
    sw = find_node(nr, lambda n: isinstance(n, ast.Call) and isinstance(n.func, ast.Attribute) and n.func.attr == "startswith") if nr else None
    if sw is not None and len(sw.args) == 2 and isinstance(sw.args[1], ast.BinOp) and isinstance(sw.args[1].left, ast.BinOp):
        add("c16-reference-terminator-tested-at-wrong-offset", "C16.R3", sw.args[1], unparse(sw.args[1].left.left) + " + " + unparse(sw.args[1].right), "is written only where the source has one")
    # 0a32910: Attribute.__getitem__ returns '' for a missing key too
    ft = find_node(E["find"], lambda n: isinstance(n, ast.If) and " not in " in unparse(n.test) and ".attrs" in unparse(n.test))
    if ft is not None and isinstance(ft.test, ast.BoolOp) and len(ft.test.values) == 2 and isinstance(ft.test.values[1], ast.Compare):
        cmp_ = ft.test.values[1]
        add("c16-revert-find-missing-attribute-is-not-empty-value", "C16.R7", ft.test, f"{unparse(cmp_.left)} != {unparse(cmp_.comparators[0]).strip('()').split(' or ')[0]}", "attrs filter")
    else:
        out.append(("c16-revert-find-missing-attribute-is-not-empty-value", "find() no longer tests the presence of the requested key"))
    # 3911a89: the root counts as an open element again
    rt = find_node(en, lambda n: isinstance(n, ast.BoolOp) and isinstance(n.op, ast.And) and any(isinstance(v, ast.Compare) and isinstance(v.ops[0], (ast.IsNot, ast.NotEq)) and "self." in unparse(v) for v in n.values))
    if rt is not None:
        keep = [v for v in rt.values if not (isinstance(v, ast.Compare) and isinstance(v.ops[0], (ast.IsNot, ast.NotEq)) and "self." in unparse(v))]
        add("c16-revert-root-is-not-an-open-element", "C16.R5", rt, " and ".join(unparse(v) for v in keep), "the root is never treated")
    else:
        out.append(("c16-revert-root-is-not-an-open-element", "enclose() has no `is not <root>` conjunct"))
    # 87e6c94: end tags from the source text - revert and partial weakenings
    tgr = m.classes.get("Tag")
    alt_ = find_node(tgr.methods["render"], lambda n: isinstance(n, ast.BoolOp) and isinstance(n.op, ast.Or) and _is_self_attr(n.values[0]) and "</" in unparse(n.values[1])) if tgr else None
    add("c16-revert-end-tag-from-source", "C16.R3", alt_, unparse(alt_.values[1]) if alt_ is not None else "", "end tags are re-emitted")
    if alt_ is not None:
        efld = alt_.values[0].attr
        est = find_node(en, lambda n: isinstance(n, ast.Assign) and isinstance(n.targets[0], ast.Attribute) and n.targets[0].attr == efld)
        add("c16-end-tag-source-never-stored", "C16.R3", est, "pass", "end tags are re-emitted")
        he = H.get("handle_endtag")
        rsl = find_node(he, lambda n: _rawdata_slice(n)) if he else None
        if rsl is not None and isinstance(rsl.slice.upper, ast.BinOp):
            add("c16-end-tag-source-without-closing-bracket", "C16.R3", rsl.slice.upper, unparse(rsl.slice.upper.left), "end tags are re-emitted")
            hp_ = [p_ for p_ in he.params if p_ != "self"]
            add("c16-end-tag-source-rebuilt-from-name", "C16.R3", rsl, 'f"</{' + hp_[0] + '}>"' if hp_ else "", "end tags are re-emitted")
    # 03333c2: a final '&' + letter before close() - revert and partial weakenings
    fd = H.get("feed")
    amp_if = find_node(fd, lambda n: isinstance(n, ast.If) and any(isinstance(x, ast.Constant) and x.value == "&" for x in ast.walk(n.test)) and any(isinstance(c_, ast.Call) and dotted(c_.func) == "self.handle_data" for st_ in n.body for c_ in ast.walk(st_))) if fd else None
    add("c16-revert-trailing-ampersand-reported", "C16.R3", amp_if.test if amp_if is not None else None, "False", "a final '&' + letter")
    if amp_if is not None:
        ia = find_node(fd, lambda n: isinstance(n, ast.Call) and isinstance(n.func, ast.Attribute) and n.func.attr == "isalpha" and any(n is x for x in ast.walk(amp_if.test)))
        add("c16-trailing-ampersand-lower-case-only", "C16.R3", ia, unparse(ia.func.value) + ".islower()" if ia is not None else "", "a final '&' + letter")
        asc = find_node(fd, lambda n: isinstance(n, ast.Call) and isinstance(n.func, ast.Attribute) and n.func.attr == "isascii" and any(n is x for x in ast.walk(amp_if.test)))
        add("c16-trailing-ampersand-non-ascii-too", "C16.R3", asc, "True", "a final '&' + letter")
        rs_ = next((st_ for st_ in amp_if.body if isinstance(st_, ast.Assign) and _is_self_attr(st_.targets[0], "rawdata")), None)
        add("c16-trailing-ampersand-letter-reported-twice", "C16.R3", rs_, "pass", "a final '&' + letter")
        cd_ = find_node(fd, lambda n: isinstance(n, ast.UnaryOp) and isinstance(n.op, ast.Not) and _is_self_attr(n.operand, "cdata_elem") and any(n is x for x in ast.walk(amp_if.test)))
        add("c16-trailing-ampersand-also-in-raw-text", "C16.R3", cd_, "True", "a final '&' + letter")
    # a field rendered in place of the markup receives something that is not source text
    pb = H.get("parse_bogus_comment")
    rw = find_node(pb, lambda n: isinstance(n, ast.Assign) and isinstance(n.targets[0], ast.Attribute) and n.targets[0].attr == "raw") if pb else None
    add("c16-comment-source-field-fed-with-rebuilt-text", "C16.R3", rw.value if rw is not None else None, '"<!--" + self.rawdata[i + 2 : j - 1] + "-->"', "only source text is stored")
    # the guard of a post-hoc write onto the node the inherited parse_* method reported
    if pb is not None:
        gi = find_node(pb, lambda n: isinstance(n, ast.If) and isinstance(n.test, ast.BoolOp) and isinstance(n.test.op, ast.And) and len(n.test.values) == 2 and any(isinstance(v, ast.Compare) for v in n.test.values))
        if gi is not None:
            cmp_i = next(i_ for i_, v in enumerate(gi.test.values) if isinstance(v, ast.Compare))
            add("c16-bogus-comment-raw-written-when-unterminated", "C16.R3", gi.test, unparse(gi.test.values[1 - cmp_i]), "the last child is written only when")
            add("c16-bogus-comment-raw-written-when-not-reported", "C16.R3", gi.test, unparse(gi.test.values[cmp_i]), "the last child is written only when")
            add("c16-bogus-comment-raw-guard-does-not-exclude-failure", "C16.R3", gi.test.values[cmp_i], unparse(gi.test.values[cmp_i].left) + " != 0", "the last child is written only when")
        else:
            out.append(("c16-bogus-comment-raw-written-when-unterminated", "parse_bogus_comment has no two-part guard"))
    # classes of partial weakening of those repairs
    if ud is not None:
        sp = find_node(ud, lambda n: isinstance(n, ast.Call) and isinstance(n.func, ast.Attribute) and n.func.attr == "split" and len(n.args) == 2)
        add("c16-marked-section-keyword-cut-at-last-bracket", "C16.R3", sp, (unparse(sp.func.value) + ".rsplit(" + ", ".join(unparse(a_) for a_ in sp.args) + ")") if sp is not None else "", "marked sections re-emit")
        lw = find_node(ud, lambda n: isinstance(n, ast.Call) and isinstance(n.func, ast.Attribute) and n.func.attr == "lower" and not n.args)
        add("c16-marked-section-keyword-not-lowered", "C16.R3", lw, unparse(lw.func.value) if lw is not None else "", "marked sections re-emit")
    if rt is not None:
        keep_ = [v for v in rt.values if not (isinstance(v, ast.Compare) and isinstance(v.ops[0], (ast.IsNot, ast.NotEq)) and "self." in unparse(v))]
        first_ = next((x for x in en.node.body if not (isinstance(x, ast.Expr) and isinstance(x.value, ast.Constant))), None)
        ep_ = [p_ for p_ in en.params if p_ != "self"]
        rn_ = sorted(_root_name_attrs(P))
        if first_ is not None and ep_ and rn_:
            out.append(Mutant("c16-root-guard-hoisted-to-name-test", "C16.R5", m.rel, multi([(rt, " and ".join(unparse(v) for v in keep_)), (first_, f"if {ep_[0]} == self.{rn_[0]}:\n            return False\n        " + ast.get_source_segment(src, first_))]), expect="the root is never treated"))
    dcf = E["deepcopy"]
    ca = find_node(dcf, lambda n: isinstance(n, ast.Assign) and isinstance(n.value, ast.Call) and unparse(n.value.func) == "self.__class__")
    if ca is not None and isinstance(ca.targets[0], ast.Name):
        cvn = ca.targets[0].id
        add("c16-deepcopy-from-shallow-copy", "C16.R4", ca, f"{cvn} = copy.copy(self)\n        {cvn}._parent = None\n        {cvn}._children = []", "a shallow copy replaces", tail="\n\nimport copy\n")
    else:
        out.append(("c16-deepcopy-from-shallow-copy", "deepcopy no longer constructs the copy with self.__class__(...)"))
    # class tokens: split at the space character only (near-synonym of str.split())
    acl = P.attribute.methods.get("classes")
    spc = find_node(acl, lambda n: isinstance(n, ast.Call) and isinstance(n.func, ast.Attribute) and n.func.attr == "split" and not n.args) if acl else None
    if spc is not None:
        recv_ = unparse(spc.func.value)
        add("c16-class-tokens-split-at-space-only", "C16.R7", spc, f'[name_ for name_ in {recv_}.split(" ") if name_]', "class names are separated")
        add("c16-class-tokens-split-at-space-plain", "C16.R7", spc, f'{recv_}.split(" ")', "class names are separated")
    else:
        out.append(("c16-class-tokens-split-at-space-only", "Attribute.classes no longer calls split() without arguments"))
    # ---- R9 (class: a traversal that calls itself per nesting level)
    fy = find_node(E["find"], lambda n: isinstance(n, ast.Expr) and isinstance(n.value, ast.Yield))
    fit = find_node(E["find"], lambda n: isinstance(n, ast.Assign) and unparse(n.targets[0]) == "iterator" and "walk" in unparse(n.value))
    if fy is not None and fit is not None:
        ind_ = " " * fy.col_offset
        cv = unparse(fy.value.value)
        out.append(Mutant("c16-find-by-recursive-descent", "C16.R9", m.rel, multi([(fit.value, "self"), (fy, f"yield {cv}\n{ind_}if recurse:\n{ind_}    yield from {cv}.find(identifier, attrs, classes)")]), expect="Element.find"))
    else:
        out.append(("c16-find-by-recursive-descent", "find() has changed shape"))
    # ---- R7
    f_ = E["find"]
    al = find_node(f_, lambda n: isinstance(n, ast.For) and n.orelse and "attrs" in unparse(n.iter))
    if al is not None and isinstance(al.target, ast.Tuple):
        ind = " " * al.col_offset
        it = unparse(al.iter)
        k_, v_ = (unparse(e) for e in al.target.elts)
        cnd = unparse(find_node(f_, lambda n: isinstance(n, ast.Yield)).value)
        eq = f"{cnd}.attrs[{k_}] == {v_}"
        body = lambda first, upd: f"matched = {first}\n{ind}for {k_}, {v_} in {it}:\n{ind}    matched = {upd}\n{ind}if matched:\n{ind}    yield {cnd}"  # noqa: E731
        out.append(Mutant("c16-find-attrs-flag-overwritten", "C16.R7", m.rel, splice(src, al, body("True", eq)), expect="attrs filter"))
        out.append(Mutant("c16-find-attrs-flag-or-ed", "C16.R7", m.rel, splice(src, al, body("False", f"matched or {eq}")), expect="attrs filter"))
        out.append(Mutant("c16-find-attrs-any-instead-of-all", "C16.R7", m.rel, splice(src, al, f"if any({eq} for {k_}, {v_} in {it}):\n{ind}    yield {cnd}"), expect="attrs filter"))
    else:
        out.append(("c16-find-attrs-flag-overwritten", "the attrs filter of find() is no longer a for/else loop"))
    w = E["walk"]
    lp = find_node(w, lambda n: isinstance(n, ast.For))
    if lp is not None and len(lp.body) == 2:
        a, b = lp.body
        sa, sb = ast.get_source_segment(src, a), ast.get_source_segment(src, b)
        out.append(Mutant("c16-walk-post-order", "C16.R7", m.rel, splice(splice(src, b, sa), a, sb), expect="pre-order"))
        c = find_node(w, lambda n: isinstance(n, ast.Call) and unparse(n) == "child.walk()")
        add("c16-walk-yields-children-twice", "C16.R7", c, "child.walk(include_self=True)", "pre-order")
    else:
        out.append(("c16-walk-post-order", "walk loop has changed shape"))
    f = E["find"]
    c = find_node(f, lambda n: isinstance(n, ast.Attribute) and unparse(n) == "classes.issubset")
    add("c16-find-classes-superset", "C16.R7", c, "classes.issuperset", "classes filter")
    sc_ = find_node(f, lambda n: isinstance(n, ast.Call) and unparse(n.func) == "classes.issubset")
    if sc_ is not None and sc_.args:
        cnd_ = unparse(sc_.args[0]).split(".")[0]
        add("c16-find-classes-substring-of-raw-attribute", "C16.R7", sc_, f'all(c_ in {cnd_}.attrs["class"] for c_ in classes)', "classes filter")
        add("c16-find-classes-any-instead-of-all", "C16.R7", sc_, f"any(c_ in {unparse(sc_.args[0])} for c_ in classes)", "classes filter")
    else:
        out.append(("c16-find-classes-substring-of-raw-attribute", "find() no longer calls classes.issubset(...)"))
    nm = find_node(f, lambda n: isinstance(n, ast.Compare) and isinstance(enclosing_function(n).node, ast.Lambda) and "identifier" in unparse(n) and ".name" in unparse(n))
    if nm is not None:
        pv = unparse(nm.left).split(".")[0]
        add("c16-find-by-name-only-for-Tag", "C16.R7", nm, f"isinstance({pv}, Tag) and {unparse(nm)}", "name filter")
        add("c16-find-by-name-skips-void", "C16.R7", nm, f"not isinstance({pv}, VoidTag) and {unparse(nm)}", "name filter")
    else:
        out.append(("c16-find-by-name-only-for-Tag", "find() has no name-comparison lambda any more"))
    b = find_node(f, lambda n: isinstance(n, ast.Break))
    add("c16-find-attrs-mismatch-continues", "C16.R7", b, "continue", "attrs filter")
    c = find_node(f, lambda n: isinstance(n, ast.Call) and unparse(n) == "self.walk()")
    add("c16-find-candidates-through-set", "C16.R7", c, "set(self.walk())", "document order")
    it = E["__iter__"]
    y = find_node(it, lambda n: isinstance(n, ast.YieldFrom))
    add("c16-iter-reversed", "C16.R7", y.value if y is not None else None, "reversed(self._children)", "__iter__")
    return out
