"""C09 - local '#target' links: dispatch, marker agreement, resolver paths, registry keys."""

from __future__ import annotations

import ast

from ..corpus import (
    AnchorMissing,
    Corpus,
    FunctionInfo,
    Unsupported,
    dotted,
    kwarg,
    short,
    splice,
    unparse,
    walk_local,
)
from ..flow import facts, get_cfg
from ..mutant import Mutant
from ..report import Report
from .common import find_node, rule

PROP = "C09"
READY = False
TECHNIQUE = (
    "guard/dominance facts over the CFG of render_link / render_link_project, path classification and path counting over the "
    "loop body of ResolveAnchorIds.apply, writer/reader agreement on node attributes, registry tuple layout and registry key normalisation"
)

META = {
    "explanation": (
        "Structural necessary conditions of local '#target' link resolution, decided on syntax trees, CFGs (dominance, guard facts, path "
        "counting) and small agreement checks between writers and readers. A function that was split into private helpers "
        "(ResolveAnchorIds.apply, clean_astext) is analysed with the helpers inlined (same class / same module, two levels; helpers with "
        "early returns that only inspect the node and add children are summarised instead; a helper whose trailing return value the caller "
        "discards is inlined too). The reference loop may select its nodes by class plus an in-loop marker test or by a predicate "
        "(lambda / method / function) `isinstance(n, nodes.reference) and n.get(<marker>) ...` handed to findall. "
        "R1 dispatch: every way out of render_link other than render_link_anchor - direct self.render_link_* calls and "
        "getattr(self, TABLE[scheme])(token) table dispatch - is unreachable for an href that starts with '#' (negated '#' test, a scheme "
        "test whose regex provably cannot match a leading '#', or a tabled pre-emption: the three config flags, the class 'external' "
        "tested as a *word* of the class list, autolinks); the '#' dispatch hands over the tested '#'-prefixed text (possibly decoded); "
        "scheme 'project' reaches render_link_project, whose two implementations strip exactly len('project:') and dispatch '#...' "
        "to render_link_anchor before any other outcome. "
        "R2 writer/reader agreement: render_link_anchor stores the marker and URI attributes that ResolveAnchorIds reads, stamps the "
        "line, attaches the node exactly once on every path; the link text is percent-decoded completely (urllib.parse.unquote - markdown-it's "
        "display decoder normalizeLinkText keeps %25 and reserved characters encoded, names are stored verbatim) and exactly once, on every "
        "alternative of the stored value, by the writer or by every caller; the reader strips exactly the leading '#' ([1:], removeprefix('#'), split('#', 1)[1], partition('#')[2] are accepted; "
        "lstrip/strip/replace/split-all and other slices are violations), deletes the URI attribute around every refid store, walks all "
        "reference nodes of the whole document, leaves unmarked references alone; both parsers register the transform. "
        "R3 loop-body paths: every path through the resolver's loop body reaches exactly one outcome (refid from the explicit registry, "
        "refid from the slug registry, replacement by a pending_xref that carries target/explicitness/children, or docutils miss = "
        "exactly one XREF_MISSING warning at refnode.line + fallback refid), no fall-through between outcomes, explicit lookup "
        "dominates the slug lookup and both dominate the Sphinx/miss outcomes, refid comes from the tuple position the registry's "
        "writer fills with the node id, no warning on a resolving path, and after every refid store an empty link receives a text "
        "child on every path. "
        "R4 key kinds: every writer of an explicit name keys it with nodes.fully_normalize_name, so the explicit registry is probed with "
        "a normalised key; the registry's own key is the registered name itself, not a lossy function of it (make_id, a slugifier) that "
        "merges distinct names; the slug registry (keyed by the slug function's output as is) is probed with the exact link text. "
        "R5 explicit-only registry: the registry is filled only for names whose nametypes flag is true (a loop over a table without "
        "the flag, a dropped or inverted test is a violation); the '(name)=', attribute-id and :name: writers register with "
        "note_explicit_target unconditionally with respect to document.nameids/ids (which also hold implicit names); the heading "
        "title name registers with note_implicit_target. Writers are append/extend/insert on node['names'] and list literals "
        "re-bound or concatenated onto it. "
        "R6 title extraction: for each heading node render_heading creates (section with a nodes.title child; rubric that is its own "
        "title) the resolver's title extraction has a case on the same subject (node itself / child of that class), and a search over "
        "the children examines every child (no unconditional loop exit, no slice) and only the direct children (a findall/traverse over all "
        "descendants takes a nested element's title), also when it is a pre-filtering comprehension; where the "
        "lookup tests for a definition list / field list, a walk over the CFG with the node's class as state (docutils content model: "
        "definition_list -> definition_list_item -> term, field_list -> field -> field_name) reaches a title text with the term / field name. "
        "R7 unique slug keys: the key under which a heading enters the slug registry was tested absent from it after its last "
        "assignment on every path (a candidate computed in the return expression is untested). "
        "R8 monotone slug registry: between the per-parse reset and the export as document.myst_slugs the registry is never re-bound "
        "to another object or emptied and no entry is removed. "
        "R9 title text: clean_astext has an image-alt step, a raw-node step and a system_message step, each ranging over all descendants "
        "of the element (not only its direct children), every return comes after each step (or is an early exit "
        "whose condition examines that node class), and the steps run on a deep copy. "
        "R10 complete slug registry: every path through render_heading (helpers inlined) hands the heading to generate_heading_target, "
        "and there the store into the slug registry is guarded by nothing but the anchor-depth test (heading_anchors). "
        "R11 no loop-carried values: every local used in a registry entry, a refid store or a fill-in is (re)assigned on every path from "
        "the start of the same loop iteration (a title or id found for one target/link cannot leak into the next). "
        "R3 also requires that the position the reader takes the refid from is filled by the registry's writer with the id docutils "
        "assigned to the node (node['ids'][...]), not with an id re-computed from the title; that a registry hit test may be a conjunction "
        "`K in R and <conditions on the entry R[K]>` (e.g. the entry's id is still in the tree) whose failure counts as a failed lookup; "
        "that any other tuple store into the slug registry inside the transform (the title refresh) keeps the (line, id, title) layout; "
        "that the docutils warning is located by node=refnode (source and line: the link may be in an included file), the pending_xref "
        "is given the link's source and line, and the '#target' fallback of the miss outcome is decided before the warning's "
        "system_message is appended to the reference (known finding: it is not). "
        "R5 also: a name is not dropped from the registry by an attribute test that MyST's own id carriers satisfy (a reference with "
        "refuri that was given an id) unless the test is restricted to a node class they do not have. "
        "R5 also: neither registry is written inside the loop that resolves the links (no memoising of slug hits as explicit targets). "
        "R5 also: a node class the reader drops from the registry (footnote) is not registered in the explicit-target name space, where a "
        "name clash makes docutils invalidate both names (known finding: footnote labels are). "
        "R12 eval-rst: the names of the scratch document render_restructuredtext parses into are re-registered with the real document "
        "for every descendant, not only the direct children (known finding: only the direct children are)."
    ),
    "not_decided": (
        "which node a given name resolves to at run time (contents of document.nametypes/nameids/ids and myst_slugs for a concrete "
        "document; in particular whether a registered id is still in the tree after a directive discarded content); what docutils' PropagateTargets does to a '(name)=' target and which nodes it skips; the skip conditions of the "
        "registry loop other than the explicit flag (e.g. the indirect-target branch); the Sphinx post-transform that resolves the "
        "pending_xref and decides whether its 'target not found' warning is suppressed by nitpick_ignore(_regex) (C12); how parse_directive_text "
        "merges the additional options of a fence-as-directive (where render_fence turns an attribute id into the directive's name option) with the "
        "option block (C08); the numeric value of refnode.line (C04); slug values (C10)"
    ),
    "trusted_base": [
        "CPython ast and re._parser",
        "docutils: note_explicit_target/note_implicit_target fill nametypes/nameids/ids; Element += / append adds a child and updates in place; "
        "Element.update_*_atts / copy_attr_* only read their argument",
        "tabled pre-emptions of the '#' dispatch in render_link (config flags, word 'external' in the class list, autolinks carry a scheme)",
        "the helper inliner (parameter substitution for simple arguments, renaming of colliding locals, single trailing return)",
        "table of lossy name functions (docutils make_id, slugifiers), read from their sources",
    ],
    "assumptions": [
        "markdown-it autolink/linkify tokens (info == 'auto') always carry an absolute URI, never a bare '#fragment'",
        "url_schemes keys are strings (validated by check_url_schemes), so a None scheme is never `in` it",
        "heading_slug_func may return any string: the slug registry must be probed with the exact text and every candidate tested against it",
    ],
}

BASE = "mdit_to_docutils.base"
SPHINX = "mdit_to_docutils.sphinx_"
TR = "mdit_to_docutils.transforms"

R1, R2, R3, R4, R5 = "C09.R1", "C09.R2", "C09.R3", "C09.R4", "C09.R5"

# ---------------------------------------------------------------------------
# small dataflow helpers (single function, flow-insensitive)


def _bindings(fi: FunctionInfo, name: str) -> list[tuple[ast.expr, int | None, ast.AST]]:
    """(value expression, tuple position or None, binding statement) for every local binding of ``name``."""
    out: list[tuple[ast.expr, int | None, ast.AST]] = []
    for n in fi.local_nodes():
        if isinstance(n, ast.Assign):
            for t in n.targets:
                if isinstance(t, ast.Name) and t.id == name:
                    out.append((n.value, None, n))
                elif isinstance(t, (ast.Tuple, ast.List)):
                    for i, e in enumerate(t.elts):
                        if isinstance(e, ast.Name) and e.id == name:
                            out.append((n.value, i, n))
        elif isinstance(n, ast.AnnAssign) and n.value is not None and isinstance(n.target, ast.Name) and n.target.id == name:
            out.append((n.value, None, n))
        elif isinstance(n, ast.AugAssign) and isinstance(n.target, ast.Name) and n.target.id == name:
            out.append((n.value, None, n))
        elif isinstance(n, ast.NamedExpr) and isinstance(n.target, ast.Name) and n.target.id == name:
            out.append((n.value, None, n))
        elif isinstance(n, (ast.For, ast.comprehension)):
            t = n.target
            if isinstance(t, ast.Name) and t.id == name:
                out.append((n.iter, None, n))
            elif isinstance(t, (ast.Tuple, ast.List)):
                for i, e in enumerate(t.elts):
                    if isinstance(e, ast.Name) and e.id == name:
                        out.append((n.iter, i, n))
    return out


def _closure(fi: FunctionInfo, expr: ast.AST) -> list[ast.AST]:
    """``expr`` plus every expression bound to a local name it (transitively) mentions."""
    out = [expr]
    seen: set[str] = set()
    work = [n.id for n in ast.walk(expr) if isinstance(n, ast.Name)]
    while work:
        nm = work.pop()
        if nm in seen:
            continue
        seen.add(nm)
        for val, _, _ in _bindings(fi, nm):
            out.append(val)
            work.extend(n.id for n in ast.walk(val) if isinstance(n, ast.Name))
    return out


def _derives_reaching(fi: FunctionInfo, expr: ast.AST, at: ast.AST, pred) -> bool:
    """Like ``_derives`` but only through bindings whose statement can reach the statement of ``at`` in the CFG."""
    cfg = get_cfg(fi)
    try:
        goal = cfg.stmt_of(at)
    except Unsupported:
        return _derives(fi, expr, pred)
    seen: set[str] = set()
    work: list[ast.AST] = [expr]
    while work:
        e = work.pop()
        if any(pred(x) for x in ast.walk(e)):
            return True
        for nm in [n.id for n in ast.walk(e) if isinstance(n, ast.Name)]:
            if nm in seen:
                continue
            seen.add(nm)
            for val, _, st in _bindings(fi, nm):
                try:
                    b = cfg.stmt_of(st)
                except Unsupported:
                    continue
                if b is goal or goal in cfg.reachable_from(b):
                    work.append(val)
    return False


def _derives(fi: FunctionInfo, expr: ast.AST, pred) -> bool:
    return any(pred(sub) for e in _closure(fi, expr) for sub in ast.walk(e))


def _direct(fi: FunctionInfo, expr: ast.AST, pred) -> bool:
    """``pred`` holds for a sub-expression of ``expr`` or of a value bound directly to a name in ``expr``."""
    if any(pred(s) for s in ast.walk(expr)):
        return True
    for n in ast.walk(expr):
        if isinstance(n, ast.Name):
            for val, _, _ in _bindings(fi, n.id):
                if any(pred(s) for s in ast.walk(val)):
                    return True
    return False


def _iter_source(fi: FunctionInfo, it: ast.expr) -> ast.expr:
    """The iterated expression, looking through one local name (``names = [...]; for n in names``)."""
    if isinstance(it, ast.Name):
        b = [v for v, i, st in _bindings(fi, it.id) if i is None and not isinstance(st, (ast.For, ast.comprehension))]
        if len(b) == 1:
            return b[0]
    return it


def _ancestors(n: ast.AST):
    p = getattr(n, "_parent", None)
    while p is not None:
        yield p
        p = getattr(p, "_parent", None)


def _mentions_name(expr: ast.AST, name: str) -> bool:
    return any(isinstance(n, ast.Name) and n.id == name for n in ast.walk(expr))


def _is_href_read(n: ast.AST) -> bool:
    """``token.attrGet("href")`` / ``token.attrs["href"]`` / ``.get("href")``"""
    if isinstance(n, ast.Call) and isinstance(n.func, ast.Attribute) and n.func.attr in ("attrGet", "get") and n.args:
        return isinstance(n.args[0], ast.Constant) and n.args[0].value == "href"
    if isinstance(n, ast.Subscript) and isinstance(n.slice, ast.Constant) and n.slice.value == "href":
        return True
    return False


def _startswith(e: ast.AST) -> tuple[ast.expr, str] | None:
    """(receiver, literal prefix) of ``X.startswith("lit")``."""
    if (
        isinstance(e, ast.Call)
        and isinstance(e.func, ast.Attribute)
        and e.func.attr == "startswith"
        and len(e.args) == 1
        and isinstance(e.args[0], ast.Constant)
        and isinstance(e.args[0].value, str)
    ):
        return e.func.value, e.args[0].value
    return None


def _self_call(n: ast.AST, prefix: str = "") -> str | None:
    """method name of ``self.<name>(...)``."""
    if isinstance(n, ast.Call) and isinstance(n.func, ast.Attribute) and isinstance(n.func.value, ast.Name) and n.func.value.id == "self":
        if n.func.attr.startswith(prefix):
            return n.func.attr
    return None


def _impls(corpus: Corpus, cls_fq: str, meth: str) -> list[FunctionInfo]:
    ci = corpus.cls(cls_fq)
    out = corpus.method_impls(ci, meth)
    if not out:
        raise AnchorMissing(f"method {cls_fq}.{meth} not found")
    return out


# ---------------------------------------------------------------------------
# regex fact: can the scheme regex match a string that starts with '#'?


def _regex_cannot_start_with(pattern: str, ch: str) -> bool:
    """True only if provable from the regex tree that no match starts with ``ch``."""
    import re._parser as sre  # type: ignore[import-not-found]
    from re import _constants as C  # type: ignore[attr-defined]

    def first(seq) -> bool | None:
        """True: first consumed char is surely != ch; False: may be ch / unknown; None: consumes nothing."""
        for op, av in seq:
            if op is C.AT:
                continue
            if op is C.LITERAL:
                return av != ord(ch)
            if op is C.NOT_LITERAL:
                return False
            if op is C.IN:
                for iop, iav in av:
                    if iop is C.LITERAL:
                        if iav == ord(ch):
                            return False
                    elif iop is C.RANGE:
                        if iav[0] <= ord(ch) <= iav[1]:
                            return False
                    else:  # NEGATE, CATEGORY ...: not modelled
                        return False
                return True
            if op is C.SUBPATTERN:
                r = first(av[3])
                if r is None:
                    continue
                return r
            if op in (C.MAX_REPEAT, C.MIN_REPEAT):
                lo, _hi, body = av
                r = first(body)
                if lo >= 1:
                    if r is None:
                        continue
                    return r
                if r is True or r is None:
                    continue  # optional part cannot start with ch; look further
                return False
            if op is C.BRANCH:
                rs = [first(b) for b in av[1]]
                if all(r is True for r in rs):
                    return True
                return False
            return False
        return None

    try:
        tree = sre.parse(pattern)
    except Exception:
        return False
    return first(list(tree)) is True


def _scheme_regex_excludes_hash(fi: FunctionInfo, expr: ast.AST) -> bool:
    """``expr`` derives from ``<REGEX>.match(<href>)`` and REGEX cannot match a leading '#'."""
    m = fi.module
    for e in _closure(fi, expr):
        for c in ast.walk(e):
            if isinstance(c, ast.Call) and isinstance(c.func, ast.Attribute) and c.func.attr in ("match", "fullmatch") and isinstance(c.func.value, ast.Name):
                rx = m.const_nodes.get(c.func.value.id)
                if rx is None or not c.args or not _derives(fi, c.args[0], _is_href_read):
                    continue
                if isinstance(rx, ast.Call) and (dotted(rx.func) or "").endswith("compile") and rx.args:
                    try:
                        pat = m.eval_const(rx.args[0])
                    except Unsupported:
                        continue
                    if isinstance(pat, str) and len(rx.args) == 1 and not rx.keywords and _regex_cannot_start_with(pat, "#"):
                        return True
    return False


# ---------------------------------------------------------------------------
# R1 dispatch

# Branches of render_link that deliberately pre-empt the '#' dispatch; one reason each.
# Each entry is recognised by the *shape* of the guard, re-checked on every run.
CONFIG_PREEMPT = {
    "commonmark_only": "strict CommonMark mode: every link is a plain URL (documented in render_link's docstring)",
    "gfm_only": "strict GFM mode: every link is a plain URL",
    "all_links_external": "myst_all_links_external: every link is a plain URL (documented)",
}
EXTERNAL_CLASS_REASON = "a link carrying the class 'external' is forced to a plain URL (documented)"
AUTO_REASON = "autolink/linkify tokens always carry an absolute URI (markdown-it autolink rule), never a bare '#fragment'"


def _container_kind(fi: FunctionInfo, e: ast.AST, depth: int = 0) -> str:
    """What ``X in <e>`` tests: 'words' (membership in a sequence of words), 'string' (substring), 'unknown'."""
    if isinstance(e, (ast.List, ast.Tuple, ast.Set, ast.ListComp, ast.SetComp, ast.GeneratorExp)):
        return "words"
    if isinstance(e, (ast.JoinedStr,)) or (isinstance(e, ast.Constant) and isinstance(e.value, str)):
        return "string"
    if isinstance(e, ast.Call):
        d = dotted(e.func) or ""
        if isinstance(e.func, ast.Attribute) and e.func.attr in ("split", "rsplit", "splitlines"):
            return "words"
        if d in ("set", "list", "tuple", "frozenset", "sorted") and len(e.args) == 1:
            inner = _container_kind(fi, e.args[0], depth + 1)
            return "words" if inner == "words" else "unknown"
        if d == "str":
            return "string"
        if d in ("cast", "t.cast", "typing.cast") and len(e.args) == 2:
            return _container_kind(fi, e.args[1], depth + 1)
        if isinstance(e.func, ast.Attribute) and e.func.attr in ("lower", "upper", "casefold", "strip", "lstrip", "rstrip", "replace", "join", "format"):
            return "string"
        if isinstance(e.func, ast.Attribute) and e.func.attr in ("get", "attrGet") and e.args and isinstance(e.args[0], ast.Constant) and e.args[0].value == "class":
            return "string"  # token attribute values are scalars (str | int | float)
        return "unknown"
    if isinstance(e, ast.Subscript) and isinstance(e.slice, ast.Constant) and e.slice.value == "class":
        return "string"
    if isinstance(e, ast.BoolOp) and isinstance(e.op, ast.Or):
        kinds = {_container_kind(fi, v, depth + 1) for v in e.values}
        return kinds.pop() if len(kinds) == 1 else "unknown"
    if isinstance(e, ast.BinOp) and isinstance(e.op, ast.Add):
        kinds = {_container_kind(fi, e.left, depth + 1), _container_kind(fi, e.right, depth + 1)}
        return kinds.pop() if len(kinds) == 1 else "unknown"
    if isinstance(e, ast.Name) and depth < 4:
        b = [v for v, i, st in _bindings(fi, e.id) if i is None and not isinstance(st, (ast.For, ast.comprehension))]
        if len(b) == 1:
            return _container_kind(fi, b[0], depth + 1)
    return "unknown"


def _preemption(fi: FunctionInfo, e: ast.expr, pol: bool) -> tuple[str, str] | None:
    """('ok', reason) if the fact (e, pol) is one of the tabled pre-emptions; ('substring' | 'unknown', text) if it
    looks like the 'external' class pre-emption but is not a *word* membership test."""
    if not pol:
        return None
    # any boolean combination of md_config flags from the table
    attrs = [n for n in ast.walk(e) if isinstance(n, ast.Attribute)]
    leaves = [a for a in attrs if isinstance(a.value, ast.Attribute) and a.value.attr == "md_config"]
    if leaves and all(a.attr in CONFIG_PREEMPT for a in leaves):
        others = [n for n in ast.walk(e) if isinstance(n, (ast.Call, ast.Compare, ast.Subscript))]
        if not others and (isinstance(e, ast.Attribute) or (isinstance(e, ast.BoolOp) and isinstance(e.op, ast.Or))):
            return "ok", "; ".join(sorted({CONFIG_PREEMPT[a.attr] for a in leaves}))
    if isinstance(e, ast.Compare) and len(e.ops) == 1 and isinstance(e.ops[0], ast.In) and isinstance(e.left, ast.Constant) and e.left.value == "external":
        cont = e.comparators[0]
        if any(isinstance(n, ast.Constant) and n.value == "class" for x in _closure(fi, cont) for n in ast.walk(x)):
            kind = _container_kind(fi, cont)
            if kind == "words":
                return "ok", EXTERNAL_CLASS_REASON
            if kind == "string":
                return "substring", (
                    f"`{short(e, 60)}` is a substring test on the class string, not a membership test on the list of classes: a '#' link whose class merely "
                    "contains 'external' (external-icon, non-external) bypasses render_link_anchor, is never marked id_link, is never resolved and never warns"
                )
            return "unknown", f"`{short(e, 60)}`: cannot tell whether the right-hand side is a list of class words or a string"
    if isinstance(e, ast.Compare) and len(e.ops) == 1 and isinstance(e.ops[0], ast.Eq):
        sides = [e.left, e.comparators[0]]
        if any(isinstance(s, ast.Constant) and s.value == "auto" for s in sides) and any(isinstance(s, ast.Attribute) and s.attr == "info" for s in sides):
            return "ok", AUTO_REASON
    return None


def _hash_fact(fi: FunctionInfo, e: ast.expr) -> ast.expr | None:
    """receiver X if ``e`` is ``X.startswith('#')`` with X derived from the token's href."""
    sw = _startswith(e)
    if sw and sw[1] == "#" and _derives(fi, sw[0], _is_href_read):
        return sw[0]
    return None


_PREFIX_PRESERVING = ("normalizeLinkText", "unquote", "str", "cast", "rstrip")


def _unwrap_prefix_preserving(e: ast.AST | None) -> ast.AST | None:
    """X for ``self.md.normalizeLinkText(X)`` / ``str(X)`` / ``cast(str, X)`` (calls that keep a leading '#')."""
    while isinstance(e, ast.Call) and e.args and (dotted(e.func) or "").rsplit(".", 1)[-1] in _PREFIX_PRESERVING:
        e = e.args[-1] if (dotted(e.func) or "").rsplit(".", 1)[-1] == "cast" else e.args[0]
    return e


def _arg_is_tested(fi: FunctionInfo, arg: ast.AST | None, tested: set[str]) -> bool:
    """``arg`` is one of the tested '#'-prefixed expressions, possibly behind prefix-preserving calls / single-bound locals."""
    e = arg
    for _ in range(6):
        if e is None:
            return False
        if unparse(e) in tested:
            return True
        u = _unwrap_prefix_preserving(e)
        if u is not e:
            e = u
            continue
        if isinstance(e, ast.Name):
            b = [v for v, i, st in _bindings(fi, e.id) if i is None and not isinstance(st, (ast.For, ast.comprehension))]
            if len(b) == 1:
                e = b[0]
                continue
        return False
    return False


def _class_table(corpus: Corpus, fi: FunctionInfo, e: ast.AST) -> dict | None:
    """Literal dict behind ``self.NAME`` / ``cls.NAME`` / ``Class.NAME`` (class attribute) or a module constant ``NAME``."""
    name = None
    if isinstance(e, ast.Attribute) and isinstance(e.value, ast.Name):
        name = e.attr
    elif isinstance(e, ast.Name):
        name = e.id
    if name is None:
        return None
    cands: list[ast.AST] = []
    if fi.cls is not None and isinstance(e, ast.Attribute):
        for ci in corpus.mro(fi.cls):
            for st in ci.node.body:
                if isinstance(st, ast.Assign) and any(isinstance(t, ast.Name) and t.id == name for t in st.targets):
                    cands.append(st.value)
                elif isinstance(st, ast.AnnAssign) and isinstance(st.target, ast.Name) and st.target.id == name and st.value is not None:
                    cands.append(st.value)
            if cands:
                break
    elif name in fi.module.const_nodes:
        cands.append(fi.module.const_nodes[name])
    if len(cands) != 1:
        return None
    try:
        val = fi.module.eval_const(cands[0])
    except Unsupported:
        return None
    return val if isinstance(val, dict) else None


def _guard_key(fi: FunctionInfo, guards) -> str:
    """Line-free discriminator of a dispatch call: the branch conditions it sits under (minus the '#' test itself)."""
    parts = sorted({("" if p else "not ") + short(e, 48) for e, p in guards if _hash_fact(fi, e) is None})
    return "if " + " and ".join(parts) if parts else "otherwise"


@rule(R1)
def r1_dispatch(corpus: Corpus, rep: Report, tier: str):
    rep.rule(R1, "an href starting with '#' can leave render_link / render_link_project only through render_link_anchor, which receives the '#'-prefixed text")
    n_anchor = 0
    for a in _impls(corpus, f"{BASE}:DocutilsRenderer", "render_link_anchor"):
        if len(a.params) < 3:
            raise Unsupported(f"{a.qualname}{tuple(a.params)}: expected (self, token, target)")
    for fi in _impls(corpus, f"{BASE}:DocutilsRenderer", "render_link"):
        rep.saw_function(fi.fq)
        cfg = get_cfg(fi)
        anchors = 0
        project_dispatch = False
        for call in [n for n in fi.local_nodes() if _self_call(n, "render_link_")]:
            meth = _self_call(call)
            st = cfg.stmt_of(call)
            site = fi.module.site(call)
            rep.saw_call(site)
            guards = cfg.guards(st)
            k = f"{fi.fq}|{short(call, 80)}|{_guard_key(fi, guards)}"
            if meth == "render_link_anchor":
                recv = [r for r in (_hash_fact(fi, e) for e, p in guards if p) if r is not None]
                arg = call.args[1] if len(call.args) > 1 else kwarg(call, "target")
                if not recv:
                    rep.violation(R1, k, site, "render_link_anchor is called without a dominating `href.startswith('#')` test: non-'#' links are marked as local id links")
                elif not _arg_is_tested(fi, arg, {unparse(r) for r in recv}):
                    rep.violation(R1, k, site, f"render_link_anchor must receive the '#'-prefixed href that was tested ({', '.join(unparse(r) for r in recv)}); got `{short(arg, 40) if arg is not None else 'nothing'}` - ResolveAnchorIds strips exactly one leading character")
                else:
                    anchors += 1
                    n_anchor += 1
                    rep.ok(R1, k, site, "'#' href -> render_link_anchor(token, href)")
                continue
            if meth == "render_link_project" and any(
                p and isinstance(e, ast.Compare) and isinstance(e.ops[0], ast.Eq) and any(isinstance(s, ast.Constant) and s.value == "project" for s in [e.left, e.comparators[0]])
                for e, p in guards
            ):
                project_dispatch = True
            why = None
            assumed = None
            for e, p in guards:
                if not p and _hash_fact(fi, e) is not None:
                    why = "guarded by `not href.startswith('#')`"
                    break
            if why is None:
                for e, p in guards:
                    if p and isinstance(e, ast.Compare) and len(e.ops) == 1 and isinstance(e.ops[0], (ast.Eq, ast.In)) and isinstance(e.left, ast.Name):
                        if _scheme_regex_excludes_hash(fi, e.left):
                            why = f"guarded by `{short(e, 40)}`: the scheme regex cannot match a leading '#', so the scheme is None for '#' hrefs"
                            break
            bad = None
            if why is None:
                for e, p in guards:
                    r = _preemption(fi, e, p)
                    if r and r[0] == "ok":
                        assumed = r[1]
                        break
                    if r and bad is None:
                        bad = r
            if why:
                rep.ok(R1, k, site, why)
            elif assumed:
                rep.assumed(R1, k, site, assumed)
            elif bad and bad[0] == "substring":
                rep.violation(R1, k, site, bad[1])
            elif bad:
                rep.error(R1, f"{site}: {bad[1]}")
            else:
                rep.violation(R1, k, site, f"an href that starts with '#' can reach `{short(call, 50)}`: the link is not marked id_link, ResolveAnchorIds never sees it and it resolves as something else")
        # table dispatch: getattr(self, TABLE[scheme])(token) under `scheme in TABLE`
        for call in [n for n in fi.local_nodes() if isinstance(n, ast.Call) and isinstance(n.func, ast.Call) and dotted(n.func.func) == "getattr"]:
            ga = call.func
            site = fi.module.site(call)
            if not (len(ga.args) == 2 and isinstance(ga.args[0], ast.Name) and ga.args[0].id == "self"):
                continue
            sub = ga.args[1]
            table = _class_table(corpus, fi, sub.value) if isinstance(sub, ast.Subscript) else None
            if table is None or not isinstance(sub.slice, ast.Name):
                if "render_link" in unparse(ga):
                    rep.error(R1, f"{site}: dynamic dispatch `{short(call, 60)}` not understood")
                continue
            st = cfg.stmt_of(call)
            guards = cfg.guards(st)
            keyvar = sub.slice
            member = any(p and isinstance(e, ast.Compare) and len(e.ops) == 1 and isinstance(e.ops[0], ast.In) and unparse(e.left) == unparse(keyvar) and unparse(e.comparators[0]) == unparse(sub.value) for e, p in guards)
            hash_guard = any((not p) and _hash_fact(fi, e) is not None for e, p in guards)
            scheme_ok = member and _scheme_regex_excludes_hash(fi, keyvar)
            for key, meth in sorted(table.items()):
                rep.saw_call(site)
                k = f"{fi.fq}|table dispatch {key!r} -> self.{meth}(token)"
                if not (isinstance(key, str) and isinstance(meth, str) and meth.startswith("render_link_")):
                    continue
                if meth == "render_link_anchor":
                    rep.error(R1, f"{site}: render_link_anchor reached through a dispatch table: not modelled")
                    continue
                if key == "project" and meth == "render_link_project" and member:
                    project_dispatch = True
                if hash_guard:
                    rep.ok(R1, k, site, "guarded by `not href.startswith('#')`")
                elif scheme_ok:
                    rep.ok(R1, k, site, f"selected by `{unparse(keyvar)}`: the scheme regex cannot match a leading '#'")
                else:
                    rep.violation(R1, k, site, f"an href that starts with '#' can reach `{short(call, 50)}` ({key!r} -> {meth})")
        if anchors == 0:
            rep.violation(R1, f"{fi.fq}|no '#' dispatch", fi.site(), "render_link has no `href.startswith('#')` -> render_link_anchor dispatch: local links are never resolved")
        k = f"{fi.fq}|scheme 'project' reaches render_link_project"
        if project_dispatch:
            rep.ok(R1, k, fi.site())
        else:
            rep.violation(R1, k, fi.site(), "no `scheme == 'project'` -> render_link_project dispatch: <project:#x> cannot reach render_link_anchor")

    for fi in _impls(corpus, f"{BASE}:DocutilsRenderer", "render_link_project"):
        rep.saw_function(fi.fq)
        cfg = get_cfg(fi)
        anchor_ok = False
        for n in fi.local_nodes():
            if not isinstance(n, ast.Call):
                continue
            meth = _self_call(n)
            d = fi.module.resolve(dotted(n.func) or "")
            is_outcome = (meth is not None and (meth.startswith("render_link_") or meth in ("create_warning", "_process_wrap_node"))) or d.startswith("sphinx.addnodes.")
            if not is_outcome:
                continue
            st = cfg.stmt_of(n)
            site = fi.module.site(n)
            rep.saw_call(site)
            guards = cfg.guards(st)
            k = f"{fi.fq}|{short(n, 70)}|{_guard_key(fi, guards)}"
            if meth == "render_link_anchor":
                recv = [r for r in (_hash_fact(fi, e) for e, p in guards if p) if r is not None]
                arg = n.args[1] if len(n.args) > 1 else kwarg(n, "target")
                if not recv:
                    rep.violation(R1, k, site, "render_link_anchor is called without a dominating `destination.startswith('#')` test")
                elif not _arg_is_tested(fi, arg, {unparse(r) for r in recv}):
                    rep.violation(R1, k, site, f"render_link_anchor must receive the '#'-prefixed destination that was tested; got `{short(arg, 40) if arg is not None else 'nothing'}`")
                else:
                    anchor_ok = True
                    n_anchor += 1
                    rep.ok(R1, k, site, "'project:#x' -> render_link_anchor(token, '#x')")
                continue
            if any((not p) and _hash_fact(fi, e) is not None for e, p in guards):
                rep.ok(R1, k, site, "guarded by `not destination.startswith('#')`")
            else:
                rep.violation(R1, k, site, f"`{short(n, 50)}` is reachable for <project:#x>: the '#' dispatch does not come first")
        if not anchor_ok:
            rep.violation(R1, f"{fi.fq}|no '#' dispatch", fi.site(), f"{fi.qualname} never hands 'project:#x' to render_link_anchor")
        # prefix strip: D = D[k:] under D.startswith(P) needs k == len(P)
        strips = 0
        for n in fi.local_nodes():
            if isinstance(n, ast.Assign) and isinstance(n.value, ast.Subscript) and isinstance(n.value.slice, ast.Slice) and isinstance(n.targets[0], ast.Name):
                sl = n.value.slice
                if not (isinstance(sl.lower, ast.Constant) and sl.upper is None and sl.step is None):
                    continue
                for e, p in cfg.guards(cfg.stmt_of(n)):
                    sw = _startswith(e)
                    if p and sw and unparse(sw[0]) == unparse(n.value.value):
                        strips += 1
                        k = f"{fi.fq}|strip prefix {sw[1]!r}"
                        if sl.lower.value == len(sw[1]):
                            rep.ok(R1, k, fi.module.site(n), f"[{sl.lower.value}:] == len({sw[1]!r})")
                        else:
                            rep.violation(R1, k, fi.module.site(n), f"`{short(n, 50)}` strips {sl.lower.value} characters after testing the {len(sw[1])}-character prefix {sw[1]!r}: the '#' of <project:#x> is no longer first")
        for n in fi.local_nodes():
            if isinstance(n, ast.Assign) and isinstance(n.targets[0], ast.Name) and isinstance(n.value, ast.Call) and isinstance(n.value.func, ast.Attribute) and n.value.func.attr in ("removeprefix", "lstrip", "strip", "replace"):
                c = n.value
                if not (c.args and isinstance(c.args[0], ast.Constant) and isinstance(c.args[0].value, str) and c.args[0].value.endswith(":")) or not _derives(fi, c.func.value, _is_href_read):
                    continue
                strips += 1
                pfx = c.args[0].value
                k = f"{fi.fq}|strip prefix {pfx!r}"
                if c.func.attr == "removeprefix" and len(c.args) == 1:
                    rep.ok(R1, k, fi.module.site(n), f"removeprefix({pfx!r})")
                else:
                    rep.violation(
                        R1,
                        k,
                        fi.module.site(n),
                        f"`{short(n, 60)}` does not remove the prefix {pfx!r} but "
                        + ("every leading character from that set" if c.func.attr in ("lstrip", "strip") else "every occurrence of it")
                        + ": more than the scheme can be cut off (lstrip('project:') also eats the leading letters of `<project:tips.md#x>`), so the '#' test that follows does not see the text after 'project:'",
                    )
        if strips == 0:
            rep.error(R1, f"{fi.fq}: the 'project:' prefix strip was not recognised (rewritten in an unknown idiom)")
    rep.expect_min(R1, 12, "dispatch calls in render_link (9) and the two render_link_project implementations")
    if n_anchor < 3:
        rep.error(R1, f"expected three render_link_anchor dispatch sites (render_link, 2 x render_link_project), judged {n_anchor}")


# ---------------------------------------------------------------------------
# helper inlining: a function that was split into private helpers is analysed as if it had not been split


def _copy_ast(n):
    """Structural copy that keeps positions but none of the corpus' back links."""
    if isinstance(n, list):
        return [_copy_ast(x) for x in n]
    if not isinstance(n, ast.AST):
        return n
    new = n.__class__()
    for fld in n._fields:
        if hasattr(n, fld):
            setattr(new, fld, _copy_ast(getattr(n, fld)))
    for a in ("lineno", "col_offset", "end_lineno", "end_col_offset"):
        if hasattr(n, a):
            setattr(new, a, getattr(n, a))
    return new


class _Renamer(ast.NodeTransformer):
    def __init__(self, subst: dict[str, ast.AST], rename: dict[str, str]):
        self.subst, self.rename = subst, rename

    def visit_Name(self, node: ast.Name):
        if node.id in self.subst and isinstance(node.ctx, ast.Load):
            new = _copy_ast(self.subst[node.id])
            for a in ("lineno", "col_offset", "end_lineno", "end_col_offset"):
                if hasattr(node, a):
                    setattr(new, a, getattr(node, a))
            return new
        if node.id in self.rename:
            node.id = self.rename[node.id]
        return node


def _stored_names(body: list[ast.stmt]) -> set[str]:
    out: set[str] = set()
    for st in body:
        for n in [st] + list(walk_local(st)):
            if isinstance(n, ast.Name) and isinstance(n.ctx, (ast.Store, ast.Del)):
                out.add(n.id)
            elif isinstance(n, ast.alias):
                out.add((n.asname or n.name).split(".")[0])
    return out


def _strip_doc(body: list[ast.stmt]) -> list[ast.stmt]:
    if body and isinstance(body[0], ast.Expr) and isinstance(body[0].value, ast.Constant) and isinstance(body[0].value.value, str):
        return body[1:]
    return body


class _Inliner:
    def __init__(self, corpus: Corpus, fi: FunctionInfo):
        self.corpus, self.fi = corpus, fi
        self.used = {n.id for n in ast.walk(fi.node) if isinstance(n, ast.Name)} | set(fi.params)
        self.count = 0
        self.inlined: list[str] = []

    def callee(self, call: ast.Call, ctx: FunctionInfo) -> tuple[FunctionInfo, bool] | None:
        f = call.func
        h = None
        if isinstance(f, ast.Attribute) and isinstance(f.value, ast.Name) and f.value.id == "self" and self.fi.cls is not None:
            h = self.corpus.lookup_method(self.fi.cls, f.attr)
            bound = True
        elif isinstance(f, ast.Name):
            h = ctx.module.functions.get(f.id)
            bound = False
        if h is None or h.is_lambda or h.fq == self.fi.fq or h.fq == ctx.fq or h.is_generator():
            return None
        decos = h.decorators()
        if any(d not in ("staticmethod",) for d in decos):
            return None
        if any(isinstance(n, (ast.FunctionDef, ast.AsyncFunctionDef, ast.ClassDef, ast.Lambda, ast.Global, ast.Nonlocal)) for n in ast.walk(h.node) if n is not h.node):
            return None
        return h, (bound and "staticmethod" not in decos)

    def bind(self, h: FunctionInfo, call: ast.Call, has_self: bool) -> dict[str, ast.AST] | None:
        a = h.node.args
        if a.vararg or a.kwarg or a.posonlyargs or any(isinstance(x, ast.Starred) for x in call.args) or any(k.arg is None for k in call.keywords):
            return None
        params = [x.arg for x in a.args]
        defaults: dict[str, ast.AST] = {}
        for prm, d in zip(params[len(params) - len(a.defaults):], a.defaults):
            defaults[prm] = d
        for prm, d in zip(a.kwonlyargs, a.kw_defaults):
            if d is not None:
                defaults[prm.arg] = d
        out: dict[str, ast.AST] = {}
        pos = params[1:] if has_self else params
        if has_self:
            out[params[0]] = ast.Name(id="self", ctx=ast.Load())
        if len(call.args) > len(pos):
            return None
        for prm, arg in zip(pos, call.args):
            out[prm] = arg
        for k in call.keywords:
            if k.arg in out or k.arg not in pos + [x.arg for x in a.kwonlyargs]:
                return None
            out[k.arg] = k.value
        for prm in pos + [x.arg for x in a.kwonlyargs]:
            if prm not in out:
                if prm not in defaults:
                    return None
                out[prm] = defaults[prm]
        return out

    def try_inline(self, st: ast.stmt, ctx: FunctionInfo, depth: int) -> list[ast.stmt] | None:
        if depth <= 0:
            return None
        target = None
        if isinstance(st, ast.Expr) and isinstance(st.value, ast.Call):
            call, mode = st.value, "stmt"
        elif isinstance(st, ast.Assign) and len(st.targets) == 1 and isinstance(st.targets[0], ast.Name) and isinstance(st.value, ast.Call):
            call, mode, target = st.value, "assign", st.targets[0].id
        elif isinstance(st, ast.AnnAssign) and isinstance(st.target, ast.Name) and isinstance(st.value, ast.Call):
            call, mode, target = st.value, "assign", st.target.id
        else:
            return None
        r = self.callee(call, ctx)
        if r is None:
            return None
        h, has_self = r
        binding = self.bind(h, call, has_self)
        if binding is None:
            return None
        body = _strip_doc(h.node.body)
        rets = [n for b in body for n in [b] + list(walk_local(b)) if isinstance(n, ast.Return)]
        ret_expr = None
        if mode == "stmt":
            if len(rets) == 1 and rets[0] is body[-1] and (rets[0].value is None or isinstance(rets[0].value, (ast.Name, ast.Constant))):
                body = body[:-1]  # the returned value is discarded by the caller
            elif rets:
                return None  # early returns: summarised by the caller-side helper model instead
        else:
            if len(rets) != 1 or rets[0] is not body[-1] or rets[0].value is None:
                return None
            ret_expr = rets[0].value
            body = body[:-1]
        stored = _stored_names(body)
        aug_only = {n.target.id for b in body for n in [b] + list(walk_local(b)) if isinstance(n, ast.AugAssign) and isinstance(n.target, ast.Name)}
        aug_only -= {
            n.id
            for b in body
            for n in [b] + list(walk_local(b))
            if isinstance(n, ast.Name) and isinstance(n.ctx, (ast.Store, ast.Del)) and not isinstance(getattr(n, "_parent", None), ast.AugAssign)
        }
        subst: dict[str, ast.AST] = {}
        rename: dict[str, str] = {}
        pre: list[ast.stmt] = []
        self.count += 1
        for prm, arg in binding.items():
            simple = isinstance(arg, (ast.Name, ast.Constant)) or dotted(arg) is not None
            if simple and prm not in stored:
                subst[prm] = arg
            elif isinstance(arg, ast.Name) and prm in aug_only:
                rename[prm] = arg.id  # `p += x` on a parameter bound to a caller variable: in-place update of that variable's object
            elif isinstance(arg, ast.Name) and has_self is not None and prm in stored:
                self.count -= 1
                return None  # the helper re-binds a parameter that aliases a caller variable: an alias would hide the variable's role
            else:
                new = prm if prm not in self.used else f"{prm}__{h.name.strip('_')}{self.count}"
                rename[prm] = new
                asg = ast.Assign(targets=[ast.Name(id=new, ctx=ast.Store())], value=_copy_ast(arg))
                pre.append(asg)
        if mode == "assign" and isinstance(ret_expr, ast.Name) and ret_expr.id in stored and ret_expr.id not in binding:
            rename[ret_expr.id] = target  # the helper's result variable becomes the caller's variable
        for nm in stored:
            if nm in binding or nm in rename:
                continue
            if nm in self.used:
                rename[nm] = f"{nm}__{h.name.strip('_')}{self.count}"
        self.used |= {rename.get(n, n) for n in stored}
        rn = _Renamer(subst, rename)
        new_body = [rn.visit(_copy_ast(b)) for b in body]
        new_body = self.block(new_body, h, depth - 1, copied=True)
        out = pre + new_body
        if mode == "assign":
            rv = rn.visit(_copy_ast(ret_expr))
            if not (isinstance(rv, ast.Name) and rv.id == target):
                out.append(ast.Assign(targets=[ast.Name(id=target, ctx=ast.Store())], value=rv))
        for n in out:
            for x in ast.walk(n):
                if not hasattr(x, "lineno") and isinstance(x, (ast.stmt, ast.expr)):
                    x.lineno, x.col_offset, x.end_lineno, x.end_col_offset = st.lineno, st.col_offset, st.end_lineno, st.end_col_offset
        self.inlined.append(h.qualname)
        return out

    def block(self, stmts: list[ast.stmt], ctx: FunctionInfo, depth: int, copied: bool = False) -> list[ast.stmt]:
        out: list[ast.stmt] = []
        for st in stmts:
            r = self.try_inline(st, ctx, depth)
            if r is not None:
                out.extend(r)
                continue
            new = st if copied else _copy_ast(st)
            for fld in ("body", "orelse", "finalbody"):
                if isinstance(getattr(new, fld, None), list) and not isinstance(new, (ast.FunctionDef, ast.AsyncFunctionDef, ast.ClassDef)):
                    setattr(new, fld, self.block(getattr(new, fld), ctx, depth, copied=True))
            for hd in getattr(new, "handlers", []) or []:
                hd.body = self.block(hd.body, ctx, depth, copied=True)
            out.append(new)
        return out


def _inlined(corpus: Corpus, fi: FunctionInfo) -> FunctionInfo:
    """``fi`` with calls to simple same-class / same-module helpers replaced by their bodies (two levels).
    Positions of the copied statements are those of the helper's source, so sites stay meaningful."""

    def build() -> FunctionInfo:
        inl = _Inliner(corpus, fi)
        body = inl.block(fi.node.body, fi, 2)
        if not inl.inlined:
            return fi
        node = _copy_ast(fi.node)
        node.body = body
        mod = fi.module
        for parent in ast.walk(node):
            for child in ast.iter_child_nodes(parent):
                child._parent = parent  # type: ignore[attr-defined]
                child._mod = mod  # type: ignore[attr-defined]
        node._parent = getattr(fi.node, "_parent", None)  # type: ignore[attr-defined]
        node._mod = mod  # type: ignore[attr-defined]
        new = FunctionInfo(mod, fi.qualname, node, fi.cls, fi.parent_func)
        node._fi = new  # type: ignore[attr-defined]
        new.__dict__["_inlined_helpers"] = sorted(set(inl.inlined))
        return new

    return corpus.cache(("c09-inlined", fi.fq), build)


# ---------------------------------------------------------------------------
# the resolver model shared by R2..R5


# docutils.nodes.Element methods that copy attributes *from* their argument and leave it untouched (read from the docutils source)
DOCUTILS_READS_ARGUMENT = {
    "update_basic_atts", "update_all_atts", "update_all_atts_concatenating", "update_all_atts_coercion", "update_all_atts_convert",
    "copy_attr_convert", "copy_attr_coerce", "copy_attr_concatenate", "copy_attr_consistent", "index",
}


class Resolver:
    """Roles inside ``ResolveAnchorIds.apply`` located by what they do, not by name."""

    def __init__(self, corpus: Corpus):
        self.corpus = corpus
        self.fi = fi = _inlined(corpus, corpus.func(f"{TR}:ResolveAnchorIds.apply"))
        self.m = fi.module
        self.cfg = get_cfg(fi)
        # the loop over reference nodes
        self.pred_marker: str | None = None
        loops = [n for n in fi.local_nodes() if isinstance(n, ast.For) and isinstance(n.target, ast.Name) and (self._is_reference_cls(n.iter) or self._reference_predicate(n.iter) is not None)]
        if len(loops) != 1:
            raise Unsupported(f"expected one loop over nodes.reference in {fi.qualname}, found {len(loops)}")
        self.loop = loops[0]
        self.var = self.loop.target.id
        self.body: list[ast.AST] = []
        for st in self.loop.body:
            self.body.append(st)
            self.body.extend(walk_local(st))
        # the marker gate
        self.gate = None
        for st in self.loop.body:
            if isinstance(st, ast.If):
                for pol in (True, False):
                    for e, p in facts(st.test, pol):
                        key = self._attr_read(e)
                        if key is not None and p and self.gate is None:
                            self.gate, self.gate_key, self.start = st, key, ("T" if pol else "F", st)
            if self.gate is not None:
                break
        if self.gate is None:
            # the marker may be tested by the predicate that selects the nodes: findall(document)(self._is_id_link)
            pm = self._reference_predicate(self.loop.iter)
            if pm is not None:
                self.gate, self.gate_key, self.start, self.pred_marker = self.loop, pm, ("T", self.loop), pm
        if self.gate is None:
            raise Unsupported("no marker test (`refnode.get(<key>)`) at the top of the reference loop")
        # the target text
        self.target = None
        for n in self.body:
            if isinstance(n, ast.Assign) and len(n.targets) == 1 and isinstance(n.targets[0], ast.Name):
                for sub in ast.walk(n.value):
                    key = self._subscript_key(sub)
                    if key is not None and key != self.gate_key and self.target is None:
                        self.target, self.target_assign, self.uri_key = n.targets[0].id, n, key
        if self.target is None:
            raise Unsupported("the link target is not read from an attribute of the reference node")
        # registries
        self.slugs = None
        for n in fi.local_nodes():
            if isinstance(n, (ast.Assign, ast.AnnAssign)) and n.value is not None:
                t = n.targets[0] if isinstance(n, ast.Assign) else n.target
                if isinstance(t, ast.Name) and any(
                    (isinstance(c, ast.Constant) and c.value == "myst_slugs") or (isinstance(c, ast.Attribute) and c.attr == "myst_slugs") for c in ast.walk(n.value)
                ):
                    self.slugs = t.id
        if self.slugs is None:
            raise Unsupported("the slug registry (document.myst_slugs) is not read into a local")
        self.explicit = None
        probed = set()
        for n in self.body:
            if isinstance(n, ast.Compare) and len(n.ops) == 1 and isinstance(n.ops[0], (ast.In, ast.NotIn)) and isinstance(n.comparators[0], ast.Name):
                probed.add(n.comparators[0].id)
            elif isinstance(n, ast.Subscript) and isinstance(n.value, ast.Name) and isinstance(n.ctx, ast.Load):
                probed.add(n.value.id)
            elif isinstance(n, ast.Call) and isinstance(n.func, ast.Attribute) and n.func.attr == "get" and isinstance(n.func.value, ast.Name):
                probed.add(n.func.value.id)
        probed -= {self.slugs, self.var}
        cands = []
        for n in fi.local_nodes():
            if isinstance(n, ast.For) and n is not self.loop and not any(a is self.loop for a in _ancestors(n)):
                src_it = _iter_source(fi, n.iter)
                if not any(isinstance(c, ast.Attribute) and c.attr in ("nametypes", "nameids", "ids", "document") for c in ast.walk(src_it)):
                    continue
                for s in walk_local(n):
                    if isinstance(s, ast.Assign) and isinstance(s.targets[0], ast.Subscript) and isinstance(s.targets[0].value, ast.Name) and s.targets[0].value.id in probed:
                        cands.append((s.targets[0].value.id, n, s))
        if len({c[0] for c in cands}) == 1 and len(cands) == 1:
            self.explicit, self.explicit_loop, self.explicit_store = cands[0]
        if self.explicit is None:
            raise Unsupported(f"the explicit-name registry (a dict filled in a loop over the document's name tables and probed in the reference loop) was not recognised ({len(cands)} candidate stores)")
        # inside the loop the registries may only be used as `K in R`, `K not in R`, `R[K]` (anything else: unknown idiom)
        self.registry_writes: list[tuple[str, ast.AST]] = []
        for n in self.body:
            if isinstance(n, ast.Name) and n.id in (self.explicit, self.slugs):
                p = getattr(n, "_parent", None)
                ok_use = (isinstance(p, ast.Compare) and len(p.ops) == 1 and isinstance(p.ops[0], (ast.In, ast.NotIn)) and p.comparators[0] is n) or (
                    isinstance(p, ast.Subscript) and p.value is n and isinstance(p.ctx, ast.Load)
                )
                if isinstance(p, ast.Attribute) and p.attr == "get" and p.value is n:
                    c = getattr(p, "_parent", None)
                    ok_use = isinstance(c, ast.Call) and c.func is p and not c.keywords and (len(c.args) == 1 or (len(c.args) == 2 and isinstance(c.args[1], ast.Constant) and c.args[1].value is None))
                if isinstance(p, ast.Subscript) and p.value is n and isinstance(p.ctx, (ast.Store, ast.Del)):
                    self.registry_writes.append((n.id, p))  # judged by R5: the registries are read-only while links are resolved
                    continue
                if isinstance(p, ast.Attribute) and p.value is n and p.attr in ("setdefault", "update", "pop", "popitem", "clear", "__setitem__"):
                    self.registry_writes.append((n.id, getattr(p, "_parent", p)))
                    continue
                if not ok_use:
                    raise Unsupported(f"registry `{n.id}` is used as `{short(p, 50)}` in the reference loop (only `in` tests, subscripts and .get(key) are modelled)")
        # outcomes
        self.refid_stores = [
            n
            for n in self.body
            if isinstance(n, ast.Assign)
            and any(isinstance(t, ast.Subscript) and isinstance(t.value, ast.Name) and t.value.id == self.var and isinstance(t.slice, ast.Constant) and t.slice.value == "refid" for t in n.targets)
        ]
        self.replaces = []
        for n in self.body:
            if isinstance(n, ast.Call) and isinstance(n.func, ast.Attribute):
                if n.func.attr == "replace" and len(n.args) == 2 and isinstance(n.args[0], ast.Name) and n.args[0].id == self.var:
                    self.replaces.append((n, n.args[1]))
                elif n.func.attr == "replace_self" and isinstance(n.func.value, ast.Name) and n.func.value.id == self.var and n.args:
                    self.replaces.append((n, n.args[0]))
        self.warnings = [n for n in self.body if isinstance(n, ast.Call) and self.m.resolve(dotted(n.func) or "").endswith("warnings_.create_warning")]
        # a helper that receives the reference node is followed one level (inspect / add children only), else fail closed
        self.helper_fills: dict[int, bool] = {}
        self.helpers: list = []
        for n in self.body:
            if isinstance(n, ast.Call) and n not in self.warnings and not any(n is c for c, _ in self.replaces):
                passed = [a for a in list(n.args) + [k.value for k in n.keywords] if isinstance(a, ast.Name) and a.id == self.var]
                if passed and dotted(n.func) not in ("isinstance", "len", "bool", "id", "repr", "str"):
                    if isinstance(n.func, ast.Attribute) and isinstance(n.func.value, ast.Name) and n.func.value.id != "self":
                        if n.func.attr in DOCUTILS_READS_ARGUMENT and n.func.value.id != self.var:
                            continue  # docutils Element method that only reads its argument (copies attributes from it)
                        raise Unsupported(f"the reference node is passed to `{short(n, 50)}`, which is not followed")
                    self._follow_helper(n)
        # any other reporter-style emission inside the loop is outside the model
        for n in self.body:
            if isinstance(n, ast.Call) and isinstance(n.func, ast.Attribute) and n.func.attr in ("warning", "error", "severe", "log_warning") and n not in self.warnings:
                raise Unsupported(f"unmodelled message emission in the reference loop: {short(n, 60)}")

    # -- recognisers -----------------------------------------------------------
    def _reference_predicate(self, it: ast.AST) -> str | None:
        """Marker key if the iterator selects nodes with a predicate `isinstance(n, nodes.reference) and n.get(<marker>) ...`
        (a lambda, a same-class method or a same-module function); None otherwise."""
        for x in ast.walk(it):
            body, prm, ctx = None, None, self.fi
            if isinstance(x, ast.Lambda) and len(x.args.args) == 1:
                body, prm = x.body, x.args.args[0].arg
            else:
                h = None
                if isinstance(x, ast.Attribute) and isinstance(x.value, ast.Name) and x.value.id in ("self", "cls") and self.fi.cls is not None and not (isinstance(getattr(x, "_parent", None), ast.Call) and x._parent.func is x):
                    h = self.corpus.lookup_method(self.fi.cls, x.attr)
                elif isinstance(x, ast.Name) and x.id in self.m.functions and not (isinstance(getattr(x, "_parent", None), ast.Call) and x._parent.func is x):
                    h = self.m.functions[x.id]
                if h is None or h.is_lambda:
                    continue
                ps = [q for q in h.params if q not in ("self", "cls")]
                rets = [r for r in h.local_nodes() if isinstance(r, ast.Return)]
                if len(ps) != 1 or len(rets) != 1 or rets[0].value is None:
                    continue
                body, prm, ctx = rets[0].value, ps[0], h
            conj = facts(body, True)
            is_ref = any(p and isinstance(e, ast.Call) and dotted(e.func) == "isinstance" and len(e.args) == 2 and isinstance(e.args[0], ast.Name) and e.args[0].id == prm
                         and "reference" in (_node_classes(ctx, e.args[1]) or set()) for e, p in conj)
            if not is_ref:
                continue
            for e, p in conj:
                if not p:
                    continue
                while isinstance(e, ast.Call) and dotted(e.func) == "bool" and len(e.args) == 1:
                    e = e.args[0]
                if isinstance(e, ast.Call) and isinstance(e.func, ast.Attribute) and e.func.attr == "get" and isinstance(e.func.value, ast.Name) and e.func.value.id == prm and e.args and isinstance(e.args[0], ast.Constant):
                    return e.args[0].value
                if isinstance(e, ast.Subscript) and isinstance(e.value, ast.Name) and e.value.id == prm and isinstance(e.slice, ast.Constant) and isinstance(e.slice.value, str):
                    return e.slice.value
        return None

    def _is_reference_cls(self, e: ast.AST) -> bool:
        return any(isinstance(c, (ast.Attribute, ast.Name)) and self.m.resolve(dotted(c) or "") == "docutils.nodes.reference" for c in ast.walk(e))

    def _subscript_key(self, e: ast.AST) -> str | None:
        if isinstance(e, ast.Subscript) and isinstance(e.value, ast.Name) and e.value.id == self.var and isinstance(e.slice, ast.Constant) and isinstance(e.slice.value, str):
            return e.slice.value
        return None

    def _attr_read(self, e: ast.AST) -> str | None:
        k = self._subscript_key(e)
        if k is not None:
            return k
        if isinstance(e, ast.Call) and isinstance(e.func, ast.Attribute) and e.func.attr == "get" and isinstance(e.func.value, ast.Name) and e.func.value.id == self.var:
            if e.args and isinstance(e.args[0], ast.Constant) and isinstance(e.args[0].value, str):
                return e.args[0].value
        if isinstance(e, ast.Compare) and len(e.ops) == 1 and isinstance(e.ops[0], ast.In) and isinstance(e.left, ast.Constant) and isinstance(e.comparators[0], ast.Name) and e.comparators[0].id == self.var:
            return e.left.value if isinstance(e.left.value, str) else None
        return None

    def own_calls(self, n) -> list[ast.Call]:
        """Calls evaluated by CFG node ``n`` itself (header expression of compound statements)."""
        if not isinstance(n, ast.AST):
            return []
        if isinstance(n, (ast.If, ast.While)):
            roots: list[ast.AST] = [n.test]
        elif isinstance(n, ast.For):
            roots = [n.iter]
        elif isinstance(n, ast.With):
            roots = [i.context_expr for i in n.items]
        elif isinstance(n, (ast.Try, ast.FunctionDef, ast.AsyncFunctionDef, ast.ClassDef)):
            roots = []
        else:
            roots = [n]
        return [c for r in roots for c in ([r] if isinstance(r, ast.Call) else []) + [x for x in walk_local(r) if isinstance(x, ast.Call)]]

    def warn_weight(self, n) -> int:
        return sum(1 for c in self.own_calls(n) if c in self.warnings)

    def _get_call(self, e: ast.AST, depth: int = 0) -> ast.Call | None:
        """``R.get(K)`` behind ``e`` (directly, or through a local bound once to it)."""
        if isinstance(e, ast.Call) and isinstance(e.func, ast.Attribute) and e.func.attr == "get" and isinstance(e.func.value, ast.Name) and e.func.value.id in (self.explicit, self.slugs) and e.args:
            return e
        if isinstance(e, ast.Name) and depth < 2:
            b = [v for v, i, st in _bindings(self.fi, e.id) if i is None]
            if len(b) == 1:
                return self._get_call(b[0], depth + 1)
        return None

    def lookup_facts(self, stmt) -> dict[str, set[bool]]:
        """{'explicit'|'slugs': polarities} of registry membership facts that hold at ``stmt``."""
        out: dict[str, set[bool]] = {"explicit": set(), "slugs": set()}
        # a failed *hit test* `K in R and <conditions on the entry R[K]>` (e.g. the entry's id is still in the tree) counts as a failed
        # lookup of R: the false edge of such a conjunction is not decomposed by the CFG's fact extraction
        for e, p in self.cfg.guards(stmt):
            if p or not (isinstance(e, ast.BoolOp) and isinstance(e.op, ast.And)):
                continue
            conj = [fp for v in e.values for fp in facts(v, True)]
            regs = set()
            for ce, cp in conj:
                if cp and isinstance(ce, ast.Compare) and len(ce.ops) == 1 and isinstance(ce.ops[0], ast.In) and isinstance(ce.comparators[0], ast.Name) and ce.comparators[0].id in (self.explicit, self.slugs):
                    if _derives(self.fi, ce.left, lambda s: isinstance(s, ast.Name) and s.id == self.target):
                        regs.add(ce.comparators[0].id)
            if len(regs) != 1:
                continue
            reg = next(iter(regs))
            rest = [ce for ce, cp in conj if not (isinstance(ce, ast.Compare) and isinstance(ce.comparators[0], ast.Name) and ce.comparators[0].id == reg and isinstance(ce.ops[0], ast.In))]
            if all(any(isinstance(x, ast.Subscript) and isinstance(x.value, ast.Name) and x.value.id == reg for x in ast.walk(c)) and not _mentions_name(c, self.var) for c in rest):
                out["explicit" if reg == self.explicit else "slugs"].add(False)
        for e, p in self.cfg.guards(stmt):
            # hit = R.get(K); `if hit` / `if hit is not None` (registry values are non-empty tuples)
            g, gp = self._get_call(e), p
            if g is None and isinstance(e, ast.Compare) and len(e.ops) == 1 and isinstance(e.comparators[0], ast.Constant) and e.comparators[0].value is None and isinstance(e.ops[0], (ast.Is, ast.IsNot)):
                g, gp = self._get_call(e.left), (p if isinstance(e.ops[0], ast.IsNot) else not p)
            if g is not None and _derives(self.fi, g.args[0], lambda s: isinstance(s, ast.Name) and s.id == self.target):
                out["explicit" if g.func.value.id == self.explicit else "slugs"].add(gp)
                continue
            if isinstance(e, ast.Compare) and len(e.ops) == 1 and isinstance(e.ops[0], (ast.In, ast.NotIn)) and isinstance(e.comparators[0], ast.Name):
                reg = e.comparators[0].id
                pol = p if isinstance(e.ops[0], ast.In) else not p
                if not _derives(self.fi, e.left, lambda s: isinstance(s, ast.Name) and s.id == self.target):
                    continue
                if reg == self.explicit:
                    out["explicit"].add(pol)
                elif reg == self.slugs:
                    out["slugs"].add(pol)
        return out

    def lookup_facts_of_test(self, test: ast.expr) -> bool:
        if any(self._get_call(c) is not None for c in ast.walk(test) if isinstance(c, (ast.Name, ast.Call))):
            return True
        return any(isinstance(c, ast.Compare) and isinstance(c.comparators[0], ast.Name) and c.comparators[0].id in (self.explicit, self.slugs) for c in ast.walk(test))

    def outcome_stmts(self) -> list[tuple[str, ast.stmt, ast.AST]]:
        out = [("refid", self.cfg.stmt_of(s), s) for s in self.refid_stores]
        out += [("replace", self.cfg.stmt_of(c), c) for c, _ in self.replaces]
        return out

    def is_add_child(self, n, var: str | None = None) -> bool:
        var = var or self.var
        if isinstance(n, ast.AugAssign) and isinstance(n.op, ast.Add) and isinstance(n.target, ast.Name) and n.target.id == var:
            return True
        if isinstance(n, ast.Expr) and isinstance(n.value, ast.Call) and isinstance(n.value.func, ast.Attribute):
            f = n.value.func
            if f.attr in ("append", "extend", "insert") and isinstance(f.value, ast.Name) and f.value.id == var:
                return True
        if isinstance(n, ast.Expr) and isinstance(n.value, ast.Call) and self.helper_fills.get(id(n.value)):
            return True  # a followed helper that adds a child (or finds children) on every path
        return False

    def _is_children(self, e: ast.AST, var: str | None = None) -> bool:
        var = var or self.var
        if isinstance(e, ast.Attribute) and e.attr == "children" and isinstance(e.value, ast.Name) and e.value.id == var:
            return True
        if isinstance(e, ast.Call) and dotted(e.func) in ("len", "bool") and len(e.args) == 1:
            a = e.args[0]
            if dotted(e.func) == "len" and isinstance(a, ast.Name) and a.id == var:
                return True  # len(Element) == number of children
            return self._is_children(a, var)
        return False

    def children_facts(self, test: ast.expr, pol: bool, depth: int = 0, var: str | None = None, fi: FunctionInfo | None = None) -> list[bool]:
        """Polarities with which ``refnode.children`` is known (non-)empty on this edge."""
        out = []
        fi = fi or self.fi
        for e, p in facts(test, pol):
            if self._is_children(e, var):
                out.append(p)
            elif isinstance(e, ast.Compare) and len(e.ops) == 1 and self._is_children(e.left, var) and isinstance(e.comparators[0], ast.Constant) and e.comparators[0].value == 0:
                op = e.ops[0]
                if isinstance(op, (ast.Gt, ast.NotEq)):
                    out.append(p)
                elif isinstance(op, ast.Eq):
                    out.append(not p)
            elif isinstance(e, ast.Name) and depth < 3:
                b = _bindings(fi, e.id)
                if len(b) == 1 and b[0][1] is None:
                    out.extend(self.children_facts(b[0][0], p, depth + 1, var, fi))
        return out

    def is_nonempty_edge(self, n, var: str | None = None, fi: FunctionInfo | None = None) -> bool:
        return isinstance(n, tuple) and n[0] in ("T", "F") and isinstance(n[1], ast.If) and True in self.children_facts(n[1].test, n[0] == "T", 0, var, fi)

    # -- helpers that receive the reference node (followed one level) -----------------
    def _follow_helper(self, call: ast.Call) -> None:
        """``self.h(refnode, ...)`` / ``h(refnode, ...)``: accepted if ``h`` is a function of this module that only
        inspects the node and adds children; records whether it fills an empty node on every path."""
        f = call.func
        h = None
        if isinstance(f, ast.Attribute) and isinstance(f.value, ast.Name) and f.value.id == "self" and self.fi.cls is not None:
            h = self.corpus.lookup_method(self.fi.cls, f.attr)
            shift = 0 if (h is not None and "staticmethod" in h.decorators()) else 1
        elif isinstance(f, ast.Name):
            h = self.m.functions.get(f.id) or self.corpus.find_function(self.m.resolve(f.id))
            shift = 0
        if h is None or h.is_lambda:
            raise Unsupported(f"the reference node is passed to `{short(call, 50)}`, which cannot be followed")
        pos = [i for i, a in enumerate(call.args) if isinstance(a, ast.Name) and a.id == self.var]
        kws = [k.arg for k in call.keywords if isinstance(k.value, ast.Name) and k.value.id == self.var]
        if len(pos) + len(kws) != 1 or any(isinstance(a, ast.Starred) for a in call.args):
            raise Unsupported(f"`{short(call, 50)}`: argument binding of the reference node not understood")
        pv = kws[0] if kws else (h.params[pos[0] + shift] if pos[0] + shift < len(h.params) else None)
        if pv is None or pv not in h.params:
            raise Unsupported(f"`{short(call, 50)}`: argument binding of the reference node not understood")
        for n in h.local_nodes():
            bad = None
            if isinstance(n, ast.Subscript) and isinstance(n.value, ast.Name) and n.value.id == pv and isinstance(n.ctx, (ast.Store, ast.Del)):
                bad = f"writes/deletes an attribute of the node (`{short(n, 30)}`)"
            elif isinstance(n, ast.Call):
                d = self_d = dotted(n.func) or ""
                if any(isinstance(a, ast.Name) and a.id == pv for a in list(n.args) + [k.value for k in n.keywords]) and d not in ("isinstance", "len", "bool", "id", "repr", "str"):
                    bad = f"passes the node on (`{short(n, 40)}`)"
                elif h.module.resolve(d).endswith("create_warning") or (isinstance(n.func, ast.Attribute) and n.func.attr in ("warning", "error", "severe", "replace", "replace_self", "remove")):
                    bad = f"has an effect outside the model (`{short(n, 40)}`)"
            elif isinstance(n, (ast.Assign, ast.AugAssign)) and any(isinstance(t, ast.Name) and t.id == pv for t in (n.targets if isinstance(n, ast.Assign) else [])):
                bad = "rebinds the node parameter"
            if bad:
                raise Unsupported(f"helper {h.qualname} {bad}: not modelled")
        hc = get_cfg(h)
        fills = not hc.paths_avoiding("ENTRY", "EXIT", lambda n: self.is_add_child(n, pv) or self.is_nonempty_edge(n, pv, h))
        self.helper_fills[id(call)] = fills
        self.helpers.append((call, h, fills))


def _resolver(corpus: Corpus) -> Resolver:
    return corpus.cache("c09-resolver", lambda: Resolver(corpus))


# ---------------------------------------------------------------------------
# R2 writer/reader agreement


@rule(R2)
def r2_attribute_agreement(corpus: Corpus, rep: Report, tier: str):
    rep.rule(R2, "render_link_anchor writes the marker/URI attributes and the line that ResolveAnchorIds reads; the reader strips exactly '#', deletes the URI, covers the whole document, and is registered in both parsers")
    rs = _resolver(corpus)
    fi, cfg = rs.fi, rs.cfg
    rep.saw_function(fi.fq)
    # (a) writer side
    for w in _impls(corpus, f"{BASE}:DocutilsRenderer", "render_link_anchor"):
        rep.saw_function(w.fq)
        ctor = [n for n in w.local_nodes() if isinstance(n, ast.Assign) and isinstance(n.value, ast.Call) and w.module.resolve(dotted(n.value.func) or "") == "docutils.nodes.reference" and isinstance(n.targets[0], ast.Name)]
        if len(ctor) != 1:
            raise Unsupported(f"{w.qualname}: expected one `X = nodes.reference()` construction, found {len(ctor)}")
        nv = ctor[0].targets[0].id
        stores: dict[str, ast.expr] = {}
        for n in w.local_nodes():
            if isinstance(n, ast.Assign):
                for t in n.targets:
                    if isinstance(t, ast.Subscript) and isinstance(t.value, ast.Name) and t.value.id == nv and isinstance(t.slice, ast.Constant):
                        stores[t.slice.value] = n.value
        site = w.site()
        k = f"{w.fq}|marker attribute {rs.gate_key!r}"
        v = stores.get(rs.gate_key)
        if v is None:
            rep.violation(R2, k, site, f"ResolveAnchorIds selects references by the attribute {rs.gate_key!r}, but {w.qualname} stores only {sorted(stores)}: no '#' link is ever resolved")
        elif not (isinstance(v, ast.Constant) and bool(v.value)):
            rep.violation(R2, k, site, f"the marker {rs.gate_key!r} is stored as `{short(v, 30)}`, the reader tests it for truth")
        else:
            rep.ok(R2, k, site)
        k = f"{w.fq}|URI attribute {rs.uri_key!r}"
        v = stores.get(rs.uri_key)
        tparam = w.params[2] if len(w.params) > 2 else None
        if v is None:
            rep.violation(R2, k, site, f"ResolveAnchorIds reads the target from {rs.uri_key!r}, but {w.qualname} stores only {sorted(stores)}")
        elif tparam is None or not _derives(w, v, lambda s: isinstance(s, ast.Name) and s.id == tparam):
            rep.violation(R2, k, site, f"{rs.uri_key!r} is not derived from the `target` argument (`{short(v, 40)}`)")
        elif any(isinstance(s, ast.Subscript) and isinstance(s.slice, ast.Slice) for e in _closure(w, v) for s in ast.walk(e)):
            rep.violation(R2, k, site, f"the writer slices the target (`{short(v, 40)}`) although the reader strips the leading '#' itself")
        else:
            rep.ok(R2, k, site, f"{rs.uri_key} = {short(v, 40)}")
        # the registries are keyed by the verbatim source names; markdown-it percent-encodes hrefs: the stored URI must be percent-decoded
        # *completely* and exactly *once*, by the writer or by every caller. urllib.parse.unquote is complete; markdown-it's
        # normalizeLinkText is a display decoder that keeps '%25' and reserved characters encoded ('(100%)=' is then looked up as '100%25').
        def decoder_kind(fn: FunctionInfo, x: ast.AST) -> str | None:
            if not isinstance(x, ast.Call):
                return None
            d = fn.module.resolve(dotted(x.func) or "")
            last = (dotted(x.func) or "").rsplit(".", 1)[-1]
            if d in ("urllib.parse.unquote", "urllib.parse.unquote_to_bytes") or (last == "unquote" and d.endswith("parse.unquote")):
                return "complete" if not x.keywords and len(x.args) == 1 else "complete"
            if last in ("normalizeLinkText", "unescapeAll"):
                return "partial"
            return None

        def decoders_on_every_path(fn: FunctionInfo, e: ast.AST, at: ast.AST, depth: int = 0) -> list[set[str]]:
            """one set of decoder kinds per alternative the value can come from (conditional expressions, alternative bindings)"""
            if isinstance(e, ast.IfExp):
                return decoders_on_every_path(fn, e.body, at, depth) + decoders_on_every_path(fn, e.orelse, at, depth)
            if isinstance(e, ast.BoolOp):
                return [k for v in e.values for k in decoders_on_every_path(fn, v, at, depth)]
            here = {decoder_kind(fn, x) for x in ast.walk(e)} - {None}
            names = [n.id for n in ast.walk(e) if isinstance(n, ast.Name) and n.id not in fn.params]
            alts: list[set[str]] = [set(here)]
            if depth < 3:
                cfg_ = get_cfg(fn)
                try:
                    goal = cfg_.stmt_of(at)
                except Unsupported:
                    goal = None
                for nm in names:
                    outs: list[set[str]] = []
                    for val, _, st in _bindings(fn, nm):
                        if isinstance(st, (ast.For, ast.comprehension)):
                            continue
                        try:
                            b = cfg_.stmt_of(st)
                        except Unsupported:
                            continue
                        if goal is None or b is goal or goal in cfg_.reachable_from(b):
                            for k_ in decoders_on_every_path(fn, val, st, depth + 1):
                                outs.append(k_)
                    if outs:
                        alts = [a | o for a in alts for o in outs]
            return alts

        def count_complete(fn: FunctionInfo, e: ast.AST, at: ast.AST) -> int:
            """how many complete decoders are nested/chained on the way (2 = decoded twice)"""
            n = 0
            for x in _closure(fn, e):
                n += sum(1 for y in ast.walk(x) if decoder_kind(fn, y) == "complete")
            return n

        if v is not None:
            w_alts = decoders_on_every_path(w, v, v)
            in_writer = all("complete" in a for a in w_alts)
            writer_partial = (not in_writer) and any(a for a in w_alts)
            sites = []
            for g in corpus.all_functions():
                if g.is_lambda:
                    continue
                for c in g.local_nodes():
                    if isinstance(c, ast.Call) and _self_call(c) == w.name:
                        sites.append((g, c))
            if not sites:
                raise Unsupported(f"no call site of {w.qualname} found")
            for g, c in sites:
                a = c.args[1] if len(c.args) > 1 else kwarg(c, tparam or "target")
                kk = f"{g.fq}|{short(c, 60)}: link text is percent-decoded before it is stored"
                c_alts = decoders_on_every_path(g, a, c) if a is not None else [set()]
                by_caller = all("complete" in x for x in c_alts)
                caller_some = any("complete" in x for x in c_alts)
                if in_writer and caller_some:
                    rep.violation(
                        R2,
                        kk,
                        g.module.site(c),
                        f"`{short(c, 60)}` percent-decodes the destination and {w.qualname} decodes it again (`{rs.uri_key} = {short(v, 30)}`): a name that contains a literal "
                        "percent sequence ('(50%41)=' written `[](#50%2541)`) is decoded twice and looked up as '50A'",
                    )
                elif in_writer:
                    rep.ok(R2, kk, g.module.site(c), f"decoded completely in {w.qualname}")
                elif by_caller and not writer_partial:
                    rep.ok(R2, kk, g.module.site(c), "decoded completely by the caller")
                else:
                    kinds = set().union(*w_alts, *c_alts)
                    if "partial" in kinds or (kinds and not in_writer):
                        why = (
                            "only with markdown-it's display decoder normalizeLinkText, which keeps '%25' and reserved characters encoded" if "partial" in kinds and "complete" not in kinds
                            else "completely on some paths only (a conditional expression / alternative binding leaves a branch undecoded or only display-decoded)"
                        )
                        rep.violation(
                            R2,
                            kk,
                            g.module.site(c),
                            f"the destination handed over by `{short(c, 60)}` reaches `{rs.uri_key} = {short(v, 30)}` decoded {why}: target names are stored verbatim, so `(100%)=` + `[text](#100%)` "
                            "(href '#100%25') is looked up as '100%25' and reported as 'target not found'",
                        )
                    else:
                        rep.violation(
                            R2,
                            kk,
                            g.module.site(c),
                            f"`{short(c, 60)}` hands over the href as markdown-it percent-encoded it and {w.qualname} stores it undecoded (`{rs.uri_key} = {short(v, 30)}`): "
                            "a name with non-ASCII letters or spaces (<project:#überschrift>) is looked up as '%C3%BCberschrift', reported missing and given a wrong refid",
                        )
        k = f"{w.fq}|line stamped on the reference"
        stamped = any(isinstance(n, ast.Call) and _self_call(n) == "add_line_and_source_path" and n.args and isinstance(n.args[0], ast.Name) and n.args[0].id == nv for n in w.local_nodes())
        stamped = stamped or any(isinstance(n, ast.Assign) and any(isinstance(t, ast.Attribute) and t.attr == "line" and isinstance(t.value, ast.Name) and t.value.id == nv for t in n.targets) for n in w.local_nodes())
        if stamped:
            rep.ok(R2, k, site)
        else:
            rep.violation(R2, k, site, "the reference node gets no line: the 'target not found' warning (line=refnode.line) cannot be at the link's own line")
        k = f"{w.fq}|reference attached once"
        attaches = []
        for n in w.local_nodes():
            if isinstance(n, ast.Call) and isinstance(n.func, ast.Attribute) and n.func.attr == "append" and unparse(n.func.value) == "self.current_node" and n.args and isinstance(n.args[0], ast.Name) and n.args[0].id == nv:
                attaches.append(n)
            if isinstance(n, ast.Call) and _self_call(n) == "current_node_context" and n.args and isinstance(n.args[0], ast.Name) and n.args[0].id == nv:
                ap = kwarg(n, "append")
                if isinstance(ap, ast.Constant) and ap.value is True:
                    attaches.append(n)
        wcfg = get_cfg(w)
        always = [n for n in attaches if wcfg.postdominates(wcfg.stmt_of(n), "ENTRY")]
        if len(attaches) == 1 and len(always) == 1:
            rep.ok(R2, k, site, "on every path")
        elif not attaches:
            rep.violation(R2, k, site, "the reference node is never attached to the current node: the link is dropped")
        elif always and len(attaches) >= 2:
            extra = [n for n in attaches if n is not always[0]][0]
            rep.violation(R2, k, site, f"the reference node is attached by `{short(always[0], 40)}` on every path and again by `{short(extra, 50)}`: the link is duplicated")
        elif len(attaches) == 1:
            rep.violation(R2, k, site, f"`{short(attaches[0], 50)}` is not executed on every path: some '#' links are dropped")
        else:
            rep.error(R2, f"{w.qualname}: {len(attaches)} conditional attachments of the reference node not understood")
    # (b) reader side
    k = f"{fi.fq}|strip exactly the leading '#'"
    val = rs.target_assign.value
    site = rs.m.site(rs.target_assign)
    reads = [x for x in ast.walk(val) if rs._subscript_key(x) == rs.uri_key]
    verdict, why = None, ""

    def const_args(c: ast.Call) -> list | None:
        if c.keywords or not all(isinstance(a, ast.Constant) for a in c.args):
            return None
        return [a.value for a in c.args]

    for x in reads:
        par = getattr(x, "_parent", None)
        gp = getattr(par, "_parent", None)
        ggp = getattr(gp, "_parent", None)
        if isinstance(par, ast.Subscript) and par.value is x and isinstance(par.slice, ast.Slice):
            sl = par.slice
            ok1 = isinstance(sl.lower, ast.Constant) and sl.lower.value == 1 and sl.upper is None and sl.step is None
            verdict, why = ("ok", "") if ok1 else ("bad", "the slice does not drop exactly one character")
        elif isinstance(par, ast.Attribute) and par.value is x and isinstance(gp, ast.Call) and gp.func is par:
            args = const_args(gp)
            idx = ggp.slice.value if isinstance(ggp, ast.Subscript) and ggp.value is gp and isinstance(ggp.slice, ast.Constant) else None
            if par.attr == "removeprefix" and args == ["#"]:
                verdict = "ok"
            elif par.attr == "split" and args == ["#", 1] and idx == 1:
                verdict = "ok"  # '#a#b'.split('#', 1)[1] == 'a#b'
            elif par.attr == "partition" and args == ["#"] and idx == 2:
                verdict = "ok"  # ('', '#', 'a#b')
            elif par.attr in ("lstrip", "strip"):
                verdict, why = "bad", f".{par.attr}() removes *every* leading '#': a link '##x' to the name '#x' is looked up as 'x'"
            elif par.attr == "replace":
                verdict, why = "bad", ".replace() also removes '#' characters inside the name"
            elif par.attr in ("split", "rsplit", "rpartition", "partition"):
                verdict, why = "bad", f".{par.attr}({', '.join(map(repr, args or []))}){'[' + repr(idx) + ']' if idx is not None else ''} cuts the name at a later '#' as well"
            elif par.attr in ("lower", "casefold", "upper", "title", "swapcase"):
                verdict, why = "bad", "the '#' is not removed"
            else:
                verdict = verdict or None
        else:
            verdict, why = "bad", "the '#' is not removed"
    if verdict == "ok":
        rep.ok(R2, k, site, short(val, 40))
    elif verdict == "bad":
        rep.violation(R2, k, site, f"`{short(rs.target_assign, 60)}`: the writer stores '#name', the registries are keyed by 'name'; the reader must drop exactly one leading character ({why})")
    else:
        rep.error(R2, f"target extraction `{short(rs.target_assign, 60)}` not understood")

    def is_del(n) -> bool:
        if isinstance(n, ast.Delete):
            return any(rs._subscript_key(t) == rs.uri_key for t in n.targets)
        if isinstance(n, ast.Expr) and isinstance(n.value, ast.Call) and isinstance(n.value.func, ast.Attribute) and n.value.func.attr in ("pop", "delattr"):
            c = n.value
            return isinstance(c.func.value, ast.Name) and c.func.value.id == rs.var and bool(c.args) and isinstance(c.args[0], ast.Constant) and c.args[0].value == rs.uri_key
        return False

    for s in rs.refid_stores:
        st = cfg.stmt_of(s)
        k = f"{fi.fq}|{rs.uri_key} deleted when `{short(s, 50)}`"
        before = not cfg.paths_avoiding(rs.start, st, is_del)
        after = not cfg.paths_avoiding(st, rs.loop, is_del)
        if before or after:
            rep.ok(R2, k, rs.m.site(s))
        else:
            rep.violation(R2, k, rs.m.site(s), f"a path stores refid but keeps {rs.uri_key!r}: writers prefer refuri, so the link points at '#<typed text>' instead of the resolved id")
    k = f"{fi.fq}|loop covers every reference of the document"
    it = rs.loop.iter
    whole = False
    if isinstance(it, ast.Call):
        inner = it.func
        if isinstance(inner, ast.Call) and dotted(inner.func) == "findall" and len(inner.args) == 1 and unparse(inner.args[0]) == "self.document" and len(it.args) == 1 and not it.keywords and (rs._is_reference_cls(it.args[0]) or rs._reference_predicate(it.args[0]) is not None):
            whole = True
        if isinstance(inner, ast.Attribute) and inner.attr in ("findall", "traverse") and unparse(inner.value) == "self.document" and len(it.args) == 1 and not it.keywords and (rs._is_reference_cls(it.args[0]) or rs._reference_predicate(it.args[0]) is not None):
            whole = True
    if whole:
        rep.ok(R2, k, rs.m.site(rs.loop), short(it, 60))
    elif "self.document" in unparse(it):
        rep.error(R2, f"reference loop iterator `{short(it, 60)}` not understood")
    else:
        rep.violation(R2, k, rs.m.site(rs.loop), f"`{short(it, 60)}` does not walk the whole document: links outside it are never resolved")
    # the gate rejects without touching the node
    reject = ("F" if rs.start[0] == "T" else "T", rs.gate)
    touched = [] if rs.pred_marker is not None else [o for _, o, _ in rs.outcome_stmts() if cfg.paths_avoiding(reject, o, lambda n: n is rs.loop)]
    k = f"{fi.fq}|references without the marker are left alone"
    if touched:
        rep.violation(R2, k, rs.m.site(rs.gate), f"a reference without {rs.gate_key!r} reaches `{short(touched[0], 50)}`")
    else:
        rep.ok(R2, k, rs.m.site(rs.gate))
    # (c) registration
    cls_name = fi.qualname.split(".")[0]
    for fq in ("parsers.docutils_:Parser.get_transforms", "parsers.sphinx_:MystParser.get_transforms"):
        g = corpus.func(fq)
        rep.saw_function(g.fq)
        k = f"{g.fq}|registers {cls_name}"
        found = any(isinstance(c, ast.Name) and isinstance(c.ctx, ast.Load) and g.module.resolve(c.id).endswith(f"transforms.{cls_name}") for c in g.local_nodes())
        if not any(isinstance(r, ast.Return) and r.value is not None for r in g.local_nodes()):
            raise Unsupported(f"{g.qualname} has no return value")
        if found:
            rep.ok(R2, k, g.site())
        else:
            rep.violation(R2, k, g.site(), f"{g.qualname} does not mention {cls_name}: in this front end no '#' link is resolved (refuri '#name' is kept as typed, no warning for missing targets)")
    rep.expect_min(R2, 10, "writer attributes, reader strip/delete/coverage, two registrations")


# ---------------------------------------------------------------------------
# R3 loop-body paths


def _returns_astext(corpus: Corpus, fi: FunctionInfo, e: ast.AST) -> bool:
    """``e`` is a call of a same-class method / same-module function one of whose returns is a ``*astext(...)`` call."""
    if not isinstance(e, ast.Call):
        return False
    h = None
    if _self_call(e) and fi.cls is not None:
        h = corpus.lookup_method(fi.cls, _self_call(e))
    elif isinstance(e.func, ast.Name):
        h = fi.module.functions.get(e.func.id)
    if h is None or h.is_lambda:
        return False
    return any(isinstance(r, ast.Return) and r.value is not None and any(isinstance(c, ast.Call) and (dotted(c.func) or "").endswith("astext") for c in ast.walk(r.value)) for r in h.local_nodes())


def _registry_writer_positions(corpus: Corpus, rs: Resolver) -> dict[str, dict[str, int]]:
    """{'explicit': {'id': i, 'title': j}, 'slugs': {...}} from the registries' writers."""
    out: dict[str, dict[str, int]] = {}
    # explicit: explicit[name] = (labelid, implicit_title) inside apply
    v = rs.explicit_store.value
    if not isinstance(v, ast.Tuple):
        raise Unsupported(f"explicit registry value `{short(v, 40)}` is not a tuple")
    pos: dict[str, int] = {}
    for i, e in enumerate(v.elts):
        if _direct(rs.fi, e, lambda s: isinstance(s, ast.Attribute) and s.attr == "nameids"):
            pos.setdefault("id", i)
        elif _direct(rs.fi, e, lambda s: isinstance(s, ast.Call) and (dotted(s.func) or "").endswith("astext")) or _direct(rs.fi, e, lambda s: _returns_astext(corpus, rs.fi, s)):
            pos.setdefault("title", i)
    if set(pos) != {"id", "title"}:
        raise Unsupported(f"explicit registry tuple `{short(v, 50)}`: id/title positions not recognised ({pos})")
    out["explicit"] = pos
    # slugs: self._heading_slugs[slug] = (line, id, title) in the renderer, exported as document.myst_slugs
    base = corpus.mod(BASE)
    export = None
    for f in base.functions.values():
        if f.is_lambda:
            continue
        for n in f.local_nodes():
            if isinstance(n, ast.Assign) and any(isinstance(t, ast.Attribute) and t.attr == "myst_slugs" for t in n.targets) and isinstance(n.value, ast.Attribute):
                export = n.value.attr
    if export is None:
        raise AnchorMissing("no `document.myst_slugs = self.<attr>` export in mdit_to_docutils.base")
    writer = None
    for f in base.functions.values():
        if f.is_lambda:
            continue
        for n in f.local_nodes():
            if isinstance(n, ast.Assign) and isinstance(n.targets[0], ast.Subscript) and isinstance(n.targets[0].value, ast.Attribute) and n.targets[0].value.attr == export and isinstance(n.value, ast.Tuple):
                if writer is not None:
                    raise Unsupported("more than one writer of the slug registry")
                writer = (f, n)
    if writer is None:
        raise AnchorMissing(f"no tuple store into self.{export}")
    f, n = writer
    pos = {}
    for i, e in enumerate(n.value.elts):
        if any(isinstance(s, ast.Constant) and s.value == "ids" for s in ast.walk(e)):
            pos.setdefault("id", i)
        elif _direct(f, e, lambda s: isinstance(s, ast.Call) and (dotted(s.func) or "").endswith("astext")):
            pos.setdefault("title", i)
    if "title" not in pos:
        raise Unsupported(f"slug registry tuple `{short(n.value, 50)}`: title position not recognised ({pos})")
    # a missing "id" (no element reads the node's registered `["ids"]`) is judged by R3, not an extraction failure
    out["slugs"] = pos
    out["_sites"] = {"explicit": rs.m.site(rs.explicit_store), "slugs": f.module.site(n)}  # type: ignore[assignment]
    out["_writer"] = {"slugs": (f, n)}  # type: ignore[assignment]
    return out


def _registry_positions_of(rs: Resolver, expr: ast.AST) -> set[tuple[str, int]]:
    """(registry, tuple position) pairs from which ``expr`` is read (one level of unpacking)."""
    out: set[tuple[str, int]] = set()

    def reg_of(e: ast.AST, depth: int = 0) -> str | None:
        if isinstance(e, ast.Name) and depth < 2:
            b = [v for v, i, st in _bindings(rs.fi, e.id) if i is None]
            if len(b) == 1:
                return reg_of(b[0], depth + 1)
            return None
        if isinstance(e, ast.Subscript) and isinstance(e.value, ast.Name):
            if e.value.id == rs.explicit:
                return "explicit"
            if e.value.id == rs.slugs:
                return "slugs"
        if isinstance(e, ast.Call) and isinstance(e.func, ast.Attribute) and e.func.attr == "get" and isinstance(e.func.value, ast.Name):
            if e.func.value.id == rs.explicit:
                return "explicit"
            if e.func.value.id == rs.slugs:
                return "slugs"
        return None

    if isinstance(expr, ast.Subscript) and isinstance(expr.slice, ast.Constant) and isinstance(expr.slice.value, int):
        r = reg_of(expr.value)
        if r:
            out.add((r, expr.slice.value))
    if isinstance(expr, ast.Name):
        for val, idx, _ in _bindings(rs.fi, expr.id):
            r = reg_of(val)
            if r and idx is not None:
                out.add((r, idx))
            elif isinstance(val, ast.Subscript) and isinstance(val.slice, ast.Constant) and isinstance(val.slice.value, int):
                r2 = reg_of(val.value)
                if r2:
                    out.add((r2, val.slice.value))
    return out


@rule(R3)
def r3_loop_paths(corpus: Corpus, rep: Report, tier: str):
    rep.rule(R3, "every path through the resolver loop ends in exactly one of: explicit hit, slug hit, pending_xref carrying the children, one XREF_MISSING warning at refnode.line + fallback; explicit before slugs; empty links get text")
    rs = _resolver(corpus)
    fi, cfg, m = rs.fi, rs.cfg, rs.m
    fq = fi.fq
    outcomes = rs.outcome_stmts()
    ostmts = {id(st) for _, st, _ in outcomes}

    def is_outcome(n) -> bool:
        return id(n) in ostmts

    # (a) no path without an outcome
    k = f"{fq}|every marked reference reaches an outcome"
    if cfg.paths_avoiding(rs.start, rs.loop, is_outcome):
        rep.violation(R3, k, m.site(rs.gate), "a path from the id_link test back to the loop head neither stores refid nor replaces the node: the link keeps no target (refuri was deleted) and no warning is issued")
    else:
        rep.ok(R3, k, m.site(rs.gate), f"{len(outcomes)} outcome statement(s)")
    # (a') no fall-through from one outcome into another
    fell = False
    for kind, st, node in outcomes:
        others = [o for _, o, _ in outcomes if o is not st and cfg.paths_avoiding(st, o, lambda n: n is rs.loop)]
        k = f"{fq}|after `{short(node, 50)}` the iteration ends"
        if others:
            fell = True
            rep.violation(R3, k, m.site(node), f"after `{short(node, 50)}` control can fall through to `{short(others[0], 50)}`: a resolved link is resolved again (refid overwritten / spurious 'target not found' warning)")
        else:
            rep.ok(R3, k, m.site(node))
    # (b) classification of the outcomes
    pos = _registry_writer_positions(corpus, rs)
    classes: dict[int, str] = {}
    for kind, st, node in outcomes:
        lf = rs.lookup_facts(st)
        site = m.site(node)
        if kind == "refid":
            val = node.value
            if True in lf["explicit"]:
                cls = "explicit"
            elif True in lf["slugs"]:
                cls = "slugs"
            elif False in lf["explicit"] and False in lf["slugs"]:
                cls = "miss"
            else:
                if not fell:
                    rep.error(R3, f"refid store `{short(node, 50)}` at {site} is not classifiable by registry membership tests (unknown idiom)")
                continue
            classes[id(st)] = cls
            if cls in ("explicit", "slugs"):
                k = f"{fq}|{cls} hit: refid comes from the registry's id position"
                got = _registry_positions_of(rs, val)
                if "id" not in pos[cls]:
                    wf, wst = pos["_writer"][cls]  # type: ignore[index]
                    elts = wst.value.elts
                    ps = sorted(p for r, p in got if r == cls)
                    stored = elts[ps[0]] if ps and ps[0] < len(elts) else None
                    if stored is None:
                        rep.error(R3, f"refid value `{short(val, 40)}` at {site}: origin not understood")
                    else:
                        recomputed = _derives(wf, stored, lambda x: isinstance(x, ast.Call) and (dotted(x.func) or "").rsplit(".", 1)[-1] in LOSSY_NAME_FUNCS)
                        rep.violation(
                            R3,
                            k,
                            pos["_sites"][cls],  # type: ignore[index]
                            f"`{short(node, 50)}` takes the refid from position {ps[0]} of the {cls} registry, where the writer stores `{short(stored, 40)}`"
                            + (" - an id re-computed from the title" if recomputed else "")
                            + " instead of the id docutils assigned to the node (`node['ids'][0]`): with repeated titles docutils assigns id1, id2, ... so `#usage-1` is pointed at the first 'Usage' section",
                        )
                    continue
                want = (cls, pos[cls]["id"])
                if got == {want}:
                    rep.ok(R3, k, site, f"{short(node, 50)} <- {cls}[target][{want[1]}]; writer at {pos['_sites'][cls]}")  # type: ignore[index]
                elif not got:
                    rep.error(R3, f"refid value `{short(val, 40)}` at {site}: origin not understood")
                else:
                    rep.violation(R3, k, site, f"`{short(node, 50)}` reads {sorted(got)} but the {cls} registry's writer ({pos['_sites'][cls]}) puts the node id at position {want[1]}: the link points at a different target")  # type: ignore[index]
                if cls == "slugs":
                    k = f"{fq}|explicit lookup dominates the slug lookup"
                    if False in lf["explicit"]:
                        rep.ok(R3, k, site)
                    else:
                        rep.violation(R3, k, site, "the slug registry is consulted on a path that has not failed the explicit lookup: a heading slug wins over an explicit target of the same name")
            else:
                k = f"{fq}|miss: fallback refid derives from the target"
                if _derives(fi, val, lambda s: isinstance(s, ast.Name) and s.id == rs.target):
                    rep.ok(R3, k, site, short(node, 60))
                else:
                    rep.violation(R3, k, site, f"`{short(node, 50)}` does not derive from the link target")
        else:
            classes[id(st)] = "sphinx"
            k = f"{fq}|pending_xref only after both local lookups failed"
            if False in lf["explicit"] and False in lf["slugs"]:
                rep.ok(R3, k, site)
            elif not fell:
                rep.violation(R3, k, site, "the reference is handed to the project-wide resolver on a path that has not failed both local lookups: the project-wide resolver does not know heading slugs, and explicit targets lose priority")
    # (b') any other tuple store into the slug registry inside the transform (e.g. the refresh of the titles) keeps the writer's layout
    for n in fi.local_nodes():
        if isinstance(n, ast.Assign) and isinstance(n.targets[0], ast.Subscript) and isinstance(n.targets[0].value, ast.Name) and n.targets[0].value.id == rs.slugs and isinstance(n.value, ast.Tuple):
            k = f"{fq}|`{short(n.targets[0], 30)} = ...` keeps the slug registry's layout"
            elts = n.value.elts
            wid, wtitle = pos["slugs"].get("id"), pos["slugs"]["title"]
            problems = []
            if wid is not None:
                if wid >= len(elts) or _registry_positions_of(rs, elts[wid]) != {("slugs", wid)}:
                    problems.append(f"position {wid} (the node id) is not copied from the old entry")
            if wtitle >= len(elts) or not _direct(fi, elts[wtitle], lambda x: isinstance(x, ast.Call) and (dotted(x.func) or "").endswith("astext")):
                problems.append(f"position {wtitle} (the title text) is not a title text")
            if problems:
                rep.violation(R3, k, m.site(n), f"`{short(n, 70)}`: {'; '.join(problems)} - the writer ({pos['_sites']['slugs']}) and both readers use (line, id, title): links are pointed at a wrong id / get a wrong text")  # type: ignore[index]
            else:
                rep.ok(R3, k, m.site(n))
    # (c) warnings: count per outcome, place and subtype
    for kind, st, node in outcomes:
        cls = classes.get(id(st))
        if cls is None:
            continue
        c1 = cfg.counts(rs.start, [st, rs.loop], rs.warn_weight).get(st, set())  # the loop head is a stop: one iteration only
        c2 = cfg.counts(st, [rs.loop], rs.warn_weight).get(rs.loop, set())
        own = rs.warn_weight(st)
        total = {min(2, a + b - own) for a in c1 for b in c2}
        want = {1} if cls == "miss" else {0}
        k = f"{fq}|{cls}: number of 'target not found' warnings"
        if not total:
            rep.error(R3, f"no path found through `{short(node, 40)}`")
        elif total == want:
            rep.ok(R3, k, m.site(node), f"exactly {min(want)} on every path")
        elif cls == "miss":
            rep.violation(R3, k, m.site(node), f"paths through the docutils miss outcome issue {sorted(total)} warning(s) (2 = two or more); exactly one is required")
        else:
            rep.violation(R3, k, m.site(node), f"the {cls} outcome is accompanied by {sorted(total)} warning(s): a link that resolves must not warn")
    for w in rs.warnings:
        site = m.site(w)
        k = f"{fq}|warning at the link's own line"
        line = kwarg(w, "line")
        nd = kwarg(w, "node")
        if isinstance(nd, ast.Name) and nd.id == rs.var:
            rep.ok(R3, k, site, f"node={rs.var} (source and line of the link)")
        elif isinstance(line, ast.Attribute) and line.attr == "line" and isinstance(line.value, ast.Name) and line.value.id == rs.var:
            rep.violation(
                R3,
                k,
                site,
                f"the warning is located by `line={short(line, 30)}` alone: the reporter combines the number with the path of the top-level document, so a missing '#' link inside an "
                f"included file is reported as '<including file>:<line of the included file>' - pass `node={rs.var}` (its source and line)",
            )
        else:
            rep.violation(R3, k, site, f"the warning is located by `{short(line, 30) if line is not None else short(nd, 30) if nd is not None else 'nothing'}`, not by the link ({rs.var})")
        k = f"{fq}|warning subtype is XREF_MISSING"
        sub = w.args[2] if len(w.args) > 2 else kwarg(w, "subtype")
        if sub is not None and (dotted(sub) or "").endswith("MystWarnings.XREF_MISSING"):
            rep.ok(R3, k, site)
        else:
            rep.violation(R3, k, site, f"subtype `{short(sub, 30) if sub is not None else '-'}` is not MystWarnings.XREF_MISSING")
        k = f"{fq}|warning is reported on self.document"
        if w.args and unparse(w.args[0]) == "self.document":
            rep.ok(R3, k, site)
        else:
            rep.error(R3, f"create_warning document argument `{short(w.args[0], 30) if w.args else '-'}` not understood")
    # (d) Sphinx hand-over carries target, explicitness and children
    for call, newnode in rs.replaces:
        site = m.site(call)
        if not isinstance(newnode, ast.Name):
            rep.error(R3, f"replacement node `{short(newnode, 40)}` is not a local")
            continue
        b = [v for v, i, _ in _bindings(fi, newnode.id) if i is None and isinstance(v, ast.Call)]
        if len(b) != 1 or not m.resolve(dotted(b[0].func) or "").endswith("addnodes.pending_xref"):
            rep.error(R3, f"replacement node {newnode.id} is not a single pending_xref construction")
            continue
        ctor = b[0]
        checks = [
            ("reftarget is the link target", (lambda e: e is not None and _derives(fi, e, lambda s: isinstance(s, ast.Name) and s.id == rs.target) and not any(isinstance(s, ast.Call) for s in ast.walk(e)))(kwarg(ctor, "reftarget")), "the pending_xref does not carry the link target"),
            ("reftype is 'myst'", (lambda e: isinstance(e, ast.Constant) and e.value == "myst")(kwarg(ctor, "reftype")), "the MyST resolver only picks up reftype='myst'"),
            ("refexplicit reflects the link text", (lambda e: e is not None and any(rs._is_children(s) for s in ast.walk(e)) and not any(isinstance(s, ast.UnaryOp) and isinstance(s.op, ast.Not) for s in ast.walk(e)))(kwarg(ctor, "refexplicit")), "refexplicit must be true exactly when the link has text: otherwise an empty link is not filled in / explicit text is replaced"),
            ("refdoc is given", kwarg(ctor, "refdoc") is not None, "the resolver needs the source document"),
        ]
        located = {"line": False, "source": False}
        for n in rs.body:
            if isinstance(n, ast.Assign):
                pairs = []
                for t in n.targets:
                    if isinstance(t, ast.Tuple) and isinstance(n.value, ast.Tuple) and len(t.elts) == len(n.value.elts):
                        pairs += list(zip(t.elts, n.value.elts))
                    else:
                        pairs.append((t, n.value))
                for t, v in pairs:
                    if isinstance(t, ast.Attribute) and isinstance(t.value, ast.Name) and t.value.id == newnode.id and t.attr in located:
                        if isinstance(v, ast.Attribute) and v.attr == t.attr and isinstance(v.value, ast.Name) and v.value.id == rs.var and cfg.dominates(cfg.stmt_of(n), cfg.stmt_of(call)):
                            located[t.attr] = True
            elif isinstance(n, ast.Call) and isinstance(n.func, ast.Attribute) and n.func.attr in ("set_source_info", "copy_source") :
                pass
        for a in ("line", "source"):
            kw = kwarg(ctor, a)
            if isinstance(kw, ast.Attribute) and kw.attr == a and isinstance(kw.value, ast.Name) and kw.value.id == rs.var:
                located[a] = True
        checks.append((
            "carries the link's source and line",
            located["line"] and located["source"],
            f"the pending_xref gets no {'line' if not located['line'] else 'source'} from {rs.var}: Sphinx locates the later 'target not found' warning through the node's ancestors, "
            "so a link inside a table cell (whose cell nodes have no line) is reported as 'index.md:: WARNING' without a line number",
        ))
        for label, okv, why in checks:
            k = f"{fq}|pending_xref: {label}"
            if okv:
                rep.ok(R3, k, m.site(ctor))
            else:
                rep.violation(R3, k, m.site(ctor), why)
        # children: refnode.children -> N -> pending, all before the replace
        st_rep = cfg.stmt_of(call)
        carriers = {newnode.id}
        moved = False
        changed = True
        adds = []
        for n in rs.body:
            if isinstance(n, ast.AugAssign) and isinstance(n.op, ast.Add) and isinstance(n.target, ast.Name):
                adds.append((n.target.id, n.value, n))
            elif isinstance(n, ast.Expr) and isinstance(n.value, ast.Call) and isinstance(n.value.func, ast.Attribute) and n.value.func.attr in ("append", "extend") and isinstance(n.value.func.value, ast.Name) and n.value.args:
                adds.append((n.value.func.value.id, n.value.args[0], n))
        while changed:
            changed = False
            for tgt, val, n in adds:
                if tgt in carriers and cfg.dominates(cfg.stmt_of(n), st_rep):
                    if isinstance(val, ast.Name) and val.id not in carriers:
                        carriers.add(val.id)
                        changed = True
                    if any(rs._is_children(s) for s in ast.walk(val)):
                        moved = True
        k = f"{fq}|pending_xref carries the link's children"
        if moved:
            rep.ok(R3, k, site, f"via {sorted(carriers)}")
        else:
            rep.violation(R3, k, site, f"{rs.var}.children are not moved into the pending_xref before `{short(call, 50)}`: explicit link text is lost in Sphinx")
    # (e) empty link text is filled after a hit (and on the miss path)
    for kind, st, node in outcomes:
        cls = classes.get(id(st))
        if cls not in ("explicit", "slugs", "miss"):
            continue
        k = f"{fq}|{cls}: an empty link receives a text child on every path"
        bad = cfg.paths_avoiding(st, rs.loop, lambda n: rs.is_add_child(n) or rs.is_nonempty_edge(n))
        if not bad:
            rep.ok(R3, k, m.site(node))
            continue
        # a test on the node that the emptiness model does not understand -> fail closed, not a violation
        region = set()
        work = [st]
        while work:
            x = work.pop()
            if x in region or x is rs.loop:
                continue
            region.add(x)
            work.extend(cfg.succ.get(x, []))
        odd = [
            n
            for n in rs.body
            if isinstance(n, ast.If) and n in region and _mentions_name(n.test, rs.var) and not (rs.children_facts(n.test, True) + rs.children_facts(n.test, False))
            and not rs.lookup_facts_of_test(n.test)
        ]
        if odd:
            rep.error(R3, f"test `{short(odd[0].test, 50)}` on the reference node after `{short(node, 40)}` not understood")
        else:
            what = {
                "explicit": "explicit target without a title",
                "slugs": "heading whose title text is empty (e.g. `# <br>`, or an image-only title)",
                "miss": "missing target",
            }[cls]
            rep.violation(
                R3,
                k,
                m.site(node),
                f"after `{short(node, 50)}` a path reaches the loop head with {rs.var}.children possibly empty and no text added ({what}): the reference is rendered with no content, i.e. the link silently disappears",
            )
    # the '#target' fallback of the miss outcome must be decided on the link's own children: create_warning(append_to=refnode)
    # appends the system_message to the reference, after which `not refnode.children` is false
    for w in rs.warnings:
        ap = kwarg(w, "append_to")
        if not (isinstance(ap, ast.Name) and ap.id == rs.var):
            continue
        stw = cfg.stmt_of(w)
        tests = [n for n in rs.body if isinstance(n, ast.If) and rs.children_facts(n.test, True) + rs.children_facts(n.test, False)]
        after = [n for n in tests if cfg.dominates(stw, n)]
        k = f"{fq}|miss: the '#target' fallback is decided before the warning is appended to the reference"
        if after:
            rep.violation(
                R3,
                k,
                m.site(after[0]),
                f"`{short(after[0].test, 40)}` is evaluated after create_warning(..., append_to={rs.var}) has appended the system_message to the reference, so it is never true when the warning is emitted: "
                f"an empty link to a missing target (`[](#nope)`) is rendered with no text at all, and gets its '#nope' text only when myst.xref_missing is suppressed",
            )
        else:
            rep.ok(R3, k, m.site(w))
    rep.expect_min(R3, 14, "outcomes (3 refid stores + 1 replace), their classification, warning counts, pending_xref fields, text fill")


# ---------------------------------------------------------------------------
# R4 registry key normalisation


def _name_writers(corpus: Corpus) -> list[tuple[FunctionInfo, ast.AST, ast.expr]]:
    """Every place that puts a new name N on a node: ``X["names"].append(N)`` / ``.extend([N])`` and
    ``X["names"] = [N, ...]`` (a re-bound list literal; ``X["names"] = saved + X["names"]`` only restores).
    The middle element is the writing construct (Call or Assign); its subject X is ``_writer_subject(...)``."""
    out = []
    for f in corpus.all_functions():
        if f.is_lambda:
            continue
        for n in f.local_nodes():
            if isinstance(n, ast.Call) and isinstance(n.func, ast.Attribute) and n.func.attr in ("append", "extend", "insert") and isinstance(n.func.value, ast.Subscript):
                s = n.func.value
                if isinstance(s.slice, ast.Constant) and s.slice.value == "names" and n.args:
                    arg = n.args[-1]
                    if n.func.attr == "extend" and isinstance(arg, (ast.List, ast.Tuple)):
                        out.extend((f, n, e) for e in arg.elts)
                    else:
                        out.append((f, n, arg))
            elif isinstance(n, (ast.Assign, ast.AugAssign)):
                targets = n.targets if isinstance(n, ast.Assign) else [n.target]
                if any(isinstance(t, ast.Subscript) and isinstance(t.slice, ast.Constant) and t.slice.value == "names" for t in targets):
                    # list literals in `[N]`, `old + [N]`, `+= [N]` carry the new names; other operands only keep/restore
                    lits: list[ast.expr] = []
                    work = [n.value]
                    while work:
                        v = work.pop()
                        if isinstance(v, (ast.List, ast.Tuple)):
                            lits.extend(v.elts)
                        elif isinstance(v, ast.BinOp) and isinstance(v.op, ast.Add):
                            work += [v.left, v.right]
                    out.extend((f, n, e) for e in lits if not isinstance(e, ast.Starred))
    return out


def _writer_subject(w: ast.AST) -> ast.AST | None:
    if isinstance(w, ast.Call):
        return w.func.value.value  # X in X["names"].append(...)
    if isinstance(w, (ast.Assign, ast.AugAssign)):
        for t in w.targets if isinstance(w, ast.Assign) else [w.target]:
            if isinstance(t, ast.Subscript) and isinstance(t.slice, ast.Constant) and t.slice.value == "names":
                return t.value
    return None


def _is_normaliser(f: FunctionInfo):
    def pred(s: ast.AST) -> bool:
        return isinstance(s, ast.Call) and f.module.resolve(dotted(s.func) or "").endswith("nodes.fully_normalize_name")

    return pred


_PURE_CALLS = ("str", "cast", "typing.cast", "t.cast")

# functions that map many names to one id/slug (read from their sources: docutils.nodes.make_id drops every character outside [a-z0-9-],
# collapses runs and may return ''; the slugifiers drop punctuation) - not usable as a registry key for *names*
LOSSY_NAME_FUNCS = {
    "make_id": "docutils' make_id is lossy (drops everything outside [a-z0-9], merges separators, '' for non-latin text)",
    "default_slugify": "the slug function drops punctuation and merges separators",
    "slugify": "a slug function drops punctuation and merges separators",
}


def _closure_reaching(fi: FunctionInfo, expr: ast.AST, at: ast.AST) -> list[ast.AST]:
    """``_closure_nofor`` restricted to bindings whose statement can reach the statement of ``at``."""
    cfg = get_cfg(fi)
    goal = cfg.stmt_of(at)
    out = [expr]
    seen: set[str] = set()
    work = [n.id for n in ast.walk(expr) if isinstance(n, ast.Name)]
    while work:
        nm = work.pop()
        if nm in seen:
            continue
        seen.add(nm)
        for val, _, st in _bindings(fi, nm):
            if isinstance(st, (ast.For, ast.comprehension)):
                continue
            try:
                b = cfg.stmt_of(st)
            except Unsupported:
                continue
            if b is goal or goal in cfg.reachable_from(b):
                out.append(val)
                work.extend(n.id for n in ast.walk(val) if isinstance(n, ast.Name))
    return out


def _closure_nofor(fi: FunctionInfo, expr: ast.AST) -> list[ast.AST]:
    """``_closure`` without expanding loop variables (their 'value' is the iterated table, not a transformation)."""
    out = [expr]
    seen: set[str] = set()
    work = [n.id for n in ast.walk(expr) if isinstance(n, ast.Name)]
    while work:
        nm = work.pop()
        if nm in seen:
            continue
        seen.add(nm)
        for val, _, st in _bindings(fi, nm):
            if isinstance(st, (ast.For, ast.comprehension)):
                continue
            out.append(val)
            work.extend(n.id for n in ast.walk(val) if isinstance(n, ast.Name))
    return out


def _key_kind(f: FunctionInfo, e: ast.expr) -> str:
    """'norm' (passed through the docutils normaliser / a case fold), 'raw' (no transforming call), 'unknown'."""
    isn = _is_normaliser(f)
    # levels of the derivation: the expression, the values bound to its names, ... (loop variables are not expanded)
    levels: list[list[ast.AST]] = [[e]]
    seen: set[str] = set()
    for _ in range(3):
        nxt: list[ast.AST] = []
        for x in levels[-1]:
            for nm in [n.id for n in ast.walk(x) if isinstance(n, ast.Name)]:
                if nm in seen:
                    continue
                seen.add(nm)
                nxt.extend(v for v, _, st in _bindings(f, nm) if not isinstance(st, (ast.For, ast.comprehension)))
        levels.append(nxt)
    all_calls = [s for lv in levels for x in lv for s in ast.walk(x) if isinstance(s, ast.Call)]
    if any(isn(c) for c in all_calls) or any(isinstance(c.func, ast.Attribute) and c.func.attr in ("lower", "casefold") for c in all_calls):
        return "norm"
    calls = [s for lv in levels[:2] for x in lv for s in ast.walk(x) if isinstance(s, ast.Call)]
    for c in calls:
        d = dotted(c.func) or ""
        if d in _PURE_CALLS or (isinstance(c.func, ast.Attribute) and c.func.attr in ("pop", "get", "attrGet", "items", "strip", "lstrip", "rstrip", "removeprefix", "removesuffix", "split", "rsplit", "partition", "rpartition")):
            continue
        return "unknown"
    return "raw"


def _registration(f: FunctionInfo, call: ast.AST) -> tuple[str | None, ast.Call | None]:
    """'explicit' / 'implicit' if the node whose names are appended is registered afterwards in ``f``."""
    cfg = get_cfg(f)
    st = cfg.stmt_of(call)
    for n in f.local_nodes():
        if isinstance(n, ast.Call) and isinstance(n.func, ast.Attribute) and n.func.attr in ("note_explicit_target", "note_implicit_target"):
            try:
                st2 = cfg.stmt_of(n)
            except Unsupported:
                continue
            if cfg.postdominates(st2, st) or cfg.dominates(st, st2):
                return ("explicit" if n.func.attr == "note_explicit_target" else "implicit"), n
    return None, None


@rule(R4)
def r4_key_normalisation(corpus: Corpus, rep: Report, tier: str):
    rep.rule(R4, "the explicit-name registry is keyed by fully_normalize_name(name) on every writer, so the resolver must probe it with a normalised key")
    rs = _resolver(corpus)
    fi, m = rs.fi, rs.m
    writers = []
    # nodes the reader drops from the registry (so their key kind is irrelevant): re-verified from the reader's guards
    store_guards = rs.cfg.guards(rs.cfg.stmt_of(rs.explicit_store))
    excluded_tags = {
        c.value
        for e, p in store_guards
        if not p and isinstance(e, ast.Compare) and len(e.ops) == 1 and isinstance(e.ops[0], ast.Eq) and any(isinstance(x, ast.Attribute) and x.attr == "tagname" for x in ast.walk(e))
        for c in ast.walk(e)
        if isinstance(c, ast.Constant) and isinstance(c.value, str)
    }
    for f, call, arg in _name_writers(corpus):
        kind, _ = _registration(f, call)
        if kind != "explicit":
            continue
        subj = _writer_subject(call)
        tag = None
        if isinstance(subj, ast.Name):
            for val, idx, _ in _bindings(f, subj.id):
                if idx is None and isinstance(val, ast.Call):
                    d = f.module.resolve(dotted(val.func) or "")
                    if d.startswith("docutils.nodes."):
                        tag = d.rsplit(".", 1)[1]
        if tag is not None and tag in excluded_tags:
            rep.listed(R4, f"{f.fq}|explicit name `{short(arg, 30)}` key kind", f.module.site(call), f"nodes.{tag}: the reader skips nodes with tagname == {tag!r}, key kind irrelevant")
            continue
        kk = _key_kind(f, arg)
        if kk == "unknown":
            rep.error(R4, f"{f.module.site(call)}: the name `{short(arg, 30)}` passes through a call that is neither the docutils normaliser nor known to be pure")
            continue
        writers.append((f, call, arg, kk == "norm"))
    n_norm = sum(1 for w in writers if w[3])
    if not writers:
        raise AnchorMissing("no explicit-name writer (X['names'].append + note_explicit_target) found in the package")
    majority_norm = n_norm * 2 >= len(writers)
    for f, call, arg, norm in writers:
        rep.saw_function(f.fq)
        k = f"{f.fq}|explicit name `{short(arg, 30)}` key kind"
        if norm == majority_norm:
            rep.ok(R4, k, f.module.site(call), "normalised with nodes.fully_normalize_name" if norm else "raw")
        else:
            rep.violation(
                R4,
                k,
                f.module.site(call),
                f"`{short(call, 60)}` registers the name {'raw' if not norm else 'normalised'} while {n_norm if majority_norm else len(writers) - n_norm} other writer(s) register it "
                f"{'normalised (lower-cased, whitespace-collapsed)' if majority_norm else 'raw'}: no single lookup key in ResolveAnchorIds can agree with all writers",
            )
    # the registry's own key: the name as docutils registered it (unique per document); a lossy function of it merges distinct targets
    skey = rs.explicit_store.targets[0].slice
    k = f"{fi.fq}|explicit registry is keyed by the registered name itself"
    lossy = [c for x in _closure_reaching(fi, skey, rs.explicit_store) for c in ast.walk(x) if isinstance(c, ast.Call) and (dotted(c.func) or "").rsplit(".", 1)[-1] in LOSSY_NAME_FUNCS]
    other = [
        c
        for x in _closure_reaching(fi, skey, rs.explicit_store)
        for c in ast.walk(x)
        if isinstance(c, ast.Call) and c not in lossy and not _is_normaliser(fi)(c) and (dotted(c.func) or "") not in _PURE_CALLS
        and not (isinstance(c.func, ast.Attribute) and c.func.attr in ("lower", "casefold", "strip", "items", "keys"))
    ]
    if lossy:
        fn = (dotted(lossy[0].func) or "").rsplit(".", 1)[-1]
        rep.violation(
            R4,
            k,
            m.site(rs.explicit_store),
            f"`{short(rs.explicit_store, 60)}` keys the registry by {fn}(name): {LOSSY_NAME_FUNCS[fn]}, so distinct explicit targets ('a b', 'a_b', 'a-b'; every purely non-latin name) "
            "collapse onto one key, the later one overwrites the earlier one and `#a_b` is pointed at the target `(a b)=`",
        )
        rep.expect_min(R4, 4, "explicit-name writers + the reader")
        return
    if other:
        rep.error(R4, f"{m.site(rs.explicit_store)}: registry key `{short(skey, 40)}` passes through `{short(other[0], 40)}`, which is neither the docutils normaliser nor a known lossy function")
    else:
        rep.ok(R4, k, m.site(rs.explicit_store), short(skey, 40))
    # the reader: some membership probe of the explicit registry must use a key of the writers' kind
    probes = []
    for n in rs.body:
        if isinstance(n, ast.Compare) and len(n.ops) == 1 and isinstance(n.ops[0], (ast.In, ast.NotIn)) and isinstance(n.comparators[0], ast.Name) and n.comparators[0].id == rs.explicit:
            probes.append((n, n.left))
        elif isinstance(n, ast.Call) and isinstance(n.func, ast.Attribute) and n.func.attr == "get" and isinstance(n.func.value, ast.Name) and n.func.value.id == rs.explicit and n.args:
            probes.append((n, n.args[0]))
    if not probes:
        raise Unsupported("no membership probe of the explicit registry in the reference loop")

    kinds = [_key_kind(fi, e) for _, e in probes]
    if "unknown" in kinds and "norm" not in kinds:
        raise Unsupported(f"lookup key of `{short(probes[0][0], 40)}` passes through a call that is not understood")

    def probe_norm(e: ast.expr) -> bool:
        return _key_kind(fi, e) == "norm"

    k = f"{fi.fq}|explicit registry probed with the writers' key kind"
    site = m.site(probes[0][0])
    if majority_norm and not any(probe_norm(e) for _, e in probes):
        ex = writers[0]
        rep.violation(
            R4,
            k,
            site,
            f"`{short(probes[0][0], 40)}` probes the registry with the raw link text, but all {n_norm} writer(s) (e.g. {ex[0].qualname}) key it by "
            "nodes.fully_normalize_name(name): `(Name)=` + `[](#Name)` is reported as 'target not found' in docutils (Sphinx's resolver lower-cases and finds it)",
        )
    elif not majority_norm and all(probe_norm(e) for _, e in probes):
        rep.violation(R4, k, site, "the registry is keyed by raw names but only probed with normalised keys")
    else:
        rep.ok(R4, k, site)
    # the slug registry is keyed by the slug function's output as is (user-replaceable heading_slug_func, case-sensitive):
    # it must be probed with the exact link text unless its writer normalises too
    sprobes = []
    for n in rs.body:
        if isinstance(n, ast.Compare) and len(n.ops) == 1 and isinstance(n.ops[0], (ast.In, ast.NotIn)) and isinstance(n.comparators[0], ast.Name) and n.comparators[0].id == rs.slugs:
            sprobes.append((n, n.left))
        elif isinstance(n, ast.Call) and isinstance(n.func, ast.Attribute) and n.func.attr == "get" and isinstance(n.func.value, ast.Name) and n.func.value.id == rs.slugs and n.args:
            sprobes.append((n, n.args[0]))
        elif isinstance(n, ast.Subscript) and isinstance(n.value, ast.Name) and n.value.id == rs.slugs and isinstance(n.ctx, ast.Load):
            sprobes.append((n, n.slice))
    if not sprobes:
        raise Unsupported("no probe of the slug registry in the reference loop")
    wpos = _registry_writer_positions(corpus, rs)
    sw_f, sw_store = wpos["_writer"]["slugs"]  # type: ignore[index]
    writer_norm = _key_kind(sw_f, sw_store.targets[0].slice) == "norm"
    for n, e in sprobes:
        kk = f"{fi.fq}|slug registry probe `{short(n, 40)}` uses the exact link text"
        kind = _key_kind(fi, e)
        if kind == "unknown":
            rep.error(R4, f"{m.site(n)}: lookup key of `{short(n, 40)}` passes through a call that is not understood")
        elif (kind == "norm") == writer_norm:
            rep.ok(R4, kk, m.site(n), "exact link text" if kind == "raw" else "normalised like the writer")
        else:
            rep.violation(
                R4,
                kk,
                m.site(n),
                f"`{short(n, 40)}` looks the slug up under a lower-cased / whitespace-collapsed key, but document.myst_slugs is keyed by the slug exactly as the slug function "
                f"returned it ({sw_f.module.site(sw_store)}): a case variant `#Setup-Guide` of the slug 'setup-guide' resolves silently instead of warning, and with a "
                "case-preserving heading_slug_func the exact slug is reported missing",
            )
    rep.expect_min(R4, 4, "explicit-name writers (MyST target, attribute id, math label, directive name option) + the reader")


# ---------------------------------------------------------------------------
# R5 explicit registry = explicit names only

EXPLICIT_WRITERS = {
    f"myst_parser.{BASE}:DocutilsRenderer.render_myst_target": "'(name)=' block target",
    f"myst_parser.{BASE}:DocutilsRenderer.copy_attributes": "attribute id ({#id})",
    "myst_parser.mocking:MockIncludeDirective.add_name": "directive :name: option (include mock; other directives use docutils' own Directive.add_name)",
}


def _name_table_guard(f: FunctionInfo, write: ast.AST, reg: ast.Call | None) -> str | None:
    """Text of a branch condition on document.nameids / document.ids (but not nametypes) under which the explicit
    registration happens, i.e. a guard that cannot tell explicit from implicit names; None if there is none."""
    cfg = get_cfg(f)
    stmts = [cfg.stmt_of(write)] + ([cfg.stmt_of(reg)] if reg is not None else [])
    for st in stmts:
        guards = cfg.guards(st)
        if any(isinstance(x, ast.Attribute) and x.attr == "nametypes" for e, _ in guards for c in _closure(f, e) for x in ast.walk(c)):
            continue
        for e, p in guards:
            for c in _closure(f, e):
                if any(isinstance(x, ast.Attribute) and x.attr in ("nameids", "ids") and isinstance(x.value, ast.Attribute) and x.value.attr == "document" for x in ast.walk(c)):
                    return ("" if p else "not ") + short(e, 60)
    return None


@rule(R5)
def r5_explicit_only(corpus: Corpus, rep: Report, tier: str):
    rep.rule(R5, "the explicit registry holds exactly the explicit names: reader filters on the nametypes flag; target/attribute-id/name-option writers register explicit, the heading title registers implicit")
    rs = _resolver(corpus)
    fi, m, cfg = rs.fi, rs.m, rs.cfg
    # reader: the store into the registry happens only for names whose nametypes value (the explicit flag) is true
    k = f"{fi.fq}|only names flagged explicit enter the registry"
    lp = rs.explicit_loop
    store_st = cfg.stmt_of(rs.explicit_store)
    src = _iter_source(fi, lp.iter)

    def items_flag(target: ast.expr, it: ast.expr) -> str | None:
        """name bound to the flag by ``for <name>, <flag> in <...>.nametypes.items()``"""
        if isinstance(target, (ast.Tuple, ast.List)) and len(target.elts) == 2 and isinstance(target.elts[1], ast.Name):
            if isinstance(it, ast.Call) and isinstance(it.func, ast.Attribute) and it.func.attr == "items" and isinstance(it.func.value, ast.Attribute) and it.func.value.attr == "nametypes":
                return target.elts[1].id
        return None

    def is_flag(e: ast.AST, names: set[str]) -> bool:
        if isinstance(e, ast.Name) and e.id in names:
            return True
        if isinstance(e, ast.Subscript) and isinstance(e.value, ast.Attribute) and e.value.attr == "nametypes":
            return True
        if isinstance(e, ast.Call) and isinstance(e.func, ast.Attribute) and e.func.attr == "get" and isinstance(e.func.value, ast.Attribute) and e.func.value.attr == "nametypes":
            return True
        return False

    def flag_value(e: ast.expr, p: bool, names: set[str]) -> bool | None:
        """what the fact (e, p) says about the explicit flag: True / False (not explicit) / None (nothing decidable)"""
        if is_flag(e, names):
            return p
        if isinstance(e, ast.Compare) and len(e.ops) == 1 and is_flag(e.left, names) and isinstance(e.comparators[0], ast.Constant) and isinstance(e.comparators[0].value, bool):
            c, op = e.comparators[0].value, e.ops[0]
            holds = p if isinstance(op, (ast.Is, ast.Eq)) else (not p) if isinstance(op, (ast.IsNot, ast.NotEq)) else None
            if holds is None:
                return None
            if c:  # compared with True
                return True if holds else False
            return False if holds else None  # `flag is False` fails -> the flag may still be None (implicit): no evidence
        return None

    def truthy(e: ast.expr, p: bool, names: set[str]) -> bool:
        return flag_value(e, p, names) is True

    def mentions_flag(e: ast.AST, names: set[str]) -> bool:
        return any(is_flag(x, names) for x in ast.walk(e))

    names: set[str] = set()
    f1 = items_flag(lp.target, lp.iter)
    if f1:
        names.add(f1)
    evidence = None
    mentioned = False
    inverted = None
    for e, p in cfg.guards(store_st):
        if truthy(e, p, names):
            evidence = f"guarded by `{('' if p else 'not ') + short(e, 40)}`"
        elif flag_value(e, p, names) is False:
            inverted = ("" if p else "not ") + short(e, 40)
        elif mentions_flag(e, names):
            mentioned = True
    if evidence is None and isinstance(src, (ast.ListComp, ast.SetComp, ast.GeneratorExp, ast.DictComp)):
        for gen in src.generators:
            gf = items_flag(gen.target, gen.iter)
            gnames = {gf} if gf else set()
            for cond in gen.ifs:
                for e, p in facts(cond, True):
                    if truthy(e, p, gnames):
                        evidence = f"pre-filtered by `{short(cond, 40)}` in `{short(src, 50)}`"
                    elif mentions_flag(e, gnames):
                        mentioned = True
    elif evidence is None and isinstance(src, ast.Call) and dotted(src.func) in ("filter", "sorted", "list", "tuple") and src is not lp.iter:
        mentioned = True  # some other pre-processing of the name list: not modelled
    if evidence and not inverted:
        rep.ok(R5, k, m.site(rs.explicit_store), evidence)
    elif inverted:
        rep.violation(R5, k, m.site(rs.explicit_store), f"`{short(rs.explicit_store, 50)}` is only reached when `{inverted}` holds, i.e. for names that are NOT explicit: '(name)=' targets are never found and heading-title names become '#'-targets")
    elif mentioned:
        rep.error(R5, f"the test on the nametypes flag that guards `{short(rs.explicit_store, 40)}` is not understood")
    else:
        rep.violation(
            R5,
            k,
            m.site(rs.explicit_store),
            f"`{short(rs.explicit_store, 50)}` in `{short(lp, 50)}` is reached for every name in document.nametypes, whatever its explicit flag: implicit heading-title names "
            "become '#'-targets and are searched before the slugs, so `#getting-started` hits the heading titled 'getting-started' instead of the one whose slug it is, "
            "and a link whose target does not exist (`<#my title>`) resolves silently",
        )
    # the registries are complete before the first link is resolved and are only read afterwards
    for regname, label in ((rs.explicit, "explicit"), (rs.slugs, "slug")):
        kk = f"{fi.fq}|the {label} registry is not written while links are resolved"
        ws = [w for r_, w in rs.registry_writes if r_ == regname]
        if not ws:
            rep.ok(R5, kk, m.site(rs.loop))
        else:
            rep.violation(
                R5,
                kk,
                m.site(ws[0]),
                f"`{short(getattr(ws[0], '_parent', ws[0]), 60)}` writes the {label} registry inside the loop that resolves the links: the registry then also holds entries that do not come from "
                + ("an explicit name - e.g. a slug hit memoised under the normalised link text makes a later `[](#Setup Guide)` / `[](#SETUP-GUIDE)`, which is no slug and no explicit target, resolve silently "
                   "as if it were an explicit target, and lets it take priority over real lookups" if label == "explicit" else "a heading, and which link sees them depends on the order of the links"),
            )
    # reader: a name may not be dropped from the registry because its node has an attribute that MyST's own id carriers have
    # (nodes that copy_attributes gives an id to: a reference with a refuri that was written `[text](url){#id}`, ...)
    carriers: list[tuple[str, set[str], str]] = []
    for g in corpus.all_functions():
        if g.is_lambda:
            continue
        for c in g.local_nodes():
            if not (isinstance(c, ast.Call) and _self_call(c) == "copy_attributes" and len(c.args) >= 2 and isinstance(c.args[1], ast.Name)):
                continue
            keys_e = c.args[2] if len(c.args) > 2 else kwarg(c, "keys")
            keys_e = _iter_source(g, keys_e) if keys_e is not None else None
            if not isinstance(keys_e, (ast.Tuple, ast.List)) or not any(isinstance(x, ast.Constant) and x.value == "id" for x in keys_e.elts):
                continue
            nv = c.args[1].id
            ctors = {g.module.resolve(dotted(v.func) or "") for v, i, _ in _bindings(g, nv) if i is None and isinstance(v, ast.Call)}
            ctors = {d.rsplit(".", 1)[1] for d in ctors if d.startswith("docutils.nodes.")}
            attrs = {
                t.slice.value
                for n in g.local_nodes()
                if isinstance(n, ast.Assign)
                for t in n.targets
                if isinstance(t, ast.Subscript) and isinstance(t.value, ast.Name) and t.value.id == nv and isinstance(t.slice, ast.Constant) and isinstance(t.slice.value, str)
            }
            for cls_ in ctors:
                carriers.append((cls_, attrs, g.module.site(c)))
    node_vars = {
        t.id
        for n in walk_local(rs.explicit_loop)
        if isinstance(n, ast.Assign) and any(isinstance(c, ast.Attribute) and c.attr == "ids" for c in ast.walk(n.value))
        for t in n.targets
        if isinstance(t, ast.Name)
    }
    for e, p in cfg.guards(store_st):
        if p:
            continue
        conj = [fp for v in e.values for fp in facts(v, True)] if isinstance(e, ast.BoolOp) and isinstance(e.op, ast.And) else [(e, True)]
        tests = [
            (ce, ce.comparators[0].id)
            for ce, cp in conj
            if cp and isinstance(ce, ast.Compare) and len(ce.ops) == 1 and isinstance(ce.ops[0], ast.In) and isinstance(ce.left, ast.Constant) and isinstance(ce.left.value, str)
            and isinstance(ce.comparators[0], ast.Name) and ce.comparators[0].id in node_vars
        ]
        for ce, nv_ in tests:
            attr = ce.left.value
            classes, odd = _class_facts(fi, conj, nv_)
            kk = f"{fi.fq}|nodes with attribute {attr!r} are dropped from the registry"
            if odd:
                rep.error(R5, f"{m.site(ce)}: the class restriction next to `{short(ce, 30)}` was not understood")
                continue
            hit = [(c_, site_) for c_, attrs, site_ in carriers if attr in attrs and (classes is None or c_ in classes)]
            if hit:
                rep.violation(
                    R5,
                    kk,
                    m.site(ce),
                    f"`{short(e, 60)}` skips every named node that has the attribute {attr!r}"
                    + (f" and is a nodes.{'/'.join(sorted(classes))}" if classes else ", whatever its class")
                    + f" - but MyST itself gives ids to nodes.{hit[0][0]} nodes carrying {attr!r} ({hit[0][1]}: `[text](https://example.com){{#lid}}`): the id is registered as an explicit target and "
                    "`[go](#lid)` is nevertheless reported as 'target not found'. The filter (copied from Sphinx) is meant for rST's link-generated `<target refuri=...>` nodes only",
                )
            else:
                rep.ok(R5, kk, m.site(ce), f"restricted to nodes.{'/'.join(sorted(classes))}" if classes else "no MyST id carrier has this attribute")
    if not carriers:
        rep.error(R5, "no copy_attributes(..., keys containing 'id') call site found: the id carriers could not be enumerated")
    # writers
    seen = set()
    for f, call, arg in _name_writers(corpus):
        kind, reg = _registration(f, call)
        k = f"{f.fq}|names.append({short(arg, 30)}) registration"  # key text kept for `names = [N]` writers too (stable keys)
        site = f.module.site(call)
        if f.fq in EXPLICIT_WRITERS:
            seen.add(f.fq)
            blind = _name_table_guard(f, call, reg)
            if kind == "explicit" and blind is not None:
                rep.violation(
                    R5,
                    k,
                    site,
                    f"{EXPLICIT_WRITERS[f.fq]}: the registration only happens when `{blind}` - document.nameids/ids also hold the *implicit* names of headings, and the test does not "
                    "consult document.nametypes: an explicit target whose name equals the title of an earlier heading is dropped instead of taking priority (docutils itself lets an explicit name override an implicit one)",
                )
            elif kind == "explicit":
                rep.ok(R5, k, site, EXPLICIT_WRITERS[f.fq])
            else:
                rep.violation(R5, k, site, f"{EXPLICIT_WRITERS[f.fq]}: the name is appended but registered as {kind or 'nothing'}: `#name` links to it are reported missing (or fall to a heading slug)")
        elif f.name == "generate_heading_target":
            seen.add(f.fq)
            if kind == "implicit":
                rep.ok(R5, k, site, "heading title name is implicit")
            else:
                rep.violation(R5, k, site, f"the heading-title name is registered as {kind or 'nothing'}: as an explicit name it collides with '(name)=' targets of the same name (docutils then invalidates both) and makes every title text a '#'-target")
        else:
            # a node class that the reader drops from the registry (footnote) must not be registered in the explicit-target *name* space:
            # on a name clash docutils sets nameids[name] = None and moves the name of BOTH elements to dupnames, so the real target is lost
            subj = _writer_subject(call)
            tag = None
            if isinstance(subj, ast.Name):
                for val, idx, _ in _bindings(f, subj.id):
                    if idx is None and isinstance(val, ast.Call):
                        d = f.module.resolve(dotted(val.func) or "")
                        if d.startswith("docutils.nodes."):
                            tag = d.rsplit(".", 1)[1]
            excluded = {
                c.value
                for e, p in cfg.guards(store_st)
                if not p and isinstance(e, ast.Compare) and len(e.ops) == 1 and isinstance(e.ops[0], ast.Eq) and any(isinstance(x, ast.Attribute) and x.attr == "tagname" for x in ast.walk(e))
                for c in ast.walk(e)
                if isinstance(c, ast.Constant) and isinstance(c.value, str)
            }
            if kind == "explicit" and tag is not None and tag in excluded:
                rep.violation(
                    R5,
                    k,
                    reg and f.module.site(reg) or site,
                    f"{f.qualname} registers the label of a nodes.{tag} with note_explicit_target, i.e. in the name space of '#' targets, although ResolveAnchorIds never resolves a link to a {tag}: "
                    f"when a '(note)=' target (or {{#note}} / ':name: note') and a footnote '[^note]' share the name, docutils sets nameids['note'] = None and moves the name of both elements to dupnames, "
                    "so `[link](#note)` is reported as 'target not found' although the target is in the doctree",
                )
            else:
                rep.listed(R5, k, site, f"registered {kind}")
    for fq_, why in EXPLICIT_WRITERS.items():
        if fq_ not in seen:
            rep.error(R5, f"explicit-target writer {fq_} ({why}) not found")
    rep.expect_min(R5, 5, "reader filter + three explicit writers + the heading writer")


# ---------------------------------------------------------------------------
# R6 title of an explicit target: the reader's extraction cases cover the heading nodes MyST itself creates


def _node_classes(f: FunctionInfo, e: ast.AST) -> set[str] | None:
    """{'rubric', 'title'} from ``nodes.rubric | nodes.title`` / a tuple / a single class expression."""
    if isinstance(e, ast.BinOp) and isinstance(e.op, ast.BitOr):
        a, b = _node_classes(f, e.left), _node_classes(f, e.right)
        return None if a is None or b is None else a | b
    if isinstance(e, (ast.Tuple, ast.List)):
        out: set[str] = set()
        for x in e.elts:
            c = _node_classes(f, x)
            if c is None:
                return None
            out |= c
        return out
    d = f.module.resolve(dotted(e) or "")
    if d.startswith("docutils.nodes."):
        return {d.rsplit(".", 1)[1]}
    return None


def _class_facts(f: FunctionInfo, guards, var: str) -> tuple[set[str] | None, bool]:
    """(classes that ``var`` is known to be an instance of / have as tagname at this point or None if unconstrained,
    whether some test on ``var`` was not understood)."""
    classes: set[str] | None = None
    odd = False
    for e, p in guards:
        if not _mentions_name(e, var):
            continue
        got = None
        if isinstance(e, ast.Call) and dotted(e.func) == "isinstance" and len(e.args) == 2 and isinstance(e.args[0], ast.Name) and e.args[0].id == var:
            got = _node_classes(f, e.args[1]) if p else set()
            if got is None:
                odd = True
                continue
            if not p:
                continue  # a negative class fact does not select a case
        elif isinstance(e, ast.Compare) and len(e.ops) == 1 and isinstance(e.left, ast.Attribute) and e.left.attr == "tagname" and isinstance(e.left.value, ast.Name) and e.left.value.id == var:
            c = e.comparators[0]
            if isinstance(e.ops[0], ast.Eq) and isinstance(c, ast.Constant) and isinstance(c.value, str):
                if not p:
                    continue
                got = {c.value}
            elif isinstance(e.ops[0], ast.In) and isinstance(c, (ast.Tuple, ast.List, ast.Set)) and all(isinstance(x, ast.Constant) for x in c.elts):
                if not p:
                    continue
                got = {x.value for x in c.elts}
            elif isinstance(e.ops[0], (ast.NotEq, ast.NotIn)) and p:
                continue
            elif isinstance(e.ops[0], (ast.NotEq,)) and not p and isinstance(c, ast.Constant):
                got = {c.value}
            else:
                odd = True
                continue
        else:
            # other facts about the node (children present, attribute present, startswith ...) do not select a class
            continue
        classes = got if classes is None else (classes & got)
    return classes, odd


def _title_cases(f: FunctionInfo, node_vars: set[str], region: list[ast.AST]) -> tuple[list[tuple], list[str]]:
    """[(relation 'self'|'child', classes or None = any, site)] for every ``*astext(X)`` in ``region``; problems."""
    cfg = get_cfg(f)
    cases: list[tuple] = []
    problems: list[str] = []
    for n in region:
        if not (isinstance(n, ast.Call) and (dotted(n.func) or "").endswith("astext")):
            continue
        x = n.args[0] if n.args else (n.func.value if isinstance(n.func, ast.Attribute) else None)
        if not isinstance(x, ast.Name):
            problems.append(f"`{short(n, 40)}`: subject is not a local name")
            continue
        guards = cfg.guards(cfg.stmt_of(n))
        limit = None
        if x.id in node_vars:
            rel = "self"
        else:
            its = [st for _, _, st in _bindings(f, x.id) if isinstance(st, (ast.For, ast.comprehension))]
            src = its[0].iter if len(its) == 1 and len(_bindings(f, x.id)) == 1 else None
            deep_call = None
            for c_ in ast.walk(src) if src is not None else []:
                if isinstance(c_, ast.Call) and (dotted(c_.func) or "").rsplit(".", 1)[-1] in ("findall", "traverse"):
                    root = c_.args[0] if c_.args and isinstance(c_.func, ast.Name) else (c_.func.value if isinstance(c_.func, ast.Attribute) else None)
                    if isinstance(root, ast.Name) and root.id in node_vars:
                        deep_call = c_
            if deep_call is not None:
                # a search over ALL descendants of the target node: not the "child" relation the writers establish
                dcls = {c for x in ast.walk(src) for c in (_node_classes(f, x) or set()) if isinstance(x, (ast.Attribute, ast.Name))}
                cases.append(("descendant", dcls or None, n, f"`{short(src, 50)}` searches all descendants of the target node"))
                continue
            if isinstance(src, ast.Subscript) and isinstance(src.slice, ast.Slice):
                limit = f"`{short(its[0].iter, 40)}` iterates over a slice of the children only"
                src = src.value
            if isinstance(src, ast.Attribute) and src.attr == "children":
                src = src.value
            comp = None
            if isinstance(src, ast.Name) and src.id not in node_vars:
                b = [v for v, i, st in _bindings(f, src.id) if i is None]
                if len(b) == 1 and isinstance(b[0], (ast.ListComp, ast.GeneratorExp)) and len(b[0].generators) == 1:
                    comp = b[0]
            elif isinstance(src, (ast.ListComp, ast.GeneratorExp)) and len(src.generators) == 1:
                comp = src
            if comp is not None:
                # children pre-filtered by a comprehension: `[c for c in node if isinstance(c, ...)]` (a slice of *that* list is no limit)
                g = comp.generators[0]
                gsrc = g.iter.value if isinstance(g.iter, ast.Attribute) and g.iter.attr == "children" else g.iter
                if isinstance(gsrc, ast.Name) and gsrc.id in node_vars and isinstance(g.target, ast.Name) and isinstance(comp.elt, ast.Name) and comp.elt.id == g.target.id:
                    cg = [fp for cond in g.ifs for fp in facts(cond, True)] + list(guards)
                    classes, odd = _class_facts(f, cg, g.target.id)
                    if odd:
                        problems.append(f"`{short(n, 40)}`: a class test in `{short(comp, 40)}` was not understood")
                    else:
                        cases.append(("child", classes, n, None))
                    continue
            if isinstance(src, ast.Name) and src.id in node_vars:
                rel = "child"
                if limit is None and isinstance(its[0], ast.For) and not _loop_can_continue(cfg, its[0]):
                    limit = f"every path through the body of `{short(its[0], 40)}` leaves the loop (break/return), so only the first child is examined"
            else:
                problems.append(f"`{short(n, 40)}`: `{x.id}` is neither the target node nor one of its children")
                continue
        classes, odd = _class_facts(f, guards, x.id)
        if odd:
            problems.append(f"`{short(n, 40)}`: a class test on `{x.id}` was not understood")
            continue
        cases.append((rel, classes, n, limit))
    return cases, problems


# docutils content model (docutils.dtd, trusted): the first child of these elements
FIRST_CHILD = {"definition_list": "definition_list_item", "definition_list_item": "term", "field_list": "field", "field": "field_name"}


def _title_classes_reached(f: FunctionInfo, node_vars: set[str], start, start_cls: str) -> set[str]:
    """Classes the target-node variable can have at a ``*astext(<node var>)`` call when the target node is a ``start_cls``:
    a walk over the CFG with the node's class as the only state; class tests are evaluated exactly, every other test both ways."""
    cfg = get_cfg(f)

    def ev(e: ast.expr, cls: str | None):
        """True / False / None (unknown)"""
        if isinstance(e, ast.UnaryOp) and isinstance(e.op, ast.Not):
            r = ev(e.operand, cls)
            return None if r is None else not r
        if isinstance(e, ast.BoolOp):
            rs_ = [ev(v, cls) for v in e.values]
            if isinstance(e.op, ast.And):
                return False if any(r is False for r in rs_) else True if all(r is True for r in rs_) else None
            return True if any(r is True for r in rs_) else False if all(r is False for r in rs_) else None
        if cls is None:
            return None
        if isinstance(e, ast.Call) and dotted(e.func) == "isinstance" and len(e.args) == 2 and isinstance(e.args[0], ast.Name) and e.args[0].id in node_vars:
            c = _node_classes(f, e.args[1])
            if c is None:
                return None
            if c & {"Element", "Node", "TextElement", "Body", "General"}:
                return None
            return cls in c
        if isinstance(e, ast.Compare) and len(e.ops) == 1 and isinstance(e.left, ast.Attribute) and e.left.attr == "tagname" and isinstance(e.left.value, ast.Name) and e.left.value.id in node_vars:
            c = e.comparators[0]
            if isinstance(c, ast.Constant) and isinstance(e.ops[0], (ast.Eq, ast.NotEq)):
                return (cls == c.value) == isinstance(e.ops[0], ast.Eq)
            return None
        if isinstance(e, ast.Call) and isinstance(e.func, ast.Attribute) and e.func.attr == "startswith" and isinstance(e.func.value, ast.Attribute) and e.func.value.attr == "tagname" and e.args and isinstance(e.args[0], ast.Constant):
            return cls.startswith(e.args[0].value)
        return None

    reached: set[str] = set()
    seen = set()
    work = [(start, start_cls)]
    while work:
        n, cls = work.pop()
        key = (id(n) if not isinstance(n, tuple) else (n[0], id(n[1])), cls)
        if key in seen or n in ("EXIT", "RAISE"):
            continue
        seen.add(key)
        new_cls = cls
        if isinstance(n, ast.AST):
            roots = [n.test] if isinstance(n, (ast.If, ast.While)) else [n.iter] if isinstance(n, ast.For) else [] if isinstance(n, (ast.Try, ast.With)) else [n]
            for r in roots:
                for c in [r] + list(walk_local(r)):
                    if isinstance(c, ast.Call) and (dotted(c.func) or "").endswith("astext"):
                        x = c.args[0] if c.args else None
                        if isinstance(x, ast.Name) and x.id in node_vars and cls is not None:
                            reached.add(cls)
            if isinstance(n, ast.Assign) and any(isinstance(t, ast.Name) and t.id in node_vars for t in n.targets):
                v = n.value
                if isinstance(v, ast.Subscript) and isinstance(v.value, ast.Name) and v.value.id in node_vars and isinstance(v.slice, ast.Constant) and v.slice.value == 0:
                    new_cls = FIRST_CHILD.get(cls) if cls is not None else None
                elif any(isinstance(c, ast.Attribute) and c.attr == "ids" for c in ast.walk(v)):
                    new_cls = start_cls  # (re)binding to the registered target node
                else:
                    new_cls = None
        succs = cfg.succ.get(n, [])
        if isinstance(n, ast.If):
            r = ev(n.test, cls)
            for s_ in succs:
                if isinstance(s_, tuple) and s_[0] in ("T", "F") and s_[1] is n:
                    if r is None or (r is True and s_[0] == "T") or (r is False and s_[0] == "F"):
                        work.append((s_, new_cls))
                else:
                    work.append((s_, new_cls))
        else:
            for s_ in succs:
                work.append((s_, new_cls))
    return reached


def _loop_can_continue(cfg, loop: ast.For) -> bool:
    """Is there a path from the start of the loop body back to the loop header that stays inside the body
    (i.e. can a second element ever be examined)?"""
    inside = {id(n) for st in loop.body for n in [st] + list(walk_local(st))}
    seen = set()
    work = [("T", loop)]
    while work:
        n = work.pop()
        key = id(n) if not isinstance(n, tuple) else (n[0], id(n[1]))
        if key in seen:
            continue
        seen.add(key)
        for s in cfg.succ.get(n, []):
            if s is loop:
                return True
            core = s[1] if isinstance(s, tuple) else s
            if isinstance(core, ast.AST) and id(core) in inside:
                work.append(s)
    return False


@rule("C09.R6")
def r6_title_extraction(corpus: Corpus, rep: Report, tier: str):
    R6 = "C09.R6"
    rep.rule(R6, "for every heading node MyST creates (section with a title child; rubric that is its own title) the resolver's title extraction has a case on the right subject (the node itself / its child)")
    rs = _resolver(corpus)
    fi, m = rs.fi, rs.m
    base = corpus.mod(BASE)
    # writer side: generate_heading_target(token, level, node, title_node) call sites
    ght = base.func("DocutilsRenderer.generate_heading_target")
    if len(ght.params) < 5:
        raise Unsupported(f"{ght.qualname}{tuple(ght.params)}: expected (self, token, level, node, title_node)")
    pn, pt = ght.params[3], ght.params[4]
    obligations: list[tuple[str, str, str, str]] = []  # (relation, title class, node class, site)
    for f in base.functions.values():
        if f.is_lambda:
            continue
        for c in f.local_nodes():
            if isinstance(c, ast.Call) and _self_call(c) == "generate_heading_target":
                a_node = c.args[2] if len(c.args) > 2 else kwarg(c, pn)
                a_title = c.args[3] if len(c.args) > 3 else kwarg(c, pt)
                if not (isinstance(a_node, ast.Name) and isinstance(a_title, ast.Name)):
                    raise Unsupported(f"{f.module.site(c)}: generate_heading_target arguments are not locals")

                def ctor_cls(name: str) -> str:
                    b = [v for v, i, st in _bindings(f, name) if i is None and isinstance(v, ast.Call)]
                    ds = {f.module.resolve(dotted(v.func) or "") for v in b}
                    if len(ds) != 1 or not next(iter(ds)).startswith("docutils.nodes."):
                        raise Unsupported(f"{f.module.site(c)}: class of `{name}` not recognised")
                    return next(iter(ds)).rsplit(".", 1)[1]

                if a_node.id == a_title.id:
                    obligations.append(("self", ctor_cls(a_node.id), ctor_cls(a_node.id), f.module.site(c)))
                else:
                    attached = any(
                        (isinstance(x, ast.Call) and isinstance(x.func, ast.Attribute) and x.func.attr in ("append", "insert") and isinstance(x.func.value, ast.Name) and x.func.value.id == a_node.id and any(isinstance(y, ast.Name) and y.id == a_title.id for y in x.args))
                        or (isinstance(x, ast.AugAssign) and isinstance(x.target, ast.Name) and x.target.id == a_node.id and isinstance(x.value, ast.Name) and x.value.id == a_title.id)
                        for x in f.local_nodes()
                    )
                    if not attached:
                        raise Unsupported(f"{f.module.site(c)}: `{a_title.id}` is not visibly a child of `{a_node.id}`")
                    obligations.append(("child", ctor_cls(a_title.id), ctor_cls(a_node.id), f.module.site(c)))
    if len(obligations) < 2:
        raise AnchorMissing(f"expected the section and the rubric call of generate_heading_target, found {len(obligations)}")
    # reader side
    node_vars = {
        t.id
        for n in walk_local(rs.explicit_loop)
        if isinstance(n, ast.Assign) and any(isinstance(c, ast.Attribute) and c.attr == "ids" for c in ast.walk(n.value))
        for t in n.targets
        if isinstance(t, ast.Name)
    }
    if not node_vars:
        raise Unsupported("the target node (document.ids[...]) is not bound to a local in the registry loop")
    region = list(walk_local(rs.explicit_loop))
    cases, problems = _title_cases(fi, node_vars, region)
    helper_walks: list[tuple[FunctionInfo, set[str]]] = []
    # one level of helper: title = self._title_of(node) / _title_of(node)
    title_elt = rs.explicit_store.value.elts[_registry_writer_positions(corpus, rs)["explicit"]["title"]]
    for e in _closure(fi, title_elt):
        if isinstance(e, ast.Call) and not (dotted(e.func) or "").endswith("astext") and any(isinstance(a, ast.Name) and a.id in node_vars for a in e.args):
            h = None
            if _self_call(e) and fi.cls is not None:
                h = corpus.lookup_method(fi.cls, _self_call(e))
                shift = 0 if (h is not None and "staticmethod" in h.decorators()) else 1
            elif isinstance(e.func, ast.Name):
                h, shift = m.functions.get(e.func.id) or corpus.find_function(m.resolve(e.func.id)), 0
            if h is None:
                problems.append(f"`{short(e, 40)}` computes the title in a function that cannot be followed")
                continue
            idx = [i for i, a in enumerate(e.args) if isinstance(a, ast.Name) and a.id in node_vars][0]
            hv = {h.params[idx + shift]} | {t.id for n in h.local_nodes() if isinstance(n, ast.Assign) and isinstance(n.value, ast.Subscript) and isinstance(n.value.value, ast.Name) and n.value.value.id == h.params[idx + shift] for t in n.targets if isinstance(t, ast.Name)}
            c2, p2 = _title_cases(h, hv, list(h.local_nodes()))
            helper_walks.append((h, hv))
            cases += c2
            problems += p2
            rep.saw_function(h.fq)
    # list-like targets: where the code tests for a definition list / field list it must be able to walk down to the term / field name
    walks = [(fi, node_vars, ("T", rs.explicit_loop))] + [(h_, hv_, "ENTRY") for h_, hv_ in helper_walks]
    for start_cls, leaf in (("definition_list", "term"), ("field_list", "field_name")):
        mentioned = False
        got: set[str] = set()
        for wf, wv, wstart in walks:
            if any(isinstance(c, ast.Call) and dotted(c.func) == "isinstance" and start_cls in (_node_classes(wf, c.args[1]) or set()) for c in wf.local_nodes() if isinstance(c, ast.Call) and len(c.args) == 2):
                mentioned = True
            got |= _title_classes_reached(wf, wv, wstart, start_cls)
        if not mentioned:
            continue
        k = f"{fi.fq}|title of a labelled nodes.{start_cls} is its first nodes.{leaf}"
        if leaf in got:
            rep.ok("C09.R6", k, m.site(rs.explicit_store), f"{start_cls} -> {FIRST_CHILD[start_cls]} -> {leaf}")
        else:
            rep.violation(
                "C09.R6",
                k,
                m.site(rs.explicit_store),
                f"the title lookup tests for nodes.{start_cls} but no path walks from it down to its first nodes.{leaf} ({start_cls} -> {FIRST_CHILD[start_cls]} -> {leaf}; classes that reach a title text: "
                f"{sorted(got) or 'none'}): the two descents `node = node[0]` are no longer both taken, so an empty link to a labelled {start_cls.replace('_', ' ')} shows '#name' instead of the first {leaf.replace('_', ' ')}",
            )
    if not cases and not problems:
        raise Unsupported("no title extraction (`clean_astext(...)`) found in the registry loop")
    for rel, tcls, ncls, wsite in obligations:
        what = "the node itself" if rel == "self" else f"a nodes.{tcls} child"
        k = f"{fi.fq}|title of a nodes.{ncls} target is taken from {what}"
        hit = [c for c in cases if c[0] == rel and (c[1] is None or tcls in c[1])]
        if hit:
            rep.ok("C09.R6", k, m.site(hit[0][2]), f"writer: {wsite}; reader case `{short(hit[0][2], 40)}`")
            continue
        if problems:
            rep.error("C09.R6", f"title extraction not understood: {problems[0]}")
            continue
        wrong = [c for c in cases if c[0] != rel and (c[1] is not None and tcls in c[1])]
        extra = f"; nodes.{tcls} is only looked for among the {'children of the node' if rel == 'self' else 'node classes themselves'} (`{short(wrong[0][2], 40)}`), which never matches" if wrong else ""
        rep.violation(
            "C09.R6",
            k,
            m.site(rs.explicit_store),
            f"render_heading ({wsite}) registers a nodes.{ncls} whose title is {what}, but the resolver has no case that reads the title from {what} for that class{extra}: "
            f"an empty link to an explicit target on such a heading shows '#name' instead of the heading text",
        )
    for rel, classes, site_node, limit in cases:
        if rel == "descendant":
            rep.violation(
                "C09.R6",
                f"{fi.fq}|title search `{short(site_node, 40)}` looks at the direct children of the target node only",
                m.site(site_node),
                f"{limit}: the title/caption of a *nested* element (a figure or admonition inside a labelled block quote or list, a sub-section) is taken for the target's own title, "
                "so an empty link to a target that has no title shows a foreign title instead of '#name' (and a captioned child no longer wins over a deeper title that comes first)",
            )
            continue
        if rel != "child":
            continue
        k = f"{fi.fq}|title search `{short(site_node, 40)}` examines every child of the target node"
        if limit is None:
            rep.ok("C09.R6", k, m.site(site_node))
        else:
            rep.violation(
                "C09.R6",
                k,
                m.site(site_node),
                f"{limit}: a caption/title that is not the first child (a figure's caption comes after its image) is never found, "
                "so an empty link to such an explicit target shows '#name' instead of the caption",
            )
    rep.expect_min("C09.R6", 3, "section/title and rubric obligations + the child search")


# ---------------------------------------------------------------------------
# R7 slug registry keys are unique: the key was tested absent after its last change


@rule("C09.R7")
def r7_slug_key_fresh(corpus: Corpus, rep: Report, tier: str):
    R7 = "C09.R7"
    rep.rule(R7, "a heading is stored in the slug registry under a key that was tested absent from the registry after its last modification (no heading overwrites another heading's anchor)")
    base = corpus.mod(BASE)
    export = None
    for f in base.functions.values():
        if f.is_lambda:
            continue
        for n in f.local_nodes():
            if isinstance(n, ast.Assign) and any(isinstance(t, ast.Attribute) and t.attr == "myst_slugs" for t in n.targets) and isinstance(n.value, ast.Attribute):
                export = n.value.attr
    if export is None:
        raise AnchorMissing("no `document.myst_slugs = self.<attr>` export in mdit_to_docutils.base")
    stores = []
    for f in base.functions.values():
        if f.is_lambda:
            continue
        for n in f.local_nodes():
            if isinstance(n, ast.Assign) and isinstance(n.targets[0], ast.Subscript) and isinstance(n.targets[0].value, ast.Attribute) and n.targets[0].value.attr == export:
                stores.append((f, n))
    if not stores:
        raise AnchorMissing(f"no store into self.{export}")

    def fresh_edge(n, x: str, is_reg) -> bool:
        if isinstance(n, tuple) and n[0] == "F" and isinstance(n[1], ast.For) and isinstance(n[1].iter, ast.Call) and n[1]._mod.resolve(dotted(n[1].iter.func) or "") == "itertools.count":
            return True  # `for i in itertools.count()` is never exhausted: the edge is infeasible, so it blocks the path
        if not (isinstance(n, tuple) and n[0] in ("T", "F") and isinstance(n[1], (ast.If, ast.While))):
            return False
        for e, p in facts(n[1].test, n[0] == "T"):
            if isinstance(e, ast.Compare) and len(e.ops) == 1 and isinstance(e.left, ast.Name) and e.left.id == x and is_reg(e.comparators[0]):
                if (isinstance(e.ops[0], ast.In) and not p) or (isinstance(e.ops[0], ast.NotIn) and p):
                    return True
        return False

    for f, st in stores:
        rep.saw_function(f.fq)
        key = st.targets[0].slice
        site = f.module.site(st)
        k = f"{f.fq}|key of `{short(st.targets[0], 40)}` is absent from the registry"
        if not isinstance(key, ast.Name):
            raise Unsupported(f"{site}: registry key `{short(key, 30)}` is not a local")
        cfg = get_cfg(f)
        is_self_reg = lambda e: isinstance(e, ast.Attribute) and e.attr == export  # noqa: E731
        # (a) tested at the store itself
        defs = [s for _, _, s in _bindings(f, key.id)]
        if defs and all(not cfg.paths_avoiding(cfg.stmt_of(d), cfg.stmt_of(st), lambda n: fresh_edge(n, key.id, is_self_reg)) for d in defs):
            rep.ok(R7, k, site, "tested absent in the writer")
            continue
        # (b) computed by a function that receives the registry
        calls = [v for v, i, _ in _bindings(f, key.id) if i is None and isinstance(v, ast.Call)]
        if len(calls) != 1 or len(defs) != 1:
            raise Unsupported(f"{site}: origin of the key `{key.id}` not understood")
        call = calls[0]
        g = base.functions.get(dotted(call.func) or "") or corpus.find_function(f.module.resolve(dotted(call.func) or ""))
        if g is None or g.is_lambda:
            raise Unsupported(f"{site}: `{short(call, 40)}` cannot be followed")
        idx = [i for i, a in enumerate(call.args) if is_self_reg(a)]
        kw = [kk.arg for kk in call.keywords if is_self_reg(kk.value)]
        rep.saw_function(g.fq)
        if not idx and not kw:
            rep.violation(R7, k, site, f"`{short(call, 50)}` computes the key without seeing the registry self.{export}: two headings with the same text get the same key and the later one overwrites the earlier one's anchor")
            continue
        sp = kw[0] if kw else g.params[idx[0]]
        gcfg = get_cfg(g)
        is_param_reg = lambda e: isinstance(e, ast.Name) and e.id == sp  # noqa: E731
        uses = [n for n in g.local_nodes() if isinstance(n, ast.Name) and n.id == sp and isinstance(n.ctx, ast.Load)]
        rets = [r for r in g.local_nodes() if isinstance(r, ast.Return)]
        if not rets or any(r.value is None for r in rets):
            raise Unsupported(f"{g.qualname}: a return without value")

        def leaves(e: ast.expr) -> list[ast.expr]:
            if isinstance(e, ast.IfExp):
                return leaves(e.body) + leaves(e.orelse)
            if isinstance(e, ast.Call) and dotted(e.func) in ("str", "cast", "t.cast", "typing.cast") and e.args:
                return leaves(e.args[-1])
            return [e]

        if not uses:
            rep.violation(R7, f"{g.fq}|result is tested against the registry", g.site(), f"{g.qualname} never reads its registry parameter `{sp}`: duplicate headings get the same anchor and overwrite each other in document.myst_slugs")
            continue
        tests = [n for n in g.local_nodes() if isinstance(n, ast.Compare) and len(n.ops) == 1 and isinstance(n.ops[0], (ast.In, ast.NotIn)) and is_param_reg(n.comparators[0])]
        if not tests:
            raise Unsupported(f"{g.qualname}: no `candidate in {sp}` test on the returned name (uniqueness established in an unknown idiom)")
        for r in rets:
            for leaf in leaves(r.value):
                if not isinstance(leaf, ast.Name):
                    rep.violation(
                        R7,
                        f"{g.fq}|returned `{short(leaf, 30)}` was tested absent from `{sp}` after its last assignment",
                        g.module.site(r),
                        f"`{short(r, 60)}` returns the freshly computed candidate `{short(leaf, 30)}` without testing it against `{sp}`: it can already be the anchor of another heading "
                        "(a heading literally titled 'Intro-1' next to two headings 'Intro'), which is then overwritten in document.myst_slugs - `[](#intro-1)` points at a different heading",
                    )
                    continue
                x = leaf.id
                kk = f"{g.fq}|returned `{x}` was tested absent from `{sp}` after its last assignment"
                gdefs = [s for _, _, s in _bindings(g, x)]
                starts = [gcfg.stmt_of(d) for d in gdefs] + (["ENTRY"] if x in g.params else [])
                stale = [d for d in starts if gcfg.paths_avoiding(d, r, lambda n: fresh_edge(n, x, is_param_reg))]
                if not stale:
                    rep.ok(R7, kk, g.module.site(r), f"{len(starts)} definition(s), each followed by `{x} in {sp}` == False before the return")
                else:
                    d = stale[0]
                    rep.violation(
                        R7,
                        kk,
                        g.module.site(d) if isinstance(d, ast.AST) else g.site(),
                        f"`{short(d, 50) if isinstance(d, ast.AST) else 'the parameter'}` reaches `{short(r, 30)}` on a path that does not re-test `{x} in {sp}`: the returned anchor can already be taken "
                        f"(e.g. three headings 'Alpha', or 'Beta-1' followed by two 'Beta'), the later heading overwrites the earlier one in document.myst_slugs and `[](#slug-1)` links point at a different heading",
                    )
    rep.expect_min(R7, 1, "the slug registry writer")


# ---------------------------------------------------------------------------
# R8 the slug registry only grows during a parse


@rule("C09.R8")
def r8_slug_registry_monotone(corpus: Corpus, rep: Report, tier: str):
    R8 = "C09.R8"
    rep.rule(R8, "between the per-parse reset and the export as document.myst_slugs the slug registry only grows: no re-binding to an older/other object, no removal of entries")
    base = corpus.mod(BASE)
    export = None
    for f in base.functions.values():
        if f.is_lambda:
            continue
        for n in f.local_nodes():
            if isinstance(n, ast.Assign) and any(isinstance(t, ast.Attribute) and t.attr == "myst_slugs" for t in n.targets) and isinstance(n.value, ast.Attribute):
                export = n.value.attr
    if export is None:
        raise AnchorMissing("no `document.myst_slugs = self.<attr>` export in mdit_to_docutils.base")

    def is_reg(e: ast.AST) -> bool:
        return isinstance(e, ast.Attribute) and e.attr == export

    def empty_literal(v: ast.AST | None) -> bool:
        return (isinstance(v, ast.Dict) and not v.keys) or (isinstance(v, ast.Call) and dotted(v.func) in ("dict", "OrderedDict") and not v.args and not v.keywords)

    def keeps_all(v: ast.AST | None) -> bool:
        """the new value contains the old registry wholesale: {**reg, ...}, dict(reg, ...), reg | {...}, reg.copy()"""
        if isinstance(v, ast.Dict):
            return any(k is None and is_reg(x) for k, x in zip(v.keys, v.values))
        if isinstance(v, ast.Call) and dotted(v.func) == "dict" and v.args and is_reg(v.args[0]):
            return True
        if isinstance(v, ast.Call) and isinstance(v.func, ast.Attribute) and v.func.attr == "copy" and is_reg(v.func.value) :
            return True
        if isinstance(v, ast.BinOp) and isinstance(v.op, ast.BitOr):
            return is_reg(v.left) or keeps_all(v.left) or is_reg(v.right) or keeps_all(v.right)
        return False

    resets = 0
    n_inst = 0
    for f in corpus.all_functions():
        if f.is_lambda:
            continue
        for n in f.local_nodes():
            site = f.module.site(n)
            if isinstance(n, (ast.Assign, ast.AnnAssign, ast.AugAssign)):
                targets = n.targets if isinstance(n, ast.Assign) else [n.target]
                flat = [x for t in targets for x in (t.elts if isinstance(t, (ast.Tuple, ast.List)) else [t])]
                if not any(is_reg(t) for t in flat):
                    continue
                v = n.value
                if v is None:
                    continue
                n_inst += 1
                k = f"{f.fq}|{short(n, 70)}"
                if empty_literal(v) and f.name in ("__init__", "setup_render"):
                    resets += 1
                    rep.ok(R8, k, site, "per-parse reset to an empty registry")
                elif keeps_all(v) or (isinstance(n, ast.AugAssign) and isinstance(n.op, ast.BitOr)):
                    rep.ok(R8, k, site, "the new value contains every old entry")
                else:
                    rep.violation(
                        R8,
                        k,
                        site,
                        f"`{short(n, 60)}` re-binds the slug registry in {f.qualname} to "
                        + ("an empty registry" if empty_literal(v) else f"`{short(v, 30)}` (a snapshot / another object)")
                        + ": slugs registered since then are forgotten although their headings stay in the document - `[](#slug)` links to them get a 'target not found' warning, "
                        "and a later heading with the same title re-uses the slug",
                    )
            elif isinstance(n, ast.Call) and isinstance(n.func, ast.Attribute) and is_reg(n.func.value) and n.func.attr in ("pop", "popitem", "clear", "__delitem__"):
                n_inst += 1
                rep.violation(R8, f"{f.fq}|{short(n, 70)}", site, f"`{short(n, 60)}` removes entries from the slug registry during the parse: `[](#slug)` links to the removed heading(s) no longer resolve")
            elif isinstance(n, ast.Delete) and any((isinstance(t, ast.Subscript) and is_reg(t.value)) or is_reg(t) for t in n.targets):
                n_inst += 1
                rep.violation(R8, f"{f.fq}|{short(n, 70)}", site, f"`{short(n, 60)}` removes entries from the slug registry during the parse")
    if resets == 0:
        rep.error(R8, f"no per-parse reset `self.{export} = {{}}` found in __init__/setup_render")
    rep.expect_min(R8, 1, "the per-parse reset of the slug registry")


# ---------------------------------------------------------------------------
# R9 the title text: no return of clean_astext bypasses one of its sanitising steps


@rule("C09.R9")
def r9_title_text_sanitised(corpus: Corpus, rep: Report, tier: str):
    R9 = "C09.R9"
    rep.rule(R9, "clean_astext (the one source of a target's title text, for the slug registry and the explicit registry alike) applies each of its sanitising steps (image alt, raw nodes, system messages - each over all descendants) before every return, on a copy")
    base = corpus.mod(BASE)
    f = _inlined(corpus, base.func("clean_astext"))
    rep.saw_function(f.fq)
    cfg = get_cfg(f)
    def predicate_classes(body: ast.expr, prm: str, mod_f: FunctionInfo) -> set[str] | None:
        """classes accepted by `isinstance(p, A | B)` / `isinstance(p, A) or isinstance(p, B)`; None if the predicate is anything else"""
        if isinstance(body, ast.BoolOp) and isinstance(body.op, ast.Or):
            out: set[str] = set()
            for v in body.values:
                c = predicate_classes(v, prm, mod_f)
                if c is None:
                    return None
                out |= c
            return out
        if isinstance(body, ast.Call) and dotted(body.func) == "isinstance" and len(body.args) == 2 and isinstance(body.args[0], ast.Name) and body.args[0].id == prm:
            return _node_classes(mod_f, body.args[1])
        return None

    def step_classes(it: ast.expr) -> tuple[set[str], bool]:
        """(node classes a findall/traverse condition selects, whether some condition was not understood)"""
        cls = {c for x in ast.walk(it) for c in (_node_classes(f, x) or set()) if isinstance(x, (ast.Attribute, ast.Name))}
        odd = False
        for x in ast.walk(it):
            got = "n/a"
            if isinstance(x, ast.Lambda) and len(x.args.args) == 1:
                got = predicate_classes(x.body, x.args.args[0].arg, f)
            elif isinstance(x, ast.Name) and x.id in f.module.functions and not isinstance(getattr(x, "_parent", None), ast.Call) or (
                isinstance(x, ast.Name) and x.id in f.module.functions and isinstance(getattr(x, "_parent", None), ast.Call) and x._parent.func is not x
            ):
                h = f.module.functions[x.id]
                rets_ = [r for r in h.local_nodes() if isinstance(r, ast.Return)]
                got = predicate_classes(rets_[0].value, h.params[0], h) if len(rets_) == 1 and rets_[0].value is not None and len(h.params) == 1 else None
            if got == "n/a":
                continue
            if got is None:
                odd = True
            else:
                cls |= got
        return cls, odd

    steps = []
    for n in f.local_nodes():
        it_src = _iter_source(f, n.iter) if isinstance(n, ast.For) else None
        if isinstance(n, ast.For) and any(isinstance(c, ast.Call) and (dotted(c.func) or "").rsplit(".", 1)[-1] in ("findall", "traverse") for c in ast.walk(it_src)):
            cls, odd = step_classes(it_src)
            if odd:
                rep.error(R9, f"{f.module.site(n)}: the condition of `{short(n.iter, 60)}` is not a plain isinstance predicate")
            if cls:
                steps.append((n, cls))
    rets = [r for r in f.local_nodes() if isinstance(r, ast.Return)]
    if not steps or not rets:
        raise Unsupported(f"clean_astext: {len(steps)} sanitising loop(s), {len(rets)} return(s): shape not recognised")
    have = {c for _, cls in steps for c in cls}
    # steps that only look at the direct children of the element (`for x in node.children` / `[c for c in node.children if isinstance(c, K)]`)
    shallow: dict[str, ast.AST] = {}
    for n in f.local_nodes():
        if not isinstance(n, ast.For) or any(n is lp for lp, _ in steps):
            continue
        srcs = [n.iter] + [g.iter for c in ast.walk(n.iter) if isinstance(c, (ast.ListComp, ast.GeneratorExp, ast.SetComp)) for g in c.generators]
        direct = any(
            (isinstance(x, ast.Attribute) and x.attr == "children") or (isinstance(x, ast.Name) and x.id in f.params)
            for x in srcs
        ) and not any(isinstance(c, ast.Call) and (dotted(c.func) or "").rsplit(".", 1)[-1] in ("findall", "traverse") for c in ast.walk(n.iter))
        if not direct:
            continue
        cls = {c for x in list(ast.walk(n.iter)) + [y for b in n.body for y in ast.walk(b)] for c in (_node_classes(f, x) or set()) if isinstance(x, (ast.Attribute, ast.Name))}
        for c in cls:
            shallow.setdefault(c, n)
    for need, why in (
        ("image", "the alt text of an image is not title text"),
        ("raw", "raw (HTML/LaTeX) markup is not title text"),
        ("system_message", "a warning raised while the heading/caption content was rendered is appended to whatever node was current - possibly nested, e.g. inside emphasis - and is not title text"),
    ):
        k = f"{f.fq}|has a nodes.{need} step"
        if need in have:
            rep.ok(R9, k, f.site(), "over all descendants")
        elif need in shallow:
            rep.violation(
                R9,
                k,
                f.module.site(shallow[need]),
                f"`{short(shallow[need], 60)}` handles nodes.{need} only among the direct children of the element: a nested one ({why}) stays in, so e.g. the text of a warning "
                "raised inside `# Title *with {unknown}`x`*` becomes part of the title that fills empty '#' links (and of the section name)",
            )
        else:
            rep.violation(R9, k, f.site(), f"clean_astext has no step for nodes.{need} ({why})")
    for r in rets:
        guards = cfg.guards(r)
        examined = {c for e, _ in guards for x in _closure(f, e) for y in ast.walk(x) for c in (_node_classes(f, y) or set()) if isinstance(y, (ast.Attribute, ast.Name))}
        for loop, cls in steps:
            k = f"{f.fq}|`{short(r, 40)}` comes after the {'/'.join(sorted(cls))} step"
            if cfg.dominates(loop, r):
                rep.ok(R9, k, f.module.site(r))
            elif cls <= examined:
                rep.ok(R9, k, f.module.site(r), f"early exit under a condition that examines nodes.{'/'.join(sorted(cls))}")
            else:
                rep.violation(
                    R9,
                    k,
                    f.module.site(r),
                    f"`{short(r, 40)}` can be reached without running `{short(loop, 50)}` and its condition does not look at nodes.{'/'.join(sorted(cls))}: "
                    f"{'raw (HTML) markup inside a heading leaks into' if 'raw' in cls else 'image alt text leaks into'} the title text that fills empty '#' links",
                )
    k = f"{f.fq}|sanitising works on a copy"
    copies = [n for n in f.local_nodes() if isinstance(n, ast.Call) and isinstance(n.func, ast.Attribute) and n.func.attr in ("deepcopy",) or (isinstance(n, ast.Call) and (dotted(n.func) or "").endswith("deepcopy"))]
    if copies and all(cfg.dominates(cfg.stmt_of(copies[0]), loop) for loop, _ in steps):
        rep.ok(R9, k, f.module.site(copies[0]))
    else:
        rep.violation(R9, k, f.site(), "the sanitising loops run on the document's own nodes, not on a deep copy: resolving a link removes raw nodes / alt texts from the target heading")
    rep.expect_min(R9, 6, "three required steps, each before the return, + the copy")


# ---------------------------------------------------------------------------
# R10 every heading within the anchor depth enters the slug registry


@rule("C09.R10")
def r10_slug_registry_complete(corpus: Corpus, rep: Report, tier: str):
    R10 = "C09.R10"
    rep.rule(R10, "every heading is handed to generate_heading_target, and there the store into the slug registry depends on nothing but the anchor depth (heading_anchors) and the slug function not failing")
    base = corpus.mod(BASE)
    rs = _resolver(corpus)
    wpos = _registry_writer_positions(corpus, rs)
    f, st = wpos["_writer"]["slugs"]  # type: ignore[index]
    rep.saw_function(f.fq)
    cfg = get_cfg(f)
    k = f"{f.fq}|store into the slug registry depends only on the anchor depth"
    extra = []
    depth = []
    for e, p in cfg.guards(cfg.stmt_of(st)):
        if any(isinstance(x, ast.Attribute) and x.attr == "heading_anchors" for c in _closure(f, e) for x in ast.walk(c)):
            depth.append((e, p))
        else:
            extra.append((e, p))
    if extra:
        e, p = extra[0]
        rep.violation(
            R10,
            k,
            f.module.site(e),
            f"`{short(st, 50)}` is only reached when `{('' if p else 'not ') + short(e, 50)}`: a heading within the anchor depth for which this fails (e.g. one that also carries an explicit {{#id}}) "
            "is not entered into document.myst_slugs, so `[](#its-title-slug)` is reported as 'target not found'",
        )
    else:
        rep.ok(R10, k, f.module.site(st), f"{len(depth)} depth test(s)")
    # the slug function may fail: the store may sit in try/else, the handler must warn (C10.R4) - here only: no other handler swallows the store
    # every heading reaches the function
    rh = _inlined(corpus, base.func("DocutilsRenderer.render_heading"))
    rep.saw_function(rh.fq)
    rcfg = get_cfg(rh)
    calls = [rcfg.stmt_of(c) for c in rh.local_nodes() if isinstance(c, ast.Call) and _self_call(c) == f.name]
    k = f"{rh.fq}|every heading is handed to {f.name}"
    if not calls:
        raise AnchorMissing(f"render_heading does not call {f.name}")
    if rcfg.paths_avoiding("ENTRY", "EXIT", lambda n: any(n is c for c in calls)):
        rep.violation(R10, k, rh.site(), f"a path through render_heading ends without calling {f.name}: such headings (e.g. the ones rendered as rubric inside a directive) get no anchor slug and `[](#slug)` links to them are reported missing")
    else:
        rep.ok(R10, k, rh.site(), f"{len(calls)} call(s), one on every path")
    rep.expect_min(R10, 2, "the store guard and the call in render_heading")


# ---------------------------------------------------------------------------
# R11 no value is carried over from one loop iteration to the next


def _loop_body_nodes(loop: ast.For) -> set[int]:
    return {id(n) for st in loop.body for n in [st] + list(walk_local(st))}


@rule("C09.R11")
def r11_no_loop_carried_values(corpus: Corpus, rep: Report, tier: str):
    R11 = "C09.R11"
    rep.rule(R11, "what is stored for one name / one link (registry entry, refid, fill-in text) is computed in the same loop iteration: every local it uses is (re)assigned on every path from the start of the iteration")
    rs = _resolver(corpus)
    fi, cfg, m = rs.fi, rs.cfg, rs.m

    def check(loop: ast.For, stmt: ast.stmt, exprs: list[ast.AST], what: str) -> None:
        inside = _loop_body_nodes(loop)
        targets = {n.id for n in ast.walk(loop.target) if isinstance(n, ast.Name)}
        names = sorted({n.id for e in exprs for n in ast.walk(e) if isinstance(n, ast.Name) and isinstance(n.ctx, ast.Load)} - targets)
        for nm in names:
            defs = [st for _, _, st in _bindings(fi, nm)]
            in_loop = [d for d in defs if id(d) in inside]
            if not in_loop:
                continue  # a loop-invariant value (registry, constant, self)
            dstmts = []
            for d in in_loop:
                try:
                    dstmts.append(cfg.stmt_of(d))
                except Unsupported:
                    pass
            k = f"{fi.fq}|`{nm}` in {what} is assigned in the same iteration"
            stale = cfg.paths_avoiding(("T", loop), stmt, lambda n: any(n is d for d in dstmts) or n is loop)
            if not stale:
                rep.ok(R11, k, m.site(stmt))
            else:
                outer = [d for d in defs if id(d) not in inside]
                rep.violation(
                    R11,
                    k,
                    m.site(stmt),
                    f"`{short(stmt, 50)}` can be reached from the start of an iteration of `{short(loop, 40)}` without `{nm}` being assigned in that iteration"
                    + (f" (it is only initialised before the loop: `{short(outer[0], 40)}`)" if outer else "")
                    + f": the value found for the previous {'name' if loop is rs.explicit_loop else 'link'} is carried over - e.g. an explicit target without a title inherits the title of the target gathered before it, "
                    "so an empty link to it shows that other title instead of '#name'",
                )

    st = rs.explicit_store
    check(rs.explicit_loop, cfg.stmt_of(st), [st.value, st.targets[0].slice], "the registry entry")
    for sto in rs.refid_stores:
        check(rs.loop, cfg.stmt_of(sto), [sto.value], f"`{short(sto, 40)}`")
    for n in rs.body:
        if rs.is_add_child(n) and isinstance(n, ast.AugAssign):
            lf = rs.lookup_facts(cfg.stmt_of(n))
            branch = "explicit hit" if True in lf["explicit"] else "slug hit" if True in lf["slugs"] else "miss" if (False in lf["explicit"] and False in lf["slugs"]) else "other"
            check(rs.loop, cfg.stmt_of(n), [n.value], f"the {branch} fill-in `{short(n, 40)}`")
    rep.expect_min(R11, 3, "registry entry (id, title) and the refid values")


# ---------------------------------------------------------------------------
# R12 names created by an {eval-rst} block are re-registered with the real document at every depth


@rule("C09.R12")
def r12_eval_rst_names(corpus: Corpus, rep: Report, tier: str):
    R12 = "C09.R12"
    rep.rule(R12, "render_restructuredtext parses into a scratch document whose registry is discarded: every named node of it, at any depth, is re-registered with the real document before its subtrees are moved over")
    base = corpus.mod(BASE)
    f = base.func("DocutilsRenderer.render_restructuredtext")
    rep.saw_function(f.fq)
    scratch = [t.id for n in f.local_nodes() if isinstance(n, ast.Assign) and isinstance(n.value, ast.Call) and (dotted(n.value.func) or "").endswith("make_document") for t in n.targets if isinstance(t, ast.Name)]
    if len(scratch) != 1:
        raise Unsupported(f"{f.qualname}: expected one scratch document (make_document()), found {len(scratch)}")
    sd = scratch[0]
    loops = [n for n in f.local_nodes() if isinstance(n, ast.For) and any(isinstance(c, ast.Call) and isinstance(c.func, ast.Attribute) and c.func.attr == "note_explicit_target" for c in walk_local(n))]
    k = f"{f.fq}|names of nested rST nodes are re-registered with the real document"
    if not loops:
        rep.violation(R12, k, f.site(), f"the names registered in the scratch document `{sd}` are never re-registered with self.document: no `#name` link can reach a target defined in an {{eval-rst}} block")
        return
    for lp in loops:
        it = lp.iter
        deep = any(isinstance(c, ast.Call) and (dotted(c.func) or "").rsplit(".", 1)[-1] in ("findall", "traverse") for c in ast.walk(it))
        if deep and _mentions_name(it, sd):
            rep.ok(R12, k, f.module.site(lp), short(it, 50))
        elif (isinstance(it, ast.Name) and it.id == sd) or (isinstance(it, ast.Attribute) and it.attr == "children" and isinstance(it.value, ast.Name) and it.value.id == sd):
            rep.violation(
                R12,
                k,
                f.module.site(lp),
                f"`{short(lp, 50)}` visits only the direct children of the scratch document, but whole subtrees are moved into the real document: a `.. _inner-label:` target or a `:name:` option nested "
                "inside e.g. `.. note::` is in the doctree with its id, yet document.nametypes/nameids never learn the name and `[b](#inner-label)` is reported as 'target not found'",
            )
        else:
            rep.error(R12, f"{f.module.site(lp)}: re-registration loop over `{short(it, 40)}` not understood")
    rep.expect_min(R12, 1, "the re-registration loop")


RULES = [r1_dispatch, r2_attribute_agreement, r3_loop_paths, r4_key_normalisation, r5_explicit_only, r6_title_extraction, r7_slug_key_fresh, r8_slug_registry_monotone, r9_title_text_sanitised, r10_slug_registry_complete, r11_no_loop_carried_values, r12_eval_rst_names]


# ---------------------------------------------------------------------------
# self-test mutants


def _seg(m, node) -> str:
    return ast.get_source_segment(m.src, node) or ""


def _indent(m, st) -> str:
    line = m.lines[st.lineno - 1]
    return line[: len(line) - len(line.lstrip())]


def mutants(corpus: Corpus):
    out: list = []
    base = corpus.mod(BASE)
    sph = corpus.mod(SPHINX)
    tr = corpus.mod(TR)

    def add(mid, rule_id, m, new_src, expect, canary=False):
        out.append(Mutant(mid, rule_id, m.rel, new_src, expect=expect, canary=canary))

    def hash_if(f):
        return find_node(f, lambda n: isinstance(n, ast.If) and (_startswith(n.test) or (None, ""))[1] == "#")

    # ---- R1 ----------------------------------------------------------------
    rl = base.func("DocutilsRenderer.render_link")
    t = hash_if(rl)
    if t is not None:
        add("c09-hash-dispatch-dropped", R1, base, splice(base.src, t.test, "False"), "render_link|", canary=True)
        c = find_node(rl, lambda n: _self_call(n) == "render_link_anchor")
        if c is not None and len(c.args) > 1:
            add("c09-anchor-arg-stripped", R1, base, splice(base.src, c.args[1], unparse(c.args[1]) + "[1:]"), "must receive")
    else:
        out.append(("c09-hash-dispatch-dropped", "no `if href.startswith('#')` in render_link"))
    c = find_node(rl, lambda n: isinstance(n, ast.Constant) and n.value == "project")
    if c is not None:
        add("c09-project-scheme-renamed", R1, base, splice(base.src, c, '"proj"'), "scheme 'project'")
    for mid, m, q in (("docutils", base, "DocutilsRenderer.render_link_project"), ("sphinx", sph, "SphinxRenderer.render_link_project")):
        f = m.func(q)
        t = hash_if(f)
        if t is not None:
            add(f"c09-project-hash-dispatch-dropped-{mid}", R1, m, splice(m.src, t.test, "False"), q)
        sl = find_node(f, lambda n: isinstance(n, ast.Slice) and isinstance(n.lower, ast.Constant) and n.lower.value == 8)
        if sl is not None:
            add(f"c09-project-strip-off-by-one-{mid}", R1, m, splice(m.src, sl.lower, "7"), "strip prefix")
    # a new early way out that a '#' href can take
    if t is not None:
        f = rl
        t = hash_if(f)
        seg = _seg(base, t)
        add(
            "c09-new-dispatch-before-hash",
            R1,
            base,
            splice(base.src, t, "if not token.children:\n" + _indent(base, t) + "    return self.render_link_unknown(token)\n" + _indent(base, t) + seg),
            "can reach",
        )
    # ---- R2 ----------------------------------------------------------------
    rs = _resolver(corpus)
    ra = base.func("DocutilsRenderer.render_link_anchor")
    c = find_node(ra, lambda n: isinstance(n, ast.Constant) and n.value == rs.gate_key)
    if c is not None:
        add("c09-marker-key-mismatch", R2, base, splice(base.src, c, '"is_id_link"'), "marker attribute", canary=True)
    st = find_node(ra, lambda n: isinstance(n, ast.Expr) and _self_call(n.value) == "add_line_and_source_path")
    if st is not None:
        add("c09-line-not-stamped", R2, base, splice(base.src, st, "pass"), "line stamped")
    w = find_node(ra, lambda n: isinstance(n, ast.Call) and _self_call(n) == "current_node_context" and not n.keywords)
    if w is not None:
        add("c09-reference-attached-twice", R2, base, splice(base.src, w, _seg(base, w)[:-1] + ", append=True)"), "attached")
    d = find_node(rs.fi, lambda n: isinstance(n, ast.Delete))
    if d is not None:
        add("c09-refuri-not-deleted", R2, tr, splice(tr.src, d, "pass"), "deleted when")
    v = rs.target_assign.value
    if isinstance(v, ast.Subscript):
        add("c09-hash-not-stripped", R2, tr, splice(tr.src, v, _seg(tr, v.value)), "strip exactly")
    for mid, fq in (("docutils", "parsers.docutils_:Parser.get_transforms"), ("sphinx", "parsers.sphinx_:MystParser.get_transforms")):
        g = corpus.func(fq)
        lst = find_node(g, lambda n: isinstance(n, ast.List) and any(isinstance(e, ast.Name) and e.id == "ResolveAnchorIds" for e in n.elts))
        if lst is not None:
            keep = [unparse(e) for e in lst.elts if not (isinstance(e, ast.Name) and e.id == "ResolveAnchorIds")]
            add(f"c09-transform-unregistered-{mid}", R2, g.module, splice(g.module.src, lst, "[" + ", ".join(keep) + "]"), g.qualname)
    # ---- R3 ----------------------------------------------------------------
    f = rs.fi

    def member_cmp(if_, reg):
        """the `K in reg` conjunct of an If's hit test"""
        for e_, p_ in facts(if_.test, True):
            if p_ and isinstance(e_, ast.Compare) and len(e_.ops) == 1 and isinstance(e_.ops[0], ast.In) and isinstance(e_.comparators[0], ast.Name) and e_.comparators[0].id == reg:
                return e_
        return None

    def reg_if(reg):
        return find_node(f, lambda n: isinstance(n, ast.If) and any(n is b for b in rs.loop.body) and member_cmp(n, reg) is not None)

    e_if, s_if = reg_if(rs.explicit), reg_if(rs.slugs)

    def fallback_elif(branch):
        """the `elif not refnode.children:` of the text fill inside ``branch``"""
        for n in walk_local(branch):
            if isinstance(n, ast.If) and n is not branch and len(n.orelse) == 1 and isinstance(n.orelse[0], ast.If) and rs.children_facts(n.orelse[0].test, True):
                return n.orelse[0]
        return None

    if e_if is not None:
        fb = fallback_elif(e_if)
        if fb is not None:
            add("c09-explicit-fallback-dropped", R3, tr, splice(tr.src, fb.test, "False"), "explicit: an empty link", canary=True)
        else:
            out.append(("c09-explicit-fallback-dropped", "explicit branch has no elif fallback"))
        cont = find_node(f, lambda n: isinstance(n, ast.Continue) and n in e_if.body)
        if cont is not None:
            add("c09-explicit-continue-dropped", R3, tr, splice(tr.src, cont, "pass"), "the iteration ends")
        stores = [x for x in rs.refid_stores if x in e_if.body]
        if stores:
            add("c09-explicit-refid-not-stored", R3, tr, splice(tr.src, stores[0], "pass"), "reaches an outcome")
    if s_if is not None:
        fb = fallback_elif(s_if)
        if fb is not None:  # F24 repaired: revert the repair
            add("c09-slug-fallback-dropped", R3, tr, splice(tr.src, fb.test, "False"), "slugs: an empty link")
        else:
            out.append(("c09-slug-fallback-dropped", "the slug branch has no '#target' fallback on this tree (F24 unrepaired: C09.R3 fires on the real tree instead)"))
        un = find_node(f, lambda n: isinstance(n, ast.Assign) and isinstance(n.targets[0], ast.Tuple) and n in s_if.body)
        if un is not None and len(un.targets[0].elts) == 3:
            a, b, c3 = (unparse(x) for x in un.targets[0].elts)
            add("c09-slug-refid-wrong-position", R3, tr, splice(tr.src, un.targets[0], f"{b}, {a}, {c3}"), "slugs hit")
    if e_if is not None and s_if is not None and e_if.end_lineno < s_if.lineno:
        se, ss = _seg(tr, e_if), _seg(tr, s_if)
        swapped = splice(splice(tr.src, s_if, se), e_if, ss)
        add("c09-slug-before-explicit", R3, tr, swapped, "explicit lookup dominates")
    if rs.warnings:
        w0 = rs.warnings[0]
        stw = rs.cfg.stmt_of(w0)
        add("c09-miss-warning-dropped", R3, tr, splice(tr.src, stw, "pass"), "miss: number")
        add("c09-miss-warning-twice", R3, tr, splice(tr.src, stw, _seg(tr, stw) + "\n" + _indent(tr, stw) + _seg(tr, stw)), "miss: number")
        ln = kwarg(w0, "line") or kwarg(w0, "node")
        if ln is not None:
            add("c09-warning-line-lost", R3, tr, splice(tr.src, ln, "None"), "link's own line")
        ndk = find_node(f, lambda n: isinstance(n, ast.keyword) and n.arg == "node" and any(n is k_ for k_ in w0.keywords))
        if ndk is not None:  # revert of 498de41: locate the warning by the line number alone
            add("c09-warning-located-by-line-only", R3, tr, splice(tr.src, ndk, f"line={rs.var}.line"), "link's own line")
        else:
            out.append(("c09-warning-located-by-line-only", "the warning is not located by node= on this tree"))
    if rs.replaces:
        call, _ = rs.replaces[0]
        mv = find_node(f, lambda n: isinstance(n, ast.AugAssign) and any(rs._is_children(x) for x in ast.walk(n.value)))
        if mv is not None:
            add("c09-sphinx-children-dropped", R3, tr, splice(tr.src, mv, "pass"), "carries the link's children")
        rx = find_node(f, lambda n: isinstance(n, ast.keyword) and n.arg == "refexplicit")
        if rx is not None:
            add("c09-sphinx-refexplicit-inverted", R3, tr, splice(tr.src, rx.value, f"not {rs.var}.children"), "refexplicit")
        # hand over to Sphinx before the local lookups
        sp_if = None
        for st in rs.loop.body:
            if isinstance(st, ast.If) and any(x is call for x in ast.walk(st)):
                sp_if = st
        if sp_if is not None and e_if is not None and e_if in rs.loop.body and e_if.lineno < sp_if.lineno:
            lines = tr.src.splitlines(keepends=True)
            blk = lines[sp_if.lineno - 1 : sp_if.end_lineno]
            new_lines = lines[: e_if.lineno - 1] + blk + lines[e_if.lineno - 1 : sp_if.lineno - 1] + lines[sp_if.end_lineno :]
            add("c09-sphinx-handover-first", R3, tr, "".join(new_lines), "pending_xref only after")
    # ---- R4 ----------------------------------------------------------------
    ca = base.func("DocutilsRenderer.copy_attributes")
    c = find_node(ca, _is_normaliser(ca))
    if c is not None and c.args:
        add("c09-attr-id-not-normalised", R4, base, splice(base.src, c, _seg(base, c.args[0])), "copy_attributes")
    c = find_node(f, lambda n: _is_normaliser(f)(n) and any(isinstance(x, ast.Name) and x.id == rs.target for x in ast.walk(n)))
    if c is not None and c.args:  # reader repaired: revert the repair
        add("c09-reader-key-raw", R4, tr, splice(tr.src, c, _seg(tr, c.args[0])), "probed with")
    else:
        out.append(("c09-reader-key-raw", "the resolver does not normalise the lookup key on this tree (unrepaired: C09.R4 fires on the real tree instead)"))
    # ---- R5 ----------------------------------------------------------------
    flt = find_node(f, lambda n: isinstance(n, ast.If) and n in rs.explicit_loop.body and isinstance(n.test, ast.UnaryOp) and isinstance(n.test.operand, ast.Name))
    if flt is not None:
        add("c09-implicit-names-enter-registry", R5, tr, splice(tr.src, flt.test, "False"), "flagged explicit", canary=True)
    for mid, q, old, new in (
        ("c09-myst-target-registered-implicit", "DocutilsRenderer.render_myst_target", "note_explicit_target", "note_implicit_target"),
        ("c09-heading-name-registered-explicit", "DocutilsRenderer.generate_heading_target", "note_implicit_target", "note_explicit_target"),
    ):
        g = base.func(q)
        c = find_node(g, lambda n: isinstance(n, ast.Call) and isinstance(n.func, ast.Attribute) and n.func.attr == old)
        if c is not None:
            add(mid, R5, base, splice(base.src, c.func, _seg(base, c.func).replace(old, new)), q.split(".")[1])
    # ---- R1: the 'external' class pre-emption must be a word membership test ---------------------
    ext = find_node(rl, lambda n: isinstance(n, ast.Compare) and isinstance(n.left, ast.Constant) and n.left.value == "external" and isinstance(n.ops[0], ast.In))
    if ext is not None:
        cont = ext.comparators[0]
        if isinstance(cont, ast.Call) and isinstance(cont.func, ast.Attribute) and cont.func.attr == "split":
            add("c09-external-class-substring", R1, base, splice(base.src, cont, _seg(base, cont.func.value)), "substring test")
        add("c09-external-class-substring-get", R1, base, splice(base.src, cont, 'str(token.attrs.get("class", ""))'), "substring test")
        add("c09-external-class-find", R1, base, splice(base.src, ext, 'str(token.attrs["class"]).find("external") >= 0'), "can reach")
    else:
        out.append(("c09-external-class-substring", "no `'external' in ...` test in render_link"))
    # ---- R5: explicit flag ignored (loop over the names only) -------------------------------------
    lp = rs.explicit_loop
    if isinstance(lp.target, ast.Tuple) and len(lp.target.elts) == 2 and isinstance(lp.iter, ast.Call) and flt is not None:
        new_src = splice(tr.src, flt, "pass")
        new_src = splice(new_src, lp.iter, _seg(tr, lp.iter.func.value))  # same line, later column first
        new_src = splice(new_src, lp.target, _seg(tr, lp.target.elts[0]))
        add("c09-explicit-flag-not-read", R5, tr, new_src, "flagged explicit")
        add("c09-explicit-flag-inverted", R5, tr, splice(tr.src, flt.test, lp.target.elts[1].id), "flagged explicit")
    # ---- R6: title extraction on the wrong subject --------------------------------------------------
    self_if = find_node(f, lambda n: isinstance(n, ast.If) and isinstance(n.test, ast.Compare) and isinstance(n.test.left, ast.Attribute) and n.test.left.attr == "tagname" and isinstance(n.test.comparators[0], ast.Constant) and n.test.comparators[0].value == "rubric")
    child_isinst = find_node(
        f,
        lambda n: isinstance(n, ast.Call) and dotted(n.func) == "isinstance" and len(n.args) == 2 and isinstance(n.args[0], ast.Name) and "title" in (_node_classes(f, n.args[1]) or set())
        and any(isinstance(st, ast.For) for _, _, st in _bindings(f, n.args[0].id)),
    )
    if self_if is not None and child_isinst is not None and self_if.end_lineno < child_isinst.lineno:
        folded = splice(tr.src, child_isinst.args[1], _seg(tr, child_isinst.args[1]) + " | nodes.rubric")
        folded = splice(folded, self_if, "pass")
        add("c09-rubric-case-folded-into-children", "C09.R6", tr, folded, "nodes.rubric")
        add("c09-rubric-tagname-wrong", "C09.R6", tr, splice(tr.src, self_if.test.comparators[0], '"title"'), "nodes.rubric")
        add("c09-section-title-case-dropped", "C09.R6", tr, splice(tr.src, child_isinst.args[1], "nodes.caption"), "nodes.section")
    else:
        out.append(("c09-rubric-case-folded-into-children", "rubric self-case / child isinstance not found in this shape"))
    # ---- R7: uniqueness not re-established after the candidate changed --------------------------------
    cus = base.func("compute_unique_slug")
    wl = find_node(cus, lambda n: isinstance(n, ast.While) and isinstance(n.test, ast.Compare) and isinstance(n.test.ops[0], ast.In))
    ret = find_node(cus, lambda n: isinstance(n, ast.Return) and isinstance(n.value, ast.Name))
    if wl is not None and ret is not None:
        seg = _seg(base, wl)
        add("c09-uniquifier-if-instead-of-while", "C09.R7", base, splice(base.src, wl, "if" + seg[len("while"):]), "compute_unique_slug")
        add("c09-uniquifier-bounded-retries", "C09.R7", base, splice(base.src, wl.test, _seg(base, wl.test) + " and i < 10"), "compute_unique_slug")
        x = ret.value.id
        add("c09-slug-truncated-after-uniquifier", "C09.R7", base, splice(base.src, ret, f"{x} = {x}[:64]\n" + _indent(base, ret) + _seg(base, ret)), "compute_unique_slug")
    else:
        out.append(("c09-uniquifier-if-instead-of-while", "no `while cand in slugs` loop in compute_unique_slug"))
    # ---- R2: percent-decoding of the link text (writer or every caller) --------------------------------
    # the writer's decoder: the call around the `target` parameter in the value stored under the URI key
    dec = find_node(ra, lambda n: isinstance(n, ast.Call) and (dotted(n.func) or "").rsplit(".", 1)[-1] in ("unquote", "normalizeLinkText") and n.args and any(isinstance(x, ast.Name) and x.id in ra.params for x in ast.walk(n.args[0])))
    anc = find_node(rl, lambda n: _self_call(n) == "render_link_anchor")
    if dec is not None and dec.args:
        fn_txt = _seg(base, dec.func)
        arg_txt = _seg(base, dec.args[0])
        add("c09-link-text-not-decoded", R2, base, splice(base.src, dec, arg_txt), "percent-decoded")
        if fn_txt.endswith("unquote"):
            # revert of 43662b5: markdown-it's display decoder, which keeps %25 and reserved characters encoded
            add("c09-link-text-display-decoded-only", R2, base, splice(base.src, dec, f"self.md.normalizeLinkText({arg_txt})"), "percent-decoded")
            # partial weakenings of the same obligation
            add("c09-link-text-decoded-for-autolinks-only", R2, base, splice(base.src, dec, f'({fn_txt}({arg_txt}) if token.info == "auto" else self.md.normalizeLinkText({arg_txt}))'), "percent-decoded")
            add("c09-link-text-decoded-unless-percent-sign", R2, base, splice(base.src, dec, f'({arg_txt} if "%25" in {arg_txt} else {fn_txt}({arg_txt}))'), "percent-decoded")
        if anc is not None and len(anc.args) > 1 and anc.lineno < dec.lineno:
            moved = splice(base.src, dec, arg_txt)
            moved = splice(moved, anc.args[1], f"{fn_txt}({_seg(base, anc.args[1])})")
            add("c09-decode-moved-to-one-caller", R2, base, moved, "render_link_project")
            add("c09-link-text-decoded-twice", R2, base, splice(base.src, anc.args[1], f"{fn_txt}({_seg(base, anc.args[1])})"), "decodes it again")
        pj = base.func("DocutilsRenderer.render_link_project")
        anc2 = find_node(pj, lambda n: _self_call(n) == "render_link_anchor")
        if anc2 is not None and len(anc2.args) > 1 and anc2.lineno < dec.lineno:
            moved = splice(base.src, dec, arg_txt)
            moved = splice(moved, anc2.args[1], f"{fn_txt}({_seg(base, anc2.args[1])})")
            add("c09-decode-only-in-project-caller", R2, base, moved, "render_link|")
    else:
        out.append(("c09-link-text-not-decoded", "render_link_anchor does not decode on this tree"))
    # ---- R4: slug registry probed with a normalised key ---------------------------------------------------
    if s_if is not None:
        norm_name = find_node(f, lambda n: isinstance(n, ast.Assign) and isinstance(n.targets[0], ast.Name) and _is_normaliser(f)(n.value))
        scmp = member_cmp(s_if, rs.slugs)
        subs = [n for n in rs.body if isinstance(n, ast.Subscript) and isinstance(n.value, ast.Name) and n.value.id == rs.slugs and isinstance(n.ctx, ast.Load)]
        if norm_name is not None and scmp is not None:
            nm = norm_name.targets[0].id
            edits = sorted([scmp.left] + [x.slice for x in subs], key=lambda x: (x.lineno, x.col_offset), reverse=True)
            both = tr.src
            for x in edits:
                both = splice(both, x, nm)
            add("c09-slug-lookup-normalised", R4, tr, both, "slug registry probe")
        if scmp is not None:
            add("c09-slug-test-lowercased", R4, tr, splice(tr.src, scmp.left, _seg(tr, scmp.left) + ".lower()"), "slug registry probe")
    # ---- R5: registry filled from a table that carries no explicit flag ----------------------------------------
    if isinstance(lp.target, ast.Tuple) and len(lp.target.elts) == 2 and isinstance(lp.iter, ast.Call) and flt is not None and isinstance(lp.iter.func, ast.Attribute):
        recv = lp.iter.func.value
        if isinstance(recv, ast.Attribute) and recv.attr == "nametypes":
            new_src = splice(tr.src, flt, "pass")
            new_src = splice(new_src, lp.iter, _seg(tr, lp.iter).replace("nametypes", "nameids"))
            new_src = splice(new_src, lp.target.elts[1], "_labelid")
            add("c09-registry-from-nameids", R5, tr, new_src, "flagged explicit")
    # ---- R8: the slug registry loses entries during the parse -------------------------------------------------
    nrt = base.func("DocutilsRenderer.nested_render_text")
    snap = None
    rest = None
    for g in base.functions.values():
        if g.qualname.startswith(nrt.qualname) and not g.is_lambda:
            for n in g.local_nodes():
                if isinstance(n, ast.Assign) and isinstance(n.targets[0], ast.Name) and "_level_to_section" in unparse(n.value) and snap is None:
                    snap = n
                if isinstance(n, ast.Assign) and isinstance(n.targets[0], ast.Attribute) and n.targets[0].attr == "_level_to_section" and isinstance(n.value, ast.Name) and rest is None:
                    rest = n
    if snap is not None and rest is not None and snap.lineno < rest.lineno:
        new_src = splice(base.src, rest, _seg(base, rest) + "\n" + _indent(base, rest) + "self._heading_slugs = _saved_slugs")
        new_src = splice(new_src, snap, _seg(base, snap) + "\n" + _indent(base, snap) + "_saved_slugs = dict(self._heading_slugs)")
        add("c09-slug-registry-restored-after-nested-parse", "C09.R8", base, new_src, "_heading_slugs")
    else:
        out.append(("c09-slug-registry-restored-after-nested-parse", "snapshot/restore of _level_to_section not found in nested_render_text"))
    first = nrt.node.body[1] if isinstance(nrt.node.body[0], ast.Expr) and isinstance(nrt.node.body[0].value, ast.Constant) else nrt.node.body[0]
    add("c09-slug-registry-cleared-per-nested-parse", "C09.R8", base, splice(base.src, first, "if temp_root_node is not None:\n" + _indent(base, first) + "    self._heading_slugs.clear()\n" + _indent(base, first) + _seg(base, first)), "_heading_slugs")
    ght = base.func("DocutilsRenderer.generate_heading_target")
    hst = find_node(ght, lambda n: isinstance(n, ast.Assign) and isinstance(n.targets[0], ast.Subscript) and isinstance(n.targets[0].value, ast.Attribute) and n.targets[0].value.attr == "_heading_slugs")
    if hst is not None:
        add("c09-slug-registry-rebound-to-single-entry", "C09.R8", base, splice(base.src, hst, "self._heading_slugs = {" + _seg(base, hst.targets[0].slice) + ": " + _seg(base, hst.value) + "}"), "_heading_slugs")
    # ---- R5: explicit registration made conditional on a table that also holds implicit names ---------------
    for mid, g, doc in (
        ("attr-id", ca, "self.document"),
        ("myst-target", base.func("DocutilsRenderer.render_myst_target"), "self.document"),
        ("name-option", corpus.func("mocking:MockIncludeDirective.add_name"), "self.renderer.document"),
    ):
        w = find_node(g, lambda n: isinstance(n, ast.Expr) and isinstance(n.value, ast.Call) and isinstance(n.value.func, ast.Attribute) and n.value.func.attr == "append" and "names" in unparse(n.value.func.value))
        if w is not None and isinstance(w.value.args[0], ast.Name):
            gm = g.module
            nm = w.value.args[0].id
            add(f"c09-explicit-{mid}-skipped-if-name-taken", R5, gm, splice(gm.src, w, f"if {doc}.nameids.get({nm}) is not None:\n{_indent(gm, w)}    return\n{_indent(gm, w)}{_seg(gm, w)}"), "registration only happens")
    # ---- R7: candidate computed in the return expression ---------------------------------------------------------------
    if wl is not None and ret is not None:
        add("c09-uniquifier-count-based-suffix", "C09.R7", base, splice(base.src, wl, f"if {_seg(base, wl.test)}:\n{_indent(base, wl)}    return f\"{{slug}}-{{sum(1 for s in slugs if s.startswith(slug))}}\""), "freshly computed")
    # ---- R9: a return of clean_astext that bypasses a sanitising step ------------------------------------------------------
    cat = base.func("clean_astext")
    loops = [n for n in cat.local_nodes() if isinstance(n, ast.For)]
    first = _strip_doc(cat.node.body)[0] if _strip_doc(cat.node.body) else None
    if first is not None and len(loops) >= 2:
        ind = _indent(base, first)
        add("c09-title-text-early-exit-without-image", "C09.R9", base, splice(base.src, first, f"if next(iter(findall(node)(nodes.image)), None) is None:\n{ind}    return node.astext()\n{ind}{_seg(base, first)}"), "raw step")
        add("c09-title-text-early-exit-without-raw", "C09.R9", base, splice(base.src, first, f"if not any(True for _ in findall(node)(nodes.raw)):\n{ind}    return node.astext()\n{ind}{_seg(base, first)}"), "image step")
        rawloop = [n for n in loops if "raw" in unparse(n.iter)]
        if rawloop:
            c = find_node(cat, lambda n: isinstance(n, ast.Attribute) and n.attr == "raw" and any(a is rawloop[0] for a in _ancestors(n)))
            if c is not None:
                add("c09-title-text-raw-step-lost", "C09.R9", base, splice(base.src, c, "nodes.comment"), "nodes.raw step")
    else:
        out.append(("c09-title-text-early-exit-without-image", "clean_astext shape not recognised"))
    # ---- R6: the title search stops after the first child ---------------------------------------------------------------
    if child_isinst is not None:
        loop_ = None
        for a in _ancestors(child_isinst):
            if isinstance(a, ast.For):
                loop_ = a
                break
        iff = None
        for a in _ancestors(child_isinst):
            if isinstance(a, ast.If) and a.test is child_isinst or (isinstance(a, ast.If) and any(x is child_isinst for x in ast.walk(a.test))):
                iff = a
                break
        brk = find_node(f, lambda n: isinstance(n, ast.Break) and iff is not None and n in iff.body)
        if loop_ is not None and iff is not None and brk is not None:
            seg = _seg(tr, iff)
            j = seg.rindex("break")
            add("c09-title-search-break-dedented", "C09.R6", tr, splice(tr.src, iff, seg[:j] + "pass" + seg[j + 5 :] + "\n" + _indent(tr, iff) + "break"), "examines every child")
        if loop_ is not None:
            add("c09-title-search-first-child-only", "C09.R6", tr, splice(tr.src, loop_.iter, f"{_seg(tr, loop_.iter)}.children[:1]"), "examines every child")
    # ---- R4: registry keyed by a lossy function of the name -----------------------------------------------------------------
    skey = rs.explicit_store.targets[0].slice
    add("c09-registry-keyed-by-make-id", R4, tr, splice(tr.src, skey, f"nodes.make_id({_seg(tr, skey)})"), "registered name itself")
    nm_call = find_node(f, lambda n: _is_normaliser(f)(n) and any(isinstance(x, ast.Name) and x.id == rs.target for x in ast.walk(n)))
    if nm_call is not None:
        both = splice(tr.src, nm_call.func, "nodes.make_id")
        both = splice(both, skey, f"nodes.make_id({_seg(tr, skey)})")
        add("c09-registry-and-lookup-by-make-id", R4, tr, both, "registered name itself")
    # ---- R10: a heading within the anchor depth is not stored -----------------------------------------------------------------
    dep = find_node(ght, lambda n: isinstance(n, ast.If) and any(isinstance(x, ast.Attribute) and x.attr == "heading_anchors" for x in ast.walk(n.test)))
    if dep is not None:
        add("c09-heading-with-id-gets-no-slug", "C09.R10", base, splice(base.src, dep.test, f"len(node[\"names\"]) > 1 or {_seg(base, dep.test)}"), "depends only on the anchor depth")
        add("c09-rubric-heading-gets-no-slug", "C09.R10", base, splice(base.src, dep.test, f"isinstance(node, nodes.rubric) or {_seg(base, dep.test)}"), "depends only on the anchor depth")
    rh = base.func("DocutilsRenderer.render_heading")
    gc = [n for n in rh.local_nodes() if isinstance(n, ast.Expr) and isinstance(n.value, ast.Call) and _self_call(n.value) == "generate_heading_target"]
    if gc:
        first_call = sorted(gc, key=lambda n: n.lineno)[0]
        add("c09-rubric-path-skips-heading-target", "C09.R10", base, splice(base.src, first_call, "pass"), "is handed to")
    # ---- R2: near-synonyms of `[1:]` that are not equivalent -----------------------------------------------------------------
    if isinstance(v, ast.Subscript):
        inner = _seg(tr, v.value)
        add("c09-hash-lstrip", R2, tr, splice(tr.src, v, f'{inner}.lstrip("#")'), "strip exactly")
        add("c09-hash-split-all", R2, tr, splice(tr.src, v, f'{inner}.split("#")[1]'), "strip exactly")
        add("c09-hash-replace", R2, tr, splice(tr.src, v, f'{inner}.replace("#", "")'), "strip exactly")
    # ---- R1: near-synonyms of the guarded prefix slice ----------------------------------------------------------------------------
    for mid, m_, q in (("docutils", base, "DocutilsRenderer.render_link_project"), ("sphinx", sph, "SphinxRenderer.render_link_project")):
        g = m_.func(q)
        asg = find_node(g, lambda n: isinstance(n, ast.Assign) and isinstance(n.value, ast.Subscript) and isinstance(n.value.slice, ast.Slice) and isinstance(n.value.slice.lower, ast.Constant) and n.value.slice.lower.value == 8)
        if asg is not None:
            add(f"c09-project-prefix-lstrip-{mid}", R1, m_, splice(m_.src, asg.value, f'{_seg(m_, asg.value.value)}.lstrip("project:")'), "strip prefix")
    # ---- R11: a per-iteration value initialised before the loop only -----------------------------------------------------------------
    lp = rs.explicit_loop
    title_elt = rs.explicit_store.value.elts[-1] if isinstance(rs.explicit_store.value, ast.Tuple) else None
    if isinstance(title_elt, ast.Name):
        reset = find_node(f, lambda n: isinstance(n, (ast.Assign, ast.AnnAssign)) and n in lp.body and isinstance(n.value, ast.Constant) and n.value.value is None
                          and any(isinstance(t, ast.Name) and t.id == title_elt.id for t in (n.targets if isinstance(n, ast.Assign) else [n.target])))
        if reset is not None:
            seg = _seg(tr, lp)
            rs_seg = _seg(tr, reset)
            j = seg.index(rs_seg)
            add("c09-title-reset-hoisted-out-of-loop", "C09.R11", tr, splice(tr.src, lp, f"{title_elt.id} = None\n{_indent(tr, lp)}" + seg[:j] + "pass" + seg[j + len(rs_seg):]), "assigned in the same iteration")
        else:
            out.append(("c09-title-reset-hoisted-out-of-loop", "no per-iteration reset of the title variable in the registry loop"))
    idasg = find_node(f, lambda n: isinstance(n, ast.Assign) and n in lp.body and any(isinstance(x, ast.Attribute) and x.attr == "nameids" for x in ast.walk(n.value)) and isinstance(n.targets[0], ast.Name))
    if idasg is not None:
        nm = idasg.targets[0].id
        sub = find_node(f, lambda n: isinstance(n, ast.Subscript) and n is idasg.value)
        if sub is not None:
            add("c09-labelid-conditionally-assigned", "C09.R11", tr, splice(tr.src, idasg, f"if {_seg(tr, sub.slice)} in {_seg(tr, sub.value)}:\n{_indent(tr, idasg)}    {_seg(tr, idasg)}"), "assigned in the same iteration")
    # ---- R3: the slug registry stores something else than the node's registered id -------------------------------------------------------
    if hst is not None and isinstance(hst.value, ast.Tuple):
        ide = [e for e in hst.value.elts if any(isinstance(x, ast.Constant) and x.value == "ids" for x in ast.walk(e))]
        if ide:
            add("c09-slug-registry-stores-recomputed-id", R3, base, splice(base.src, ide[0], "nodes.make_id(name)"), "id docutils assigned")
            add("c09-slug-registry-stores-slug-as-id", R3, base, splice(base.src, ide[0], "slug"), "id docutils assigned")
    # ---- reverts of the round-10 repairs ---------------------------------------------------------------------------------------------
    # 16f967c: the refuri filter applies to every node again
    filt = find_node(f, lambda n: isinstance(n, ast.BoolOp) and isinstance(n.op, ast.And) and any(isinstance(v, ast.Compare) and isinstance(v.left, ast.Constant) and v.left.value == "refuri" for v in n.values)
                     and any(isinstance(v, ast.Call) and dotted(v.func) == "isinstance" for v in n.values))
    if filt is not None:
        cmp_ = [v for v in filt.values if isinstance(v, ast.Compare)][0]
        add("c09-refuri-filter-for-every-node", R5, tr, splice(tr.src, filt, _seg(tr, cmp_)), "'refuri' are dropped")
    else:
        out.append(("c09-refuri-filter-for-every-node", "no class-restricted refuri filter in the registry loop"))
    # 768236e: the pending_xref gets no source/line
    loc = find_node(f, lambda n: isinstance(n, ast.Assign) and any(isinstance(x, ast.Attribute) and x.attr == "line" and isinstance(x.ctx, ast.Store) for t in n.targets for x in ast.walk(t)) and any(n is b for b in rs.body))
    if loc is not None:
        add("c09-pending-xref-without-line", R3, tr, splice(tr.src, loc, "pass"), "source and line")
    else:
        out.append(("c09-pending-xref-without-line", "the pending_xref is not given source/line by an assignment"))
    # the title refresh re-writes the slug registry: layout must be kept
    ref = find_node(f, lambda n: isinstance(n, ast.Assign) and isinstance(n.targets[0], ast.Subscript) and isinstance(n.targets[0].value, ast.Name) and n.targets[0].value.id == rs.slugs and isinstance(n.value, ast.Tuple))
    if ref is not None and len(ref.value.elts) == 3:
        a0, a1, a2 = (_seg(tr, x) for x in ref.value.elts)
        add("c09-title-refresh-swaps-line-and-id", R3, tr, splice(tr.src, ref.value, f"({a1}, {a0}, {a2})"), "keeps the slug registry's layout")
    # the liveness filter must not turn a failed hit into a silent drop: explicit hit test loses its priority role when it tests the link
    if e_if is not None:
        add("c09-explicit-hit-only-for-links-with-text", R3, tr, splice(tr.src, e_if.test, f"{_seg(tr, e_if.test)} and {rs.var}.children"), "explicit lookup dominates")
        # 6e5f09e: a registry entry whose node a directive discarded is not a hit; without the liveness conjunct nothing in C09's
        # rules changes (a value question: is the id in the tree) - no revert mutant, see META.not_decided
    # ---- R9: a sanitising step narrowed to the direct children / removed ----------------------------------------------------------------
    for cls_name in ("system_message", "raw"):
        lp_ = find_node(cat, lambda n: isinstance(n, ast.For) and any(isinstance(x, ast.Attribute) and x.attr == cls_name for x in ast.walk(n.iter)))
        if lp_ is not None and isinstance(lp_.target, ast.Name):
            v_ = lp_.target.id
            prm = cat.params[0]
            add(f"c09-title-text-{cls_name.replace('_', '-')}-step-direct-children-only", "C09.R9", base,
                splice(base.src, lp_, f"for {v_} in [c for c in {prm}.children if isinstance(c, nodes.{cls_name})]:\n{_indent(base, lp_)}    {prm}.remove({v_})"), f"nodes.{cls_name} step")
    sm = find_node(cat, lambda n: isinstance(n, ast.For) and any(isinstance(x, ast.Attribute) and x.attr == "system_message" for x in ast.walk(n.iter)))
    if sm is not None:  # revert of d24bc2f (warnings inside a heading became part of link texts)
        add("c09-title-text-system-message-step-lost", "C09.R9", base, splice(base.src, sm, "pass"), "nodes.system_message step")
    else:
        out.append(("c09-title-text-system-message-step-lost", "clean_astext has no system_message step on this tree"))
    # ---- R5: a registry written while the links are resolved ------------------------------------------------------------------------------
    if s_if is not None:
        sto = [x for x in rs.refid_stores if any(x is b for b in s_if.body)]
        key_name = find_node(f, lambda n: isinstance(n, ast.Assign) and isinstance(n.targets[0], ast.Name) and _is_normaliser(f)(n.value) and any(n is b for b in rs.loop.body))
        if sto and isinstance(sto[0].value, ast.Name) and key_name is not None:
            kn, idv = key_name.targets[0].id, sto[0].value.id
            ind = _indent(tr, sto[0])
            add("c09-slug-hit-memoised-as-explicit", R5, tr, splice(tr.src, sto[0], f"{rs.explicit}[{kn}] = ({idv}, None)\n{ind}{_seg(tr, sto[0])}"), "is not written while links are resolved")
            add("c09-slug-hit-setdefault-into-explicit", R5, tr, splice(tr.src, sto[0], f"{rs.explicit}.setdefault({kn}, ({idv}, None))\n{ind}{_seg(tr, sto[0])}"), "is not written while links are resolved")
    miss_store = [x for x in rs.refid_stores if any(x is b for b in rs.loop.body)]
    if miss_store:
        ind = _indent(tr, miss_store[0])
        add("c09-missing-target-remembered-in-slugs", R5, tr, splice(tr.src, miss_store[0], f"{_seg(tr, miss_store[0])}\n{ind}{rs.slugs}[{rs.target}] = (None, {rs.var}[\"refid\"], \"\")"), "is not written while links are resolved")
    # ---- R6: the walk from a labelled list down to its term / field name ----------------------------------------------------------------------
    descents = [n for n in walk_local(rs.explicit_loop) if isinstance(n, ast.If) and len(n.body) == 1 and isinstance(n.body[0], ast.Assign) and isinstance(n.body[0].value, ast.Subscript)
                and isinstance(n.body[0].value.slice, ast.Constant) and n.body[0].value.slice.value == 0 and not n.orelse]
    descents.sort(key=lambda n: n.lineno)
    if len(descents) >= 2:
        d1, d2 = descents[0], descents[1]
        add("c09-title-walk-second-descent-exclusive", "C09.R6", tr, splice(tr.src, d2, "el" + _seg(tr, d2)), "is its first nodes.")
        cls2 = find_node(f, lambda n: isinstance(n, ast.Attribute) and n.attr == "definition_list_item" and any(a is d2 for a in _ancestors(n)))
        if cls2 is not None:
            add("c09-title-walk-item-class-dropped", "C09.R6", tr, splice(tr.src, cls2, "nodes.field"), "labelled nodes.definition_list")
        add("c09-title-walk-descends-to-last-child", "C09.R6", tr, splice(tr.src, d2.body[0].value.slice, "-1"), "is its first nodes.")
    else:
        out.append(("c09-title-walk-second-descent-exclusive", "the two `node = node[0]` descents were not found in this shape"))
    # ---- R6: the title search widened from the children to all descendants -----------------------------------------------------------------
    tloop = None
    if child_isinst is not None:
        for a in _ancestors(child_isinst):
            if isinstance(a, ast.For):
                tloop = a
                break
    if tloop is not None:
        add("c09-title-search-over-all-descendants", "C09.R6", tr, splice(tr.src, tloop.iter, f"findall({_seg(tr, tloop.iter)})(nodes.Element)"), "direct children of the target node only")
        add("c09-title-search-traverse-descendants", "C09.R6", tr, splice(tr.src, tloop.iter, f"{_seg(tr, tloop.iter)}.findall(nodes.Titular)"), "direct children of the target node only")
    return out
