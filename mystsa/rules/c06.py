"""C06 - nested parsing is transparent: one engine, sibling fences, node context, restored state, result fields, text conservation."""

from __future__ import annotations

import ast

from ..callgraph import get_callgraph
from ..corpus import (
    AnchorMissing,
    Corpus,
    FunctionInfo,
    Unsupported,
    ancestors,
    calls_in,
    dotted,
    kwarg,
    parent,
    short,
    splice,
    unparse,
    walk_local,
)
from ..flow import get_cfg
from ..mutant import Mutant
from ..report import Report
from .common import find_node, rule

PROP = "C06"
READY = False
TECHNIQUE = "call-site, data-flow and path rules over AST/CFG/call graph: engine confinement, sibling-expression comparison with helper/record inlining, context-manager nesting, save/restore pairing, marker path coverage, keyword/field flow, taint of the inserted text, rule-name catalogue from library sources"

META = {
    "explanation": (
        "Structural necessary conditions of transparent nested parsing, decided over syntax trees, CFGs and the call graph. "
        "R1 one engine: inside render code (everything reachable from DocutilsRenderer.render) markdown-it is entered only in "
        "nested_render_text, on the renderer's own parser (self.md), with the shared environment (self.md_env) and the text "
        "parameter; the inline flag selects parseInline; a block parse of nested text runs with the front-matter rule disabled "
        "(inside a reset_rules() context, rule name checked against the library's block rules) unless the caller declares the "
        "text a whole file, which only callers whose text is read from a file may do - and the value they pass must be false under "
        "every option that can cut the beginning off that text (a re-binding of the text or its lines to a slice with a lower "
        "bound; the option is named by the statement's guard or read by the bound's definition, also through helper returns): "
        "only the real beginning of a file can be front matter, and the start index that test reads is normalised "
        "(`slice(a, b).indices(len(X))`) against the uncut list of the file's lines; no second engine is built and render() is "
        "not re-entered; md/md_env "
        "are bound once from the constructor/setup_render parameters, and nothing markdown-it registered in md_env is taken out "
        "again, and every path to _render_tokens passes a tokenisation made in the same call (tokens cached by text are not the "
        "tokens of that text at a later place: the parse reads and writes md_env) (no clear/popitem, pop/del only of the keys MyST stores itself - a snapshot restored after a nested render loses "
        "the reference definitions and footnotes registered in between); _render_tokens is reached only from render and "
        "nested_render_text (or helpers only they call); the mocks' nested entry points hand the text they were given to "
        "nested_render_text in the parsing mode (block/inline) of the docutils contract. "
        "R2 sibling fences: render_fence and render_colon_fence derive (name, arguments) from token.info by the same operations "
        "(locals by kill-aware reaching definitions, tuple unpacking, straight-line helpers, classmethods and NamedTuple/dataclass "
        "records are inlined), guard the "
        "shared `{name}` route by the same test, hand over their own, unmodified token, and render_directive forwards "
        "name/arguments/token.content to run_directive under the matching parameters. "
        "R3 node context: MockState.nested_parse renders beneath its node argument (not appended), MockInliner.parse into a "
        "fresh container whose children it returns, include and substitution in place, the div into a fresh appended container; "
        "current_node_context appends (under its flag) before switching, switches, and restores the saved node; the transform "
        "that hides nested transitions from docutils' Transitions leaves a transition visible only when climbing `.parent` "
        "through every section ancestor ends at the document (a `while` over sections, not a test of the direct parent); a loop "
        "that relocates system messages next to a title/caption collects them from that node only, not from the directive's "
        "whole output. "
        "R4 state: every piece of renderer/document/env state changed around a nested render is put back to the value saved "
        "before it (the restore runs at least whenever the change ran, and only where the saved value exists) - in the context "
        "manager entered around _render_tokens (closure or method; followed through helpers) and in "
        "the try/finally of the include mock (in run() itself or in a context manager it enters; restore by assignment of the "
        "saved local, by swapping the mapping back, or by update() from a snapshot); an option-driven env setting of the include "
        "(relative-images, relative-docs) is overridden only on the path where the include carries that option - otherwise the "
        "value set by the enclosing include is kept; the in-progress markers of the "
        "re-entrant renders (include stack, substitution reference set) are removed on every return/exception path after their "
        "insertion, and their keys are not computed relative to state that the same code swaps for the nested render, nor "
        "reduced to a file name. "
        "R5 result fields: the fields of DirectiveParsingResult reach the directive constructor, the include mock and "
        "parse_directive_block under the matching keyword/position (arguments/options by provenance: the value is the field or is "
        "computed from that field alone, e.g. with defaults merged underneath); the construction sites are followed into helpers that "
        "receive the parsing result (parameter names substituted, two levels). "
        "R6 text conservation: on every data-flow path from the inserted text (directive content, block handed to nested_parse / "
        "inliner.parse, text read for an include, value rendered by the substitution template) to the nested parse no "
        "character-changing operation (strip family, expandtabs, replace, dedent, escape, re.sub ..., and a universal-newline "
        "line split - str.splitlines() or a helper that does it - which turns form feed, \\x1c-\\x1e, \\x85, U+2028/9 into line "
        "ends once the pieces are re-joined; a split at '\\n' only, direct or through a helper recognised by what it does, is "
        "the accepted form) is applied - followed "
        "through package helpers the text passes through (parameters bound to the carrying arguments; tuple elements, record "
        "fields and `return helper(...)` delegation tracked individually, so that e.g. dedent() of the option block does not "
        "count against the body) - uses whose "
        "result is only tested, or whose statement cannot reach the nested parse on any path (a branch that returns first), "
        "are ignored - and the Jinja environment used for substitutions (built in the function, a helper or "
        "an instance attribute or a module constant; plain or sandboxed) has no autoescape/finalize; removing exactly a leading "
        "byte order mark is not a change of the text, and the included file's text must pass such a removal (or be read as "
        "utf-8-sig), as docutils' input layer does for the document itself; every statement that takes a ':'-line off the front of "
        "the content into the option block is guarded by a test on that line which excludes a line opening a ':::' fence "
        "(startswith tests, a predicate helper, or a regex - literal, local or module constant - read through re._parser: a colon "
        "after optional blanks followed by a negative lookahead for more colons); MockState.block_quote, which nested-parses only "
        "a prefix of its lines, hands a tail slice of the same lines to a rendering call, and takes attribution continuation "
        "lines only while the line is not blank. "
        "R7 rule lookups: a test '<rule>' in md.get_active_rules()[<chain>] names a rule that markdown-it or a configured plugin "
        "registers on that chain (catalogue read from the library sources); a rule looked up in the wrong chain is a constant test. "
        "R8 input limits: a per-line limit that the docutils front end checks on the document text (settings.line_length_limit) "
        "is also consulted by the include mock for the text of an included file (today it is not: known finding). "
        "R1 also reads the DEFAULT of the front-matter parameter for callers that leave it out (a truthy default makes every such "
        "caller - substitution, div - accept front matter). "
        "R9 cut order: the include mock selects :start-after: / :end-before: in one loop over the option names, each pass searching "
        "the text as cut so far; the element selecting the cut of the beginning precedes every element selecting the cut of the end, "
        "so that the end text is looked for after the start text (as docutils' Include does)."
    ),
    "not_decided": (
        "Node-for-node equality of render(W(X)) and render(X) (needs the trees). Known to fail by construction and NOT reported: "
        "reference definitions ([foo]: url) first met during a nested parse are registered in md_env after markdown-it has "
        "finished the inline pass of the outer document, so they are usable only from text nested-parsed later, never from "
        "top-level text. The option-block syntax makes bodies that start with ':' or '---' ambiguous. Not modelled: text "
        "transformations hidden in helpers more than two calls deep or in third-party directives, slicing that drops characters (it cannot be "
        "told from the start/end options of include), lossy marker keys other than relpath/relative_to/basename/.name/.stem, "
        "exceptions raised by statements outside a try (the CFG has exception edges only inside try bodies), `{eval-rst}` being "
        "dispatched by the back-tick fence only (its body is rST, outside the property's wrappers). Whether an option block is "
        "looked for at all (truthiness vs None test of option_spec) and where the option block ends (the terminator regex and the "
        "slice after it) belong to the directive-text split and are decided by C08.R4 / C08.R6, not here. That a thematic break "
        "nested in a block quote / list item / directive body survives docutils' Transitions transform in place (repair 2ea1b0a: "
        "HideNestedTransitions registered before Transitions in both front ends) is the subject of C03.R1 / C01.R17, which model "
        "that repair; C06.R3 adds only the obligation that the hider climbs through section ancestors (81b6fce)."
    ),
    "trusted_base": [
        "CPython ast",
        "engine call graph special edges (directive run -> mock callbacks)",
        "docutils Directive constructor keyword names and the nested_parse/inliner.parse/parse_directive_block contracts",
        "markdown-it / mdit-py-plugins sources as installed (rule tables and ruler registrations, parsed not imported)",
        "tables in the module: character-changing str methods/functions, predicate uses, marker insert/removal methods",
    ],
    "assumptions": [
        "markdown-it's parse/parseInline register reference definitions and footnotes in the env mapping they are given",
        "third-party directives call state.nested_parse / state.inline_text as docutils documents them",
        "jinja2 returns the value of `{{ expr }}` unchanged unless autoescape/finalize are configured",
    ],
}

RENDERER = "mdit_to_docutils.base:DocutilsRenderer"
ENV_CLASSES = ("jinja2.Environment", "jinja2.environment.Environment", "jinja2.sandbox.SandboxedEnvironment", "jinja2.sandbox.ImmutableSandboxedEnvironment")
ENGINE_METHODS = ("parse", "parseInline", "render", "renderInline")


# ---------------------------------------------------------------------------
# small data-flow helpers (kept local to this module)


def _pos_params(fi: FunctionInfo) -> list[str]:
    a = fi.node.args
    names = [x.arg for x in a.posonlyargs + a.args]
    if names and names[0] in ("self", "cls"):
        names = names[1:]
    return names


def _callee_param_index(callee: FunctionInfo, call: ast.Call) -> dict[int, ast.expr]:
    """Map the call's arguments to the callee's positional-parameter indexes (self excluded);
    keyword-only parameters are returned under their name."""
    names = _pos_params(callee)
    out: dict = {}
    for i, a in enumerate(call.args):
        if isinstance(a, ast.Starred):
            raise Unsupported(f"starred argument in {short(call, 60)}")
        out[i] = a
    for kw in call.keywords:
        if kw.arg is None:
            raise Unsupported(f"**kwargs in {short(call, 60)}")
        if kw.arg in names:
            out[names.index(kw.arg)] = kw.value
        else:
            out[kw.arg] = kw.value
    return out


def _local_defs(fi: FunctionInfo, name: str) -> list[tuple[ast.stmt, ast.expr]]:
    """(statement, value) pairs that bind local ``name`` (Assign/AnnAssign/AugAssign/for/with)."""
    out = []
    for n in fi.local_nodes():
        if isinstance(n, ast.Assign):
            for t in n.targets:
                for leaf in ast.walk(t):
                    if isinstance(leaf, ast.Name) and leaf.id == name and isinstance(leaf.ctx, ast.Store):
                        out.append((n, n.value))
        elif isinstance(n, ast.AnnAssign) and isinstance(n.target, ast.Name) and n.target.id == name and n.value is not None:
            out.append((n, n.value))
        elif isinstance(n, ast.AugAssign) and isinstance(n.target, ast.Name) and n.target.id == name:
            out.append((n, n.value))
        elif isinstance(n, ast.For):
            for leaf in ast.walk(n.target):
                if isinstance(leaf, ast.Name) and leaf.id == name:
                    out.append((n, n.iter))
        elif isinstance(n, ast.withitem) and n.optional_vars is not None:
            for leaf in ast.walk(n.optional_vars):
                if isinstance(leaf, ast.Name) and leaf.id == name:
                    out.append((parent(n), n.context_expr))
    return out


def _derives(expr: ast.expr, fi: FunctionInfo, pred) -> bool:
    """Does ``expr`` (through the definitions of the locals it mentions) contain a node satisfying ``pred``?"""
    seen: set[str] = set()
    work: list[ast.AST] = [expr]
    while work:
        e = work.pop()
        for n in ast.walk(e):
            if pred(n):
                return True
            if isinstance(n, ast.Name) and n.id not in seen:
                seen.add(n.id)
                for _, v in _local_defs(fi, n.id):
                    work.append(v)
    return False


def _derives_from_param(expr: ast.expr, fi: FunctionInfo, pname: str) -> bool:
    return _derives(expr, fi, lambda n: isinstance(n, ast.Name) and n.id == pname and isinstance(n.ctx, ast.Load))


def _deref(e: ast.expr | None, fi: FunctionInfo, depth: int = 0) -> ast.expr | None:
    """Follow simple local aliases (``x = <expr>`` bound exactly once, not a parameter)."""
    while isinstance(e, ast.Name) and e.id not in fi.params and depth < 6:
        defs = _local_defs(fi, e.id)
        if len(defs) != 1 or not (isinstance(defs[0][0], ast.Assign) and len(defs[0][0].targets) == 1):
            break
        tgt, val = defs[0][0].targets[0], defs[0][1]
        if isinstance(tgt, ast.Name):
            e = val
        elif isinstance(tgt, ast.Tuple) and isinstance(val, ast.Tuple) and len(tgt.elts) == len(val.elts) and all(isinstance(x, ast.Name) for x in tgt.elts):
            e = val.elts[[x.id for x in tgt.elts].index(e.id)]  # a, b = x, y
        else:
            break
        depth += 1
    return e


def _reaching_def(fi: FunctionInfo, name: str, use_stmt):
    """(statement, value) of the only simple ``name = value`` that reaches ``use_stmt`` - a later definition kills an
    earlier one (``x = f(); x = x.strip()``) - or None when it is not unique / not a plain assignment."""
    defs = _local_defs(fi, name)
    if not defs:
        return None
    cfg = get_cfg(fi)
    def_stmts = [st for st, _ in defs]
    reaching = []
    for st, v in defs:
        others = {id(x) for x in def_stmts if x is not st and x is not use_stmt}
        if st is use_stmt:
            if st in cfg.loops:
                return None  # inside a loop the statement's own definition reaches its right-hand side: not modelled
            continue
        if not cfg.paths_avoiding(st, use_stmt, lambda n: id(n) in others):
            continue
        if isinstance(st, ast.Assign) and len(st.targets) == 1 and isinstance(st.targets[0], ast.Tuple) and all(isinstance(x, ast.Name) for x in st.targets[0].elts):
            # a, b = f(x)  ->  a is f(x)[0]
            idx = [x.id for x in st.targets[0].elts].index(name)
            v = ast.Subscript(v, ast.Constant(idx), ast.Load())
        elif not (isinstance(st, ast.Assign) and len(st.targets) == 1 and isinstance(st.targets[0], ast.Name)):
            return None  # loops / with-as / augmented assignment reach the use
        reaching.append((st, v))
    if len(reaching) == 1 and cfg.dominates(reaching[0][0], use_stmt):
        return reaching[0]
    return None


def _reaching_single_def(fi: FunctionInfo, name: str, use_stmt) -> ast.expr | None:
    r = _reaching_def(fi, name, use_stmt)
    return r[1] if r is not None else None


class _Inliner(ast.NodeTransformer):
    def __init__(self, fi: FunctionInfo, use_stmt, tokname: str | None, depth: int = 0):
        self.fi, self.use_stmt, self.tok, self.depth = fi, use_stmt, tokname, depth

    def visit_Name(self, n: ast.Name):
        if self.tok is not None and n.id == self.tok:
            return ast.Name("TOKEN", ast.Load())
        if n.id in self.fi.params or self.depth > 8:
            return n
        r = _reaching_def(self.fi, n.id, self.use_stmt)
        if r is None or r[0] is self.use_stmt:
            return n
        fresh = ast.parse(unparse(r[1]), mode="eval").body
        # names inside the defining expression are resolved at the defining statement
        return _Inliner(self.fi, r[0], self.tok, self.depth + 1).visit(fresh)

    def visit_IfExp(self, n: ast.IfExp):
        self.generic_visit(n)
        # ``X.strip() if X else ""``  ==  ``(X or "").strip()``  (methods that map "" to "")
        b = n.body
        if (
            isinstance(n.orelse, ast.Constant)
            and n.orelse.value == ""
            and isinstance(b, ast.Call)
            and isinstance(b.func, ast.Attribute)
            and b.func.attr in ("strip", "lstrip", "rstrip", "lower", "upper", "casefold")
            and unparse(b.func.value) == unparse(n.test)
        ):
            b.func.value = ast.BoolOp(ast.Or(), [n.test, ast.Constant("")])
            return b
        return n

    def visit_Subscript(self, n: ast.Subscript):
        self.generic_visit(n)
        if isinstance(n.value, (ast.Tuple, ast.List)) and isinstance(n.slice, ast.Constant) and isinstance(n.slice.value, int) and 0 <= n.slice.value < len(n.value.elts):
            return n.value.elts[n.slice.value]  # (a, b)[0] -> a
        return n

    def visit_Attribute(self, n: ast.Attribute):
        self.generic_visit(n)
        fields = getattr(n.value, "_c06_fields", None)
        if isinstance(n.value, ast.Tuple) and fields and n.attr in fields:
            return n.value.elts[fields.index(n.attr)]  # Record(a, b).first -> a
        return n

    def visit_Call(self, n: ast.Call):
        self.generic_visit(n)
        rec = _record_fields(n, self.fi)
        if rec is not None:
            fields, vals = rec
            t = ast.Tuple([vals[f] for f in fields], ast.Load())
            t._c06_fields = fields  # type: ignore[attr-defined]
            return t
        h = _simple_helper(n, self.fi)
        if h is not None and self.depth <= 8:
            helper, ret, binding = h
            fresh = ast.parse(unparse(ret), mode="eval").body
            fresh = _Subst(binding).visit(fresh)
            return _Inliner(self.fi, self.use_stmt, None, self.depth + 1).visit(fresh)
        # canonical spelling of str.split arguments
        if isinstance(n.func, ast.Attribute) and n.func.attr == "split":
            sep = n.args[0] if n.args else kwarg(n, "sep")
            mx = n.args[1] if len(n.args) > 1 else kwarg(n, "maxsplit")
            kws = []
            if sep is not None and not (isinstance(sep, ast.Constant) and sep.value is None):
                kws.append(ast.keyword("sep", sep))
            if mx is not None:
                kws.append(ast.keyword("maxsplit", mx))
            n.args, n.keywords = [], kws
        return n


class _Subst(ast.NodeTransformer):
    def __init__(self, binding: dict[str, ast.expr]):
        self.b = binding

    def visit_Name(self, n: ast.Name):
        if n.id in self.b:
            return ast.parse(unparse(self.b[n.id]), mode="eval").body
        return n


def _record_fields(call: ast.Call, fi: FunctionInfo):
    """(field names, {field: value}) when ``call`` constructs a package NamedTuple/dataclass with every field given."""
    f = call.func
    if not (isinstance(f, ast.Name) and f.id in fi.module.classes):
        return None
    ci = fi.module.classes[f.id]
    is_record = any(b.split(".")[-1] == "NamedTuple" for b in ci.bases) or any((dotted(d.func if isinstance(d, ast.Call) else d) or "").split(".")[-1] == "dataclass" for d in ci.node.decorator_list)
    if not is_record or "__new__" in ci.methods or "__init__" in ci.methods:
        return None
    fields = [st.target.id for st in ci.node.body if isinstance(st, ast.AnnAssign) and isinstance(st.target, ast.Name)]
    vals: dict[str, ast.expr] = {}
    for i, a in enumerate(call.args):
        if isinstance(a, ast.Starred) or i >= len(fields):
            return None
        vals[fields[i]] = a
    for k in call.keywords:
        if k.arg is None or k.arg not in fields:
            return None
        vals[k.arg] = k.value
    if set(vals) != set(fields) or not fields:
        return None
    return fields, vals


_CORPUS: Corpus | None = None  # the corpus under analysis (set on entry of every rule / of mutants())


def _use(corpus: Corpus) -> None:
    global _CORPUS
    _CORPUS = corpus


def _package_callee(call: ast.Call, fi: FunctionInfo) -> FunctionInfo | None:
    """The single package function a ``self.m(...)`` / ``f(...)`` call resolves to (by name; the call may be a re-parsed copy)."""
    mod = fi.module
    f = call.func
    if isinstance(f, ast.Attribute) and isinstance(f.value, ast.Name) and f.value.id == "self":
        owner = fi
        while owner is not None and owner.cls is None:
            owner = owner.parent_func
        if owner is not None and f.attr in owner.cls.methods:
            return owner.cls.methods[f.attr]
        return None
    if isinstance(f, ast.Name) and f.id in mod.functions:
        return mod.functions[f.id]
    if isinstance(f, ast.Name) and f.id in mod.imports and _CORPUS is not None and not _local_defs(fi, f.id) and f.id not in fi.params:
        # a function imported from another module of the package
        full = mod.imports[f.id]
        modname, _, attr = full.rpartition(".")
        m2 = _CORPUS.modules.get(modname)
        if m2 is not None and attr in m2.functions:
            return m2.functions[attr]
    if isinstance(f, ast.Attribute) and isinstance(f.value, ast.Name) and f.value.id in mod.classes and f.attr in mod.classes[f.value.id].methods:
        return mod.classes[f.value.id].methods[f.attr]
    return None


def _simple_helper(call: ast.Call, fi: FunctionInfo):
    """(helper, return expression with its locals inlined, parameter binding) for a straight-line helper."""
    helper = _package_callee(call, fi)
    if helper is None or helper.is_lambda or helper.fq == fi.fq:
        return None
    body = [st for st in helper.node.body if not (isinstance(st, ast.Expr) and isinstance(st.value, ast.Constant))]
    if not body or not isinstance(body[-1], ast.Return) or body[-1].value is None:
        return None
    if not all(isinstance(st, ast.Assign) and len(st.targets) == 1 and isinstance(st.targets[0], ast.Name) for st in body[:-1]):
        return None
    if any(k.arg is None for k in call.keywords) or any(isinstance(a, ast.Starred) for a in call.args):
        return None
    names = _pos_params(helper)
    binding: dict[str, ast.expr] = {}
    for i, a in enumerate(call.args):
        if i >= len(names):
            return None
        binding[names[i]] = a
    for k in call.keywords:
        binding[k.arg] = k.value
    if set(names) - set(binding):
        return None  # defaults: not modelled
    if "classmethod" in helper.decorators() and helper.cls is not None and helper.node.args.args:
        binding[helper.node.args.args[0].arg] = ast.Name(helper.cls.name, ast.Load())
    ret = _Inliner(helper, body[-1], None).visit(ast.parse(unparse(body[-1].value), mode="eval").body)
    return helper, ret, binding


def _opaque_calls(e: ast.AST | None, fi: FunctionInfo) -> list[str]:
    """Package calls left un-inlined and local names left unresolved in an inlined expression."""
    if e is None:
        return []
    out = []
    for n in ast.walk(e):
        if isinstance(n, ast.Call) and _package_callee(n, fi) is not None:
            out.append(unparse(n.func) + "()")
        elif isinstance(n, ast.Attribute) and isinstance(n.value, ast.Tuple):
            out.append(f"<record>.{n.attr}()")  # a property/method of a record that was not inlined
        elif isinstance(n, ast.Name) and n.id not in ("TOKEN", "self") and n.id not in fi.params and _local_defs(fi, n.id):
            out.append(n.id)
    return out


def _inlined(expr: ast.expr, fi: FunctionInfo, use_stmt, tokname: str | None) -> ast.expr:
    fresh = ast.parse(unparse(expr), mode="eval").body
    out = _Inliner(fi, use_stmt, tokname).visit(fresh)
    return ast.fix_missing_locations(out)


def _atoms(e: ast.AST) -> list[str]:
    """Operations applied in an expression: method calls with arguments, subscript indexes, constants."""
    out = []
    for n in ast.walk(e):
        if isinstance(n, ast.Call) and isinstance(n.func, ast.Attribute):
            out.append(f".{n.func.attr}({', '.join([unparse(a) for a in n.args] + [f'{k.arg}={unparse(k.value)}' for k in n.keywords])})")
        elif isinstance(n, ast.Call):
            out.append(f"{unparse(n.func)}()")
        elif isinstance(n, ast.Subscript):
            out.append(f"[{unparse(n.slice)}]")
        elif isinstance(n, ast.Constant):
            out.append(repr(n.value))
        elif isinstance(n, ast.Compare):
            out.append("cmp:" + ",".join(type(o).__name__ for o in n.ops))
    return sorted(out)


def _renderer_classes(corpus: Corpus):
    base = corpus.cls(RENDERER)
    return [base] + corpus.subclasses(base)


def _is_renderer_method(fi: FunctionInfo, corpus: Corpus) -> bool:
    f = fi
    while f is not None and f.cls is None:
        f = f.parent_func
    return f is not None and any(f.cls.fq == c.fq for c in _renderer_classes(corpus))


def _fn_calls(fi: FunctionInfo) -> list[ast.Call]:
    return calls_in(fi.node, into_lambdas=False) if not fi.is_lambda else calls_in(fi.node.body)


def _render_code(corpus: Corpus) -> dict:
    """Functions reachable from the renderer's ``render`` (the code that runs while a document is rendered)."""

    def compute():
        g = get_callgraph(corpus)
        entries = corpus.method_impls(corpus.cls(RENDERER), "render")
        if not entries:
            raise AnchorMissing("DocutilsRenderer.render")
        return g.reachable(entries)

    return corpus.cache("c06-render-code", compute)


# ---------------------------------------------------------------------------
# R1 one engine


def _module_const(fi: FunctionInfo, name: str, corpus: Corpus) -> ast.expr | None:
    """Value of a module-level constant visible under ``name`` in the module of ``fi`` (own or imported from the package)."""
    m = fi.module
    if name in m.const_nodes:
        return m.const_nodes[name]
    full = m.imports.get(name)
    if full and "." in full:
        modname, _, attr = full.rpartition(".")
        m2 = corpus.modules.get(modname)
        if m2 is not None and attr in m2.const_nodes:
            return m2.const_nodes[attr]
    return None


def _owner_class(fi: FunctionInfo):
    f = fi
    while f is not None and f.cls is None:
        f = f.parent_func
    return f.cls if f is not None else None


def _self_attr_values(fi: FunctionInfo, attr: str, corpus: Corpus) -> list[ast.expr]:
    """Every value the class of ``fi`` (and its package bases/subclasses) binds to ``self.<attr>``."""
    ci = _owner_class(fi)
    if ci is None:
        return []
    out = []
    for c in {x.fq: x for x in corpus.mro(ci) + corpus.subclasses(ci)}.values():
        for m in c.methods.values():
            for n in m.local_nodes():
                tgt = val = None
                if isinstance(n, ast.Assign) and len(n.targets) == 1:
                    tgt, val = n.targets[0], n.value
                elif isinstance(n, ast.AnnAssign) and n.value is not None:
                    tgt, val = n.target, n.value
                if isinstance(tgt, ast.Attribute) and isinstance(tgt.value, ast.Name) and tgt.value.id == "self" and tgt.attr == attr:
                    out.append(val)
    return out


def _receiver_kind(call: ast.Call, fi: FunctionInfo, corpus: Corpus) -> tuple[str, str]:
    """Classify the receiver of ``recv.parse/parseInline/render/renderInline(...)``.

    -> (kind, detail); kind in markdown-it | renderer | package-class | super | jinja | unknown
    """
    g = get_callgraph(corpus)
    recv = call.func.value
    d = dotted(recv) or ""
    if d == "super()":
        return "super", "base-class method"
    if d.endswith(".md") or d == "md":
        return "markdown-it", d
    t = g.expr_type(recv, fi)
    if t is not None and t[0] in ("is", "type"):
        if any(t[1].fq == c.fq for c in _renderer_classes(corpus)):
            return "renderer", t[1].name
        return "package-class", t[1].name
    # annotated parameter
    f = fi
    while f is not None:
        a = f.node.args
        for x in a.posonlyargs + a.args + a.kwonlyargs:
            if isinstance(recv, ast.Name) and x.arg == recv.id and x.annotation is not None:
                ann = unparse(x.annotation).strip("'\"")
                if ann.split(".")[-1] == "MarkdownIt":
                    return "markdown-it", f"parameter {x.arg}: MarkdownIt"
        f = f.parent_func

    def origin(n: ast.AST, depth: int = 0) -> str | None:
        if isinstance(n, ast.Attribute) and isinstance(n.value, ast.Name) and n.value.id == "self" and n.attr != "md" and depth < 3:
            # self.<attr>: classified by what the class binds to it
            kinds_ = {origin(x, depth + 1) for v in _self_attr_values(fi, n.attr, corpus) for x in ast.walk(v)} - {None}
            if len(kinds_) == 1:
                return kinds_.pop()
        if isinstance(n, ast.Name) and depth < 3 and not _local_defs(fi, n.id) and n.id not in fi.params:
            cv = _module_const(fi, n.id, corpus)
            if cv is not None:
                kinds_ = {origin(x, depth + 1) for x in ast.walk(cv)} - {None}
                if len(kinds_) == 1:
                    return kinds_.pop()
        if isinstance(n, ast.Call):
            full = fi.module.resolve(dotted(n.func) or "")
            if full.endswith("parsers.mdit.create_md_parser") or full in ("markdown_it.MarkdownIt", "markdown_it.main.MarkdownIt"):
                return "markdown-it"
            if full.startswith("jinja2."):
                return "jinja"
        if isinstance(n, ast.Attribute) and n.attr == "md":
            return "markdown-it"
        return None

    hit: list[str] = []
    _derives(recv, fi, lambda n: (hit.append(origin(n)) or False) if origin(n) else False)
    kinds = set(hit)
    if kinds == {"markdown-it"}:
        return "markdown-it", f"{unparse(recv)} (bound from create_md_parser/MarkdownIt/.md)"
    if kinds == {"jinja"}:
        return "jinja", unparse(recv)
    return "unknown", unparse(recv)


@rule("C06.R1")
def r1_one_engine(corpus: Corpus, rep: Report, tier: str):
    _use(corpus)
    rep.rule("C06.R1", "render code enters markdown-it only in nested_render_text, on self.md with self.md_env; every nested entry funnels through it")
    g = get_callgraph(corpus)
    base = corpus.mod("mdit_to_docutils.base")
    nrt = corpus.func(f"{RENDERER}.nested_render_text")
    rtok = corpus.func(f"{RENDERER}._render_tokens")
    render = corpus.func(f"{RENDERER}.render")
    setup = corpus.func(f"{RENDERER}.setup_render")
    init = corpus.func(f"{RENDERER}.__init__")
    rcode = _render_code(corpus)

    # (a) every tokenise/render call, classified by receiver
    n_engine_in_nrt = 0
    for fi in corpus.all_functions():
        if fi.module.name.endswith("._docs"):
            continue
        for call in _fn_calls(fi):
            if not (isinstance(call.func, ast.Attribute) and call.func.attr in ENGINE_METHODS):
                continue
            kind, detail = _receiver_kind(call, fi, corpus)
            site = fi.module.site(call)
            k = f"{fi.fq}|{short(call.func, 70)}(...)"
            rep.saw_call(site)
            if kind == "unknown":
                if call.func.attr in ("parse", "parseInline"):
                    rep.error("C06.R1", f"{site}: receiver of `{short(call, 60)}` could not be classified (markdown-it engine or not?)")
                else:
                    rep.listed("C06.R1", k, site, "render() on an untyped receiver (not markdown-it typed)")
                continue
            if kind in ("package-class", "super", "jinja"):
                rep.listed("C06.R1", k, site, f"not the markdown-it engine: {kind} {detail}")
                continue
            if kind == "renderer":
                if fi.fq in rcode:
                    rep.violation("C06.R1", k, site, f"render code re-enters {detail}.{call.func.attr}(): setup_render would reset md_env, the current node and the section state in the middle of a document")
                else:
                    rep.listed("C06.R1", k, site, "renderer entry outside render code")
                continue
            # markdown-it engine
            if fi.fq == nrt.fq:
                n_engine_in_nrt += 1
                problems = []
                recv = _deref(call.func.value, fi)
                if unparse(recv) != "self.md":
                    problems.append(f"receiver is {unparse(recv)}, not the renderer's own parser self.md")
                if call.func.attr not in ("parse", "parseInline"):
                    problems.append(f"{call.func.attr}() renders instead of tokenising")
                env = _deref(call.args[1] if len(call.args) > 1 else kwarg(call, "env"), fi)
                if env is None or unparse(env) != "self.md_env":
                    problems.append(
                        f"environment argument is {unparse(env) if env is not None else 'missing (a fresh mapping)'}, not self.md_env: reference definitions and footnotes of the nested text and of the surrounding document no longer see each other"
                    )
                text = call.args[0] if call.args else kwarg(call, "src")
                tparam = _pos_params(nrt)[0] if _pos_params(nrt) else None
                if text is None or tparam is None or not _derives_from_param(text, nrt, tparam):
                    problems.append("the tokenised text does not derive from the text parameter")
                if problems:
                    rep.violation("C06.R1", k, site, "; ".join(problems))
                else:
                    rep.ok("C06.R1", k, site, "self.md / self.md_env / text parameter")
            elif fi.fq in rcode:
                rep.violation("C06.R1", k, site, f"render code tokenises/renders through markdown-it ({detail}) outside nested_render_text: line shifting, the shared md_env and the heading-state restore are bypassed")
            else:
                rep.ok("C06.R1", k, site, "top-level entry outside render code (document parse)")
    if n_engine_in_nrt < 1:
        rep.error("C06.R1", "nested_render_text contains no markdown-it parse call (rewritten in an unknown idiom)")

    # (a2) inline flag selects parseInline
    ip = _pos_params(nrt)
    eng = [c for c in _fn_calls(nrt) if isinstance(c.func, ast.Attribute) and c.func.attr in ("parse", "parseInline") and unparse(_deref(c.func.value, nrt) or c.func.value).endswith("md")]
    facts_of = {id(c): _flag_facts(c, nrt) for c in eng}
    inl_calls = [c for c in eng if c.func.attr == "parseInline"]
    flags = set.intersection(*({nm for nm, pol in facts_of[id(c)] if pol and nm in ip} for c in inl_calls)) if inl_calls else set()
    if inl_calls and not flags:
        # parseInline may run under the flag's falsity (inverted) or under no flag at all
        inv = set.intersection(*({nm for nm, pol in facts_of[id(c)] if not pol and nm in ip} for c in inl_calls))
        for c in inl_calls:
            k = f"{nrt.fq}|{c.func.attr} selected by the inline flag"
            if inv:
                rep.violation("C06.R1", k, nrt.module.site(c), f"parseInline() runs when `{sorted(inv)[0]}` is False: block text would be tokenised with the inline rules (or vice versa)")
            else:
                rep.error("C06.R1", f"{nrt.module.site(c)}: cannot tell under which value of the inline flag `{short(c, 50)}` runs")
    else:
        flag = "inline" if "inline" in flags else (sorted(flags)[0] if flags else None)
        for c in eng:
            k = f"{nrt.fq}|{c.func.attr} selected by the inline flag"
            want = c.func.attr == "parseInline"
            if flag is None:
                rep.error("C06.R1", f"{nrt.module.site(c)}: no parseInline call found to identify the inline flag")
            elif (flag, want) in facts_of[id(c)]:
                rep.ok("C06.R1", k, nrt.module.site(c), f"runs when `{flag}` is {want}")
            elif (flag, not want) in facts_of[id(c)]:
                rep.violation("C06.R1", k, nrt.module.site(c), f"{c.func.attr}() runs when `{flag}` is {not want}: block text would be tokenised with the inline rules (or vice versa)")
            else:
                rep.violation("C06.R1", k, nrt.module.site(c), f"{c.func.attr}() does not depend on `{flag}`: it also runs for {'block' if want else 'inline'} text")

    # (a3) nested text is parsed without the front-matter rule unless it is a whole file
    cat = corpus.cache("c06-rule-catalogue", lambda: _rule_catalogue(corpus, rep))
    fm_rules = sorted(r for r in cat["block"] if "front" in r and "matter" in r)
    if len(fm_rules) != 1:
        raise Unsupported(f"front-matter block rule not identified in the catalogue ({fm_rules})")
    FM = fm_rules[0]
    flag_now = next((nm for c in eng if c.func.attr == "parseInline" for nm, pol in facts_of[id(c)] if pol and nm in ip), None)
    allow_params: set[str] = set()
    for c in eng:
        if c.func.attr != "parse":
            continue
        k = f"{nrt.fq}|block parse of nested text runs without the {FM} rule unless the text is a whole file"
        site = nrt.module.site(c)
        pos = sorted(nm for nm, pol in facts_of[id(c)] if pol and nm in ip and nm != flag_now)
        if pos:
            allow_params |= set(pos)
            rep.ok("C06.R1", k + f" [under {pos[0]}]", site, f"front matter accepted only when `{pos[0]}` is given")
            continue
        cfg_ = get_cfg(nrt)
        st_ = cfg_.stmt_of(c)
        withs = [a for a in ancestors(c) if isinstance(a, ast.With) and any(isinstance(i.context_expr, ast.Call) and isinstance(i.context_expr.func, ast.Attribute) and i.context_expr.func.attr == "reset_rules" for i in a.items)]
        dis = [
            n for n in nrt.local_nodes()
            if isinstance(n, ast.Call) and isinstance(n.func, ast.Attribute) and n.func.attr == "disable" and n.args and any(isinstance(x, ast.Constant) and x.value == FM for x in ast.walk(n.args[0]))
        ]
        good = [d for d in dis if withs and any(d in ast.walk(w) for w in withs) and cfg_.dominates(cfg_.stmt_of(d), st_) and cfg_.stmt_of(d) is not st_]
        other = [n for n in nrt.local_nodes() if isinstance(n, ast.Call) and isinstance(n.func, ast.Attribute) and n.func.attr == "disable" and n not in dis]
        if good:
            rep.ok("C06.R1", k, site, f"`{short(good[0], 50)}` inside `with ...reset_rules()` precedes the parse")
        elif dis and not withs:
            rep.violation("C06.R1", k, site, f"`{short(dis[0], 50)}` is not undone by a reset_rules() context around this parse: the rule stays disabled for later renders (and for the document itself on re-use)")
        else:
            hint = f" (`{short(other[0], 50)}` does not name the block rule {FM!r})" if other else ""
            rep.violation(
                "C06.R1",
                k,
                site,
                f"nested block text is tokenised with the {FM} rule active{hint}: a directive body, div or substitution value that starts with '---' and contains a later '---' "
                "is swallowed as front matter and dropped, whereas the same text at top level is two thematic breaks around content",
            )
    for fi, call in callers_nrt_list(g, nrt):
        m_ = _callee_param_index(nrt, call)
        for pn in sorted(allow_params):
            a_ = m_.get(ip.index(pn)) if pn in ip else None
            a_ = a_ if a_ is not None else m_.get(pn)
            if a_ is None:
                # the caller leaves the parameter out: the value is the parameter's default
                if any(k_.arg is None for k_ in call.keywords) or any(isinstance(x_, ast.Starred) for x_ in call.args):
                    rep.error("C06.R1", f"{fi.module.site(call)}: cannot tell whether `{pn}` is given (star arguments)")
                    continue
                a_ = _param_default(nrt, pn)
                if a_ is None:
                    rep.error("C06.R1", f"{fi.module.site(call)}: `{pn}` is not given and has no default")
                    continue
                if not isinstance(a_, ast.Constant):
                    rep.error("C06.R1", f"{nrt.site()}: the default of `{pn}` is not a literal (`{short(a_, 40)}`)")
                    continue
            if isinstance(a_, ast.Constant) and not a_.value:
                continue
            k = f"{fi.fq}|{pn} passed only for the text of a file"
            is_read_ = lambda x: isinstance(x, ast.Call) and isinstance(x.func, ast.Attribute) and x.func.attr in ("read_text", "read", "read_bytes")
            text = m_.get(0)
            from_file = text is not None and _derives(text, fi, lambda n: is_read_(n) or (isinstance(n, ast.Call) and _package_callee(n, fi) is not None and any(is_read_(y) for y in _package_callee(n, fi).local_nodes())))
            if from_file:
                rep.ok("C06.R1", k, fi.module.site(call), "the text is read from a file (its front matter is discarded)")
            else:
                rep.violation("C06.R1", k, fi.module.site(call), f"{pn}={unparse(a_)} for text that is not a whole file: a body starting with '---' ... '---' is taken as front matter and dropped instead of being rendered as at top level")
                continue
            # the start index that the test reads is normalised against the WHOLE file: ``slice(a, b).indices(len(X))``
            # with X the uncut list of the file's lines (against the selected lines every negative start becomes 0)
            scope_n = {fi.fq: fi}
            for x in fi.local_nodes():
                if isinstance(x, ast.Call):
                    h_ = _package_callee(x, fi)
                    if h_ is not None and not h_.is_lambda and _owner_class(h_) is not None and _owner_class(fi) is not None and _owner_class(h_).fq == _owner_class(fi).fq:
                        scope_n.setdefault(h_.fq, h_)
            for f_ in scope_n.values():
                cfg_n = get_cfg(f_)
                for x in f_.local_nodes():
                    if not (isinstance(x, ast.Call) and isinstance(x.func, ast.Attribute) and x.func.attr == "indices" and isinstance(x.func.value, ast.Call) and dotted(x.func.value.func) == "slice" and len(x.args) == 1):
                        continue
                    ln_ = x.args[0]
                    if not (isinstance(ln_, ast.Call) and dotted(ln_.func) == "len" and len(ln_.args) == 1):
                        continue
                    k3 = f"{fi.fq}|the start index is normalised against all lines of the file"
                    arg = ln_.args[0]
                    whole = None
                    if isinstance(arg, ast.Call):
                        whole = _splits_lines(arg, f_) is not None
                    elif isinstance(arg, ast.Name):
                        r_ = _reaching_def(f_, arg.id, cfg_n.stmt_of(x))
                        if r_ is not None:
                            whole = isinstance(r_[1], ast.Call) and _splits_lines(r_[1], f_) is not None
                            if not whole and any(isinstance(y, ast.Subscript) and isinstance(y.slice, ast.Slice) for y in ast.walk(r_[1])):
                                whole = False
                            elif not whole:
                                whole = None
                    if whole is True:
                        rep.ok("C06.R1", k3, f_.module.site(x), short(x, 60))
                    elif whole is False:
                        rep.violation(
                            "C06.R1",
                            k3,
                            f_.module.site(x),
                            f"`{short(x, 60)}` measures a list that was already cut to the selection (`{short(_reaching_def(f_, arg.id, cfg_n.stmt_of(x))[1], 50) if isinstance(arg, ast.Name) else short(arg, 50)}`): every negative "
                            ":start-line: normalises to 0, so the cooperating 'nothing was cut' test lets front matter be recognised at the start of the selection - a selection beginning with '---' ... '---' is silently dropped",
                        )
                    else:
                        rep.error("C06.R1", f"{f_.module.site(x)}: cannot tell which lines `{short(x, 60)}` is normalised against")
            # ... and only for text that still starts where the file starts: every option that can cut the beginning
            # off the text must switch the parameter off
            cuts = _start_cut_options(fi, is_read_)
            from ..flow import facts as _facts

            e_ = _deref(a_, fi) or a_
            neg = []
            for t, pol in _facts(e_, True):
                if not pol:
                    neg.append(t)
                elif isinstance(t, ast.Compare) and len(t.ops) == 1 and isinstance(t.ops[0], (ast.Eq, ast.Is)):
                    # ``x == 0`` / ``x is None`` holding says the same as ``not x``
                    for side, other in ((t.left, t.comparators[0]), (t.comparators[0], t.left)):
                        if isinstance(other, ast.Constant) and not other.value:
                            neg.append(side)
            for opt, cut_node, cut_f in cuts:
                k2 = f"{fi.fq}|{pn} is off when :{opt}: cuts the beginning off the file"
                if isinstance(e_, ast.Constant) and e_.value:
                    covered = False
                else:
                    covered = any(_reads_option(t, fi, opt) for t in neg)
                if covered:
                    rep.ok("C06.R1", k2, fi.module.site(call), f"`{short(e_, 60)}` is false when the option is given")
                else:
                    rep.violation(
                        "C06.R1",
                        k2,
                        fi.module.site(call),
                        f"{pn}={short(e_, 60)} can be true although `{short(cut_node, 50)}` ({cut_f.module.site(cut_node)}) removed the beginning of the file under :{opt}:: a selection that starts "
                        "with a thematic break '---' and contains a second one is then taken as YAML front matter and silently dropped, while the same text written in place renders both breaks and the text between them",
                    )

    # (b) fresh engines inside render code
    for fi in corpus.all_functions():
        if fi.fq not in rcode:
            continue
        for call in _fn_calls(fi):
            full = fi.module.resolve(dotted(call.func) or "")
            if full.endswith("parsers.mdit.create_md_parser") or full in ("markdown_it.MarkdownIt", "markdown_it.main.MarkdownIt"):
                rep.violation("C06.R1", f"{fi.fq}|{short(call.func, 50)}(...) builds a second engine", fi.module.site(call), "render code constructs a fresh markdown-it parser: its environment and plugin state are not the document's")

    # (c) md / md_env are bound once
    n_writers = 0
    for fi in corpus.all_functions():
        nodes_ = fi.local_nodes() if not fi.is_lambda else list(ast.walk(fi.node.body))
        for n in nodes_:
            tgts = []
            if isinstance(n, ast.Assign):
                tgts = [(t, n.value) for t in n.targets]
            elif isinstance(n, (ast.AnnAssign, ast.AugAssign)):
                tgts = [(n.target, n.value)]
            elif isinstance(n, ast.Delete):
                tgts = [(t, None) for t in n.targets]
            elif isinstance(n, ast.Call) and dotted(n.func) == "setattr" and len(n.args) >= 2 and isinstance(n.args[1], ast.Constant) and n.args[1].value in ("md", "md_env"):
                tgts = [(ast.Attribute(n.args[0], n.args[1].value, ast.Store()), n.args[2] if len(n.args) > 2 else None)]
            for t, v in tgts:
                leaves = t.elts if isinstance(t, (ast.Tuple, ast.List)) else [t]
                for leaf in leaves:
                    if not (isinstance(leaf, ast.Attribute) and leaf.attr in ("md", "md_env")):
                        continue
                    n_writers += 1
                    site = fi.module.site(n)
                    k = f"{fi.fq}|binds .{leaf.attr} <- {short(v, 50) if v is not None else 'del'}"
                    okw = False
                    why = ""
                    if leaf.attr == "md" and fi.fq == init.fq and unparse(leaf.value) == "self" and isinstance(v, ast.Name) and v.id in _pos_params(init):
                        okw, why = True, "the parser handed to the renderer's constructor"
                    if leaf.attr == "md_env" and fi.fq == setup.fq and unparse(leaf.value) == "self" and isinstance(v, ast.Name) and v.id in _pos_params(setup):
                        okw, why = True, "the env mapping handed to setup_render"
                    if okw:
                        rep.ok("C06.R1", k, site, why)
                    else:
                        rep.violation("C06.R1", k, site, f"`{short(n, 70)}` rebinds the renderer's .{leaf.attr}: nested parses after it no longer share the parser/environment of the document")
    if n_writers < 2:
        rep.error("C06.R1", f"expected the two bindings self.md (constructor) and self.md_env (setup_render), found {n_writers}")
    # (c2) what markdown-it registered in the shared environment is never taken out again
    own_keys: set[str] = set()
    env_stores = 0
    for fi in corpus.all_functions():
        for n in fi.local_nodes() if not fi.is_lambda else []:
            if isinstance(n, ast.Assign):
                for t in n.targets:
                    if isinstance(t, ast.Subscript) and (dotted(t.value) or "").split(".")[-1] == "md_env" and isinstance(t.slice, ast.Constant):
                        own_keys.add(t.slice.value)
                        env_stores += 1
    for fi in corpus.all_functions():
        if fi.is_lambda:
            continue
        for n in fi.local_nodes():
            victim = None
            how = ""
            if isinstance(n, ast.Call) and isinstance(n.func, ast.Attribute):
                recv = _deref(n.func.value, fi) if isinstance(n.func.value, ast.Name) else n.func.value
                if (dotted(recv) or "").split(".")[-1] != "md_env":
                    continue
                if n.func.attr in ("clear", "popitem"):
                    victim, how = n, f"{n.func.attr}() empties the environment"
                elif n.func.attr == "pop" and n.args:
                    if isinstance(n.args[0], ast.Constant):
                        if n.args[0].value not in own_keys:
                            victim, how = n, f"pop({n.args[0].value!r}) removes a key that only markdown-it / its plugins write"
                    else:
                        rep.listed("C06.R1", f"{fi.fq}|{short(n, 60)}", fi.module.site(n), "removal of a computed key from md_env (not judged)")
            elif isinstance(n, ast.Delete):
                for t in n.targets:
                    if isinstance(t, ast.Subscript) and (dotted(t.value) or "").split(".")[-1] == "md_env" and isinstance(t.slice, ast.Constant) and t.slice.value not in own_keys:
                        victim, how = n, f"del of {t.slice.value!r}, a key that only markdown-it / its plugins write"
            if victim is not None:
                rep.violation(
                    "C06.R1",
                    f"{fi.fq}|{short(victim, 60)} drops entries of the shared environment",
                    fi.module.site(victim),
                    f"`{short(victim, 60)}`: {how}; reference definitions, footnotes and duplicate-definition records that a nested parse (directive body, included file) "
                    "registered there are lost, so they are no longer usable from the rest of the document - restoring a snapshot afterwards does not bring back keys created in between",
                )
    k = "md_env|entries registered by markdown-it are never removed (no clear/popitem; pop/del only of keys MyST stores itself)"
    if env_stores >= 2:
        rep.ok("C06.R1", k, corpus.func(f"{RENDERER}.setup_render").site(), f"keys MyST stores itself: {sorted(own_keys)}")
    else:
        rep.error("C06.R1", f"expected MyST's own stores into md_env (temp_root_node, relative-images, relative-docs), found {env_stores}")
    # render hands its own env parameter to setup_render
    sc = [c for c in _fn_calls(render) if any(t.fq == setup.fq for t in g.flat_targets(g.resolve_call(c, render)))]
    k = f"{render.fq}|setup_render receives render's env parameter"
    if len(sc) != 1:
        rep.error("C06.R1", f"render(): expected one setup_render call, found {len(sc)}")
    else:
        m = _callee_param_index(setup, sc[0])
        envarg = m.get(1)
        if isinstance(envarg, ast.Name) and envarg.id in _pos_params(render):
            rep.ok("C06.R1", k, render.module.site(sc[0]))
        else:
            rep.violation("C06.R1", k, render.module.site(sc[0]), f"setup_render gets `{unparse(envarg) if envarg is not None else None}` as environment, not the mapping markdown-it filled while parsing the document")

    # (d) _render_tokens is reached only from render / nested_render_text (helpers called only by them count)
    callers = g.callers()

    def funnel_ok(f: FunctionInfo, depth: int = 0) -> bool:
        if f.fq in (render.fq, nrt.fq):
            return True
        if depth > 3:
            return False
        cs = callers.get(f.fq, [])
        return bool(cs) and all(funnel_ok(c, depth + 1) for c, _ in cs)

    n_rt = 0
    for impl in corpus.method_impls(corpus.cls(RENDERER), "_render_tokens"):
        for fi, call in callers.get(impl.fq, []):
            n_rt += 1
            k = f"{fi.fq}|calls _render_tokens"
            site = fi.module.site(call)
            if funnel_ok(fi):
                rep.ok("C06.R1", k, site)
            else:
                rep.violation("C06.R1", k, site, f"{fi.qualname} renders tokens without passing nested_render_text: no line shift, no heading-state restore, possibly a different environment")
    for fi in corpus.all_functions():
        nodes_ = fi.local_nodes() if not fi.is_lambda else list(ast.walk(fi.node.body))
        for n in nodes_:
            if isinstance(n, ast.Attribute) and n.attr == "_render_tokens" and not (isinstance(parent(n), ast.Call) and parent(n).func is n):
                rep.error("C06.R1", f"{fi.module.site(n)}: _render_tokens is used as a value (alias/callback) - callers cannot be enumerated")
    if n_rt < 2:
        rep.error("C06.R1", f"expected render and nested_render_text as callers of _render_tokens, found {n_rt}")
    # the tokens rendered by nested_render_text are the ones just parsed
    for call in _fn_calls(nrt):
        if isinstance(call.func, ast.Attribute) and call.func.attr == "_render_tokens":
            k = f"{nrt.fq}|renders the tokens it parsed"
            arg = call.args[0] if call.args else None
            # every path to the render passes a tokenisation made in this call: the parse reads the shared environment
            # (reference definitions known so far) and writes to it, so tokens kept from an earlier call are not the
            # tokens of this text at this point of the document
            cfg_r = get_cfg(nrt)

            def tokenises(st_) -> bool:
                if not isinstance(st_, ast.AST):
                    return False
                for x in ast.walk(st_) if not isinstance(st_, (ast.If, ast.While, ast.For, ast.With, ast.Try)) else ast.walk(getattr(st_, "test", None) or getattr(st_, "iter", None) or ast.Pass()):
                    if isinstance(x, ast.Call) and isinstance(x.func, ast.Attribute):
                        if x.func.attr in ("parse", "parseInline") and unparse(_deref(x.func.value, nrt) or x.func.value).endswith("md"):
                            return True
                        h_ = _package_callee(x, nrt)
                        if h_ is not None and not h_.is_lambda and h_.fq != nrt.fq and any(isinstance(y, ast.Call) and isinstance(y.func, ast.Attribute) and y.func.attr in ("parse", "parseInline") and unparse(y.func.value).endswith("md") for y in h_.local_nodes()):
                            return True
                return False

            render_st = cfg_r.stmt_of(call)
            skipped = cfg_r.paths_avoiding("ENTRY", render_st, tokenises)
            if arg is None or not _derives(arg, nrt, lambda n: isinstance(n, ast.Attribute) and n.attr in ("parse", "parseInline")) and not _derives(arg, nrt, lambda n: isinstance(n, ast.Call) and _package_callee(n, nrt) is not None):
                rep.violation("C06.R1", k, nrt.module.site(call), "the tokens handed to _render_tokens do not come from the parse of the text argument")
            elif skipped:
                rep.violation(
                    "C06.R1",
                    k,
                    nrt.module.site(call),
                    "some path reaches _render_tokens without tokenising the text in this call (tokens kept from an earlier call / a cache keyed on the text): markdown-it's parse reads and "
                    "writes the shared environment, so a nested text that uses `[label]` is tokenised differently before and after the definition of that label was met - "
                    "re-used tokens are not the tokens this text has at this place (and their line maps were already shifted in place)",
                )
            else:
                rep.ok("C06.R1", k, nrt.module.site(call), "every path to the render passes a parse of this call")

    # (e) nested entries call nested_render_text with the text they were given, in the contract's mode
    nrt_callers = callers.get(nrt.fq, [])
    entries = {
        "myst_parser.mocking:MockState.nested_parse": (0, False, "directive body (docutils state.nested_parse contract)"),
        "myst_parser.mocking:MockInliner.parse": (0, True, "inline text of roles/directives (docutils inliner.parse contract)"),
    }
    seen_entries = set()
    for fi, call in nrt_callers:
        site = fi.module.site(call)
        m = _callee_param_index(nrt, call)
        text = m.get(0)
        inl = m.get(2)
        inline_true = isinstance(inl, ast.Constant) and inl.value is True
        k = f"{fi.fq}|nested_render_text({short(text, 40) if text is not None else ''}{', inline' if inl is not None else ''})"
        if fi.fq in entries:
            seen_entries.add(fi.fq)
            pidx, want_inline, what = entries[fi.fq]
            pname = _pos_params(fi)[pidx]
            problems = []
            if text is None or not _derives_from_param(text, fi, pname):
                problems.append(f"the rendered text does not derive from parameter `{pname}`")
            if want_inline != inline_true and not (not want_inline and inl is None):
                problems.append(f"inline={unparse(inl) if inl is not None else 'False'} but the contract is {'inline' if want_inline else 'block'} parsing")
            if problems:
                rep.violation("C06.R1", k, site, f"{what}: " + "; ".join(problems))
            else:
                rep.ok("C06.R1", k, site, what)
        else:
            rep.listed("C06.R1", k, site, "nested entry (judged by R3 / C01.R4)")
    for e in entries:
        if e not in seen_entries:
            rep.violation("C06.R1", f"{e}|no call of nested_render_text", corpus.func(e.replace("myst_parser.", "", 1)).site(), "the mock's nested entry point no longer renders through nested_render_text")
    # inline_text -> inliner.parse
    it = corpus.func("mocking:MockState.inline_text")
    ip_ = corpus.func("mocking:MockInliner.parse")
    hit = [c for c in _fn_calls(it) if any(t.fq == ip_.fq for t in g.flat_targets(g.resolve_call(c, it)))]
    k = f"{it.fq}|delegates to MockInliner.parse with its text"
    if hit and hit[0].args and _derives_from_param(hit[0].args[0], it, _pos_params(it)[0]):
        rep.ok("C06.R1", k, it.module.site(hit[0]))
    else:
        rep.violation("C06.R1", k, it.site(), "MockState.inline_text does not hand its text to MockInliner.parse")
    rep.expect_min("C06.R1", 12, "engine calls, md/md_env bindings, _render_tokens callers, nested entries")


def _option_reads(e: ast.AST) -> set[str]:
    """Option names read directly in ``e``: ``<x>.options.get("k")``, ``<x>.options["k"]``, ``"k" in <x>.options``."""
    out = set()
    for x in ast.walk(e):
        if isinstance(x, ast.Call) and isinstance(x.func, ast.Attribute) and x.func.attr == "get" and isinstance(x.func.value, ast.Attribute) and x.func.value.attr == "options" and x.args and isinstance(x.args[0], ast.Constant):
            out.add(x.args[0].value)
        elif isinstance(x, ast.Subscript) and isinstance(x.value, ast.Attribute) and x.value.attr == "options" and isinstance(x.slice, ast.Constant):
            out.add(x.slice.value)
        elif isinstance(x, ast.Compare) and isinstance(x.left, ast.Constant) and any(isinstance(o, (ast.In, ast.NotIn)) for o in x.ops) and any(isinstance(c, ast.Attribute) and c.attr == "options" for c in x.comparators):
            out.add(x.left.value)
    return out


def _reads_option(e: ast.AST, fi: FunctionInfo, opt: str, depth: int = 0) -> bool:
    """``e`` tests the option: it reads it, or is a local that some definition binds directly from a read of it -
    also when that definition lives in a package helper whose (tuple element of the) return value the local receives."""
    if opt in _option_reads(e):
        return True
    for x in ast.walk(e):
        if not (isinstance(x, ast.Name) and x.id not in fi.params):
            continue
        for st, v in _local_defs(fi, x.id):
            if opt in _option_reads(v):
                return True
            if depth < 2 and isinstance(v, ast.Call):
                h = _package_callee(v, fi)
                if h is None or h.is_lambda or h.fq == fi.fq:
                    continue
                idx = None
                if isinstance(st, ast.Assign) and len(st.targets) == 1 and isinstance(st.targets[0], ast.Tuple):
                    names = [t.id if isinstance(t, ast.Name) else None for t in st.targets[0].elts]
                    idx = (len(names), names.index(x.id)) if x.id in names else None
                for r in h.local_nodes():
                    if isinstance(r, ast.Return) and r.value is not None:
                        rv = r.value.elts[idx[1]] if idx is not None and isinstance(r.value, ast.Tuple) and len(r.value.elts) == idx[0] else r.value
                        if _reads_option(rv, h, opt, depth + 1):
                            return True
    return False


def _start_cut_options(fi: FunctionInfo, is_read) -> list[tuple[str, ast.AST, FunctionInfo]]:
    """Options under which the text read from the file loses its beginning before it is rendered: a re-binding of the
    text (or of its list of lines) to a slice with a lower bound.  The option is named by the guard of that statement
    (``kind == "start-after"``) or read directly by the definition of the bound that reaches it."""
    scope = {fi.fq: fi}
    for x in fi.local_nodes():
        if isinstance(x, ast.Call):
            h = _package_callee(x, fi)
            if h is not None and not h.is_lambda and _owner_class(h) is not None and _owner_class(fi) is not None and _owner_class(h).fq == _owner_class(fi).fq:
                scope.setdefault(h.fq, h)
    out: list[tuple[str, ast.AST, FunctionInfo]] = []
    seen = set()
    for f in scope.values():
        seeds = set()
        for names, val in _bindings(f):
            if any(is_read(y) for y in ast.walk(val)):
                seeds |= names
        if f.fq != fi.fq:
            seeds |= set(_pos_params(f))
        carriers = _forward(f, seeds)
        if not carriers:
            continue
        cfg = get_cfg(f)
        for n in f.local_nodes():
            if not (isinstance(n, ast.Subscript) and isinstance(n.slice, ast.Slice) and n.slice.lower is not None and _names_in(n.value) & carriers):
                continue
            lo = n.slice.lower
            if isinstance(lo, ast.Constant) and not lo.value:
                continue
            st = cfg.stmt_of(n)
            if not (isinstance(st, (ast.Assign, ast.AugAssign, ast.AnnAssign)) and ({x.id for t in (st.targets if isinstance(st, ast.Assign) else [st.target]) for x in ast.walk(t) if isinstance(x, ast.Name)} & carriers)):
                continue  # a slice that is only looked at (counted, tested) does not cut the text
            opts: set[str] = set()
            for t, pol in cfg.guards(st):
                if pol and isinstance(t, ast.Compare) and len(t.ops) == 1 and isinstance(t.ops[0], ast.Eq):
                    for side in (t.left, t.comparators[0]):
                        if isinstance(side, ast.Constant) and isinstance(side.value, str):
                            opts.add(side.value)
            if not opts:
                for x in ast.walk(lo):
                    if isinstance(x, ast.Name):
                        r = _reaching_def(f, x.id, st)
                        vals = [r[1]] if r is not None else [v for _, v in _local_defs(f, x.id)]
                        for v in vals:
                            opts |= _option_reads(v)
                opts |= _option_reads(lo)
            for o in sorted(opts):
                if o not in seen:
                    seen.add(o)
                    out.append((o, n, f))
    return out


def _param_default(fi: FunctionInfo, pname: str) -> ast.expr | None:
    """The default expression of parameter ``pname`` of ``fi`` (None when it has none)."""
    a = fi.node.args
    pos = list(a.posonlyargs) + list(a.args)
    for p, d in zip(pos[len(pos) - len(a.defaults):], a.defaults):
        if p.arg == pname:
            return d
    for p, d in zip(a.kwonlyargs, a.kw_defaults):
        if p.arg == pname:
            return d
    return None


def callers_nrt_list(g, nrt: FunctionInfo) -> list[tuple[FunctionInfo, ast.Call]]:
    return sorted(g.callers().get(nrt.fq, []), key=lambda x: (x[0].fq, x[1].lineno))


def _flag_facts(call: ast.Call, fi: FunctionInfo) -> set[tuple[str, bool]]:
    """(name, truth value) facts about plain names that hold whenever ``call`` is evaluated (statement guards and
    enclosing conditional expressions)."""
    out: set[tuple[str, bool]] = set()
    node: ast.AST = call
    for a in ancestors(call):
        if isinstance(a, (ast.FunctionDef, ast.AsyncFunctionDef, ast.Lambda)):
            break
        if isinstance(a, ast.IfExp) and node is not a.test:
            from ..flow import facts as _facts

            for t, pol in _facts(a.test, node is a.body):
                if isinstance(t, ast.Name):
                    out.add((t.id, pol))
        node = a
    try:
        cfg = get_cfg(fi)
        for t, pol in cfg.guards(cfg.stmt_of(call)):
            if isinstance(t, ast.Name):
                out.add((t.id, pol))
    except Unsupported:
        pass
    return out


def _selected_when(call: ast.Call, fi: FunctionInfo) -> tuple[str, bool] | None:
    """(name, value) such that ``call`` is evaluated when ``name`` is truthy == value."""
    node: ast.AST = call
    for a in ancestors(call):
        if isinstance(a, (ast.FunctionDef, ast.Lambda)):
            break
        if isinstance(a, ast.IfExp) and isinstance(a.test, ast.Name):
            if node is a.body:
                return a.test.id, True
            if node is a.orelse:
                return a.test.id, False
        if isinstance(a, ast.IfExp) and isinstance(a.test, ast.UnaryOp) and isinstance(a.test.op, ast.Not) and isinstance(a.test.operand, ast.Name):
            if node is a.body:
                return a.test.operand.id, False
            if node is a.orelse:
                return a.test.operand.id, True
        node = a
    try:
        cfg = get_cfg(fi)
        st = cfg.stmt_of(call)
    except Unsupported:
        return None
    for t, pol in cfg.guards(st):
        if isinstance(t, ast.Name):
            return t.id, pol
    return None


# ---------------------------------------------------------------------------
# R2 sibling fences


def _fence_facts(fi: FunctionInfo, rd: FunctionInfo, corpus: Corpus) -> dict:
    """What a fence handler does on the way to ``render_directive(token, <name>, <arguments>)``."""
    g = get_callgraph(corpus)
    tok = _pos_params(fi)[0]
    cfg = get_cfg(fi)
    calls = [c for c in _fn_calls(fi) if any(t.fq == rd.fq for t in g.flat_targets(g.resolve_call(c, fi)))]
    # the `{name}` route: the directive name argument is a slice of the info word (braces stripped)
    brace = []
    other = []
    calls = [(c, _callee_param_index(rd, c)) for c in calls]
    for c, m in calls:
        nm = m.get(1)
        sliced = nm is not None and any(isinstance(x, ast.Subscript) and isinstance(x.slice, ast.Slice) for x in ast.walk(nm))
        (brace if sliced else other).append((c, m))
    if len(brace) != 1:
        # no brace-stripping slice at the call (it may live in a helper/property): the `{name}` route is then the
        # call that binds only (token, name, arguments) - the route both fence kinds share
        plain = [(c, m) for c, m in calls for keys in [set(m)] if keys <= {0, 1, 2}]
        if len(plain) == 1:
            brace = plain
            other = [(c, m) for c, m in calls if (c, m) not in plain]
        else:
            raise Unsupported(f"{fi.qualname}: expected exactly one render_directive(token, <name>, <arguments>) call of the shared route, found {len(plain)}")
    call, m = brace[0]
    st = cfg.stmt_of(call)
    name_e = _inlined(m[1], fi, st, tok)
    args_e = _inlined(m[2], fi, st, tok) if m.get(2) is not None else None
    pos, neg = [], []
    for t, pol in cfg.guards(st):
        te = _inlined(t, fi, st, tok)
        if "TOKEN" not in unparse(te):
            continue  # configuration switches, not a function of the fence text
        (pos if pol else neg).append(te)
    # writes into the token before the call
    writes = []
    derived = {tok}
    for n in sorted((x for x in fi.local_nodes() if isinstance(x, (ast.Assign, ast.AugAssign, ast.AnnAssign))), key=lambda x: x.lineno):
        tgts = n.targets if isinstance(n, ast.Assign) else [n.target]
        val = n.value
        for t in tgts:
            if isinstance(t, ast.Name) and val is not None and any(isinstance(x, ast.Name) and x.id in derived for x in ast.walk(val)) and any(
                isinstance(x, ast.Attribute) and x.attr in ("token", "copy") for x in ast.walk(val)
            ):
                derived.add(t.id)  # alias/copy of the underlying markdown-it token
    for n in fi.local_nodes():
        if not isinstance(n, (ast.Assign, ast.AugAssign, ast.AnnAssign)):
            continue
        tgts = n.targets if isinstance(n, ast.Assign) else [n.target]
        for t in tgts:
            if isinstance(t, (ast.Attribute, ast.Subscript)):
                root = t
                while isinstance(root, (ast.Attribute, ast.Subscript)):
                    root = root.value
                if isinstance(root, ast.Name) and root.id in derived:
                    s = cfg.stmt_of(n)
                    if st in cfg.reachable_from(s):
                        writes.append(n)
    return {"fi": fi, "tok": tok, "call": call, "stmt": st, "m": m, "name": name_e, "args": args_e, "pos": pos, "neg": neg, "writes": writes, "other": other}


def _cmp_exprs(rep: Report, what: str, a_fi, a: ast.AST | None, b_fi, b: ast.AST | None, site: str) -> None:
    k = f"render_fence~render_colon_fence|{what}"
    ta, tb = (unparse(a) if a is not None else "<none>"), (unparse(b) if b is not None else "<none>")
    if ta == tb:
        unresolved = [x for x in _opaque_calls(a, a_fi) + _opaque_calls(b, b_fi) if not x.endswith("()")]
        if unresolved:
            rep.error("C06.R2", f"{site}: {what}: locals {sorted(set(unresolved))} could not be traced to the fence text in one of the fences")
        else:
            rep.ok("C06.R2", k, site, ta[:150])
        return
    opaque = _opaque_calls(a, a_fi) + _opaque_calls(b, b_fi)
    if opaque:
        rep.error("C06.R2", f"{site}: {what} cannot be compared: helper calls / locals that could not be inlined ({', '.join(sorted(set(opaque)))}) - `{ta[:80]}` vs `{tb[:80]}`")
        return
    aa, ab = (_atoms(a) if a is not None else []), (_atoms(b) if b is not None else [])
    if aa != ab:
        only_a = [x for x in aa if x not in ab] + [x for x in set(aa) if aa.count(x) > ab.count(x) and x in ab]
        only_b = [x for x in ab if x not in aa] + [x for x in set(ab) if ab.count(x) > aa.count(x) and x in aa]
        rep.violation(
            "C06.R2",
            k,
            site,
            f"the two fences compute {what} differently: {a_fi.qualname} only: {sorted(set(only_a))}; {b_fi.qualname} only: {sorted(set(only_b))} "
            f"({a_fi.qualname}: `{ta[:110]}` / {b_fi.qualname}: `{tb[:110]}`): the same directive text behaves differently under ``` and :::",
        )
    else:
        rep.error("C06.R2", f"{site}: {what} is spelled differently in the two fences but with the same operations (`{ta[:90]}` vs `{tb[:90]}`): unknown idiom, compare by reading")


@rule("C06.R2")
def r2_sibling_fences(corpus: Corpus, rep: Report, tier: str):
    _use(corpus)
    rep.rule("C06.R2", "back-tick and colon fences derive (name, arguments) identically, pass the unmodified token, and render_directive forwards name/arguments/token.content under the matching parameters")
    g = get_callgraph(corpus)
    fence = corpus.func(f"{RENDERER}.render_fence")
    colon = corpus.func(f"{RENDERER}.render_colon_fence")
    rd = corpus.func(f"{RENDERER}.render_directive")
    run = corpus.func(f"{RENDERER}.run_directive")
    fa = _fence_facts(fence, rd, corpus)
    fb = _fence_facts(colon, rd, corpus)
    for f in (fence, colon, rd, run):
        rep.saw_function(f.fq)
    site = f"{fence.module.site(fa['call'])} / {colon.module.site(fb['call'])}"
    _cmp_exprs(rep, "the directive name", fence, fa["name"], colon, fb["name"], site)
    _cmp_exprs(rep, "the argument text", fence, fa["args"], colon, fb["args"], site)
    # the test that selects the directive route
    pa = sorted(unparse(x) for x in fa["pos"])
    pb = sorted(unparse(x) for x in fb["pos"])
    k = "render_fence~render_colon_fence|test selecting the directive route"
    if pa == pb and pa:
        rep.ok("C06.R2", k, site, " and ".join(pa)[:160])
    elif not pa or not pb:
        rep.error("C06.R2", f"{site}: no test on the info word guards the directive route in one of the fences")
    else:
        _cmp_exprs(rep, "the test selecting the directive route", fence, ast.parse(" and ".join(f"({x})" for x in pa), mode="eval").body, colon, ast.parse(" and ".join(f"({x})" for x in pb), mode="eval").body, site)
    # earlier special dispatch (e.g. {eval-rst}) present in only one fence: outside the property's scope, listed
    na = sorted(unparse(x) for x in fa["neg"])
    nb = sorted(unparse(x) for x in fb["neg"])
    for x in sorted(set(na) ^ set(nb)):
        owner = fence if x in na else colon
        rep.listed("C06.R2", f"{owner.fq}|special dispatch before the directive route: ...{x[-40:]}", owner.site(), "handled by one fence kind only (not a Markdown-content directive; outside the property's wrappers)")
    # each fence hands its own token
    for f in (fa, fb):
        k = f"{f['fi'].fq}|passes its own token to render_directive"
        a0 = _deref(f["m"].get(0), f["fi"])
        if isinstance(a0, ast.Name) and a0.id == f["tok"]:
            rep.ok("C06.R2", k, f["fi"].module.site(f["call"]))
        else:
            rep.violation("C06.R2", k, f["fi"].module.site(f["call"]), f"render_directive receives `{unparse(a0) if a0 is not None else None}` instead of the fence token: body text and line come from somewhere else")
    # token content untouched, or touched identically
    wa = sorted(unparse(w) for w in fa["writes"])
    wb = sorted(unparse(w) for w in fb["writes"])
    for f, mine, theirs, otherf in ((fa, wa, wb, colon), (fb, wb, wa, fence)):
        k = f"{f['fi'].fq}|token handed to render_directive unmodified (or modified as in the sibling fence)"
        if mine == theirs or not mine:
            rep.ok("C06.R2", k, f["fi"].module.site(f["call"]), "no store into the token" if not mine else "same stores in both fences")
        else:
            w = f["writes"][0]
            rep.violation(
                "C06.R2",
                k,
                f["fi"].module.site(w),
                f"{f['fi'].qualname} rewrites the token's content before render_directive ({'; '.join(mine)[:160]}) and {otherf.qualname} does not: "
                "a body whose first line is a `:::` fence is read as nested Markdown under `:::` but as an option block under ```",
            )
    # render_directive -> run_directive
    rc = [c for c in _fn_calls(rd) if any(t.fq == run.fq for t in g.flat_targets(g.resolve_call(c, rd)))]
    if len(rc) != 1:
        raise Unsupported(f"render_directive: expected one run_directive call, found {len(rc)}")
    m = _callee_param_index(run, rc[0])
    rp = _pos_params(rd)  # token, name, arguments
    runp = _pos_params(run)  # name, first_line, content, position
    if len(rp) < 3 or len(runp) < 4:
        raise Unsupported("render_directive/run_directive signature changed")
    site = rd.module.site(rc[0])
    for idx, want, label in ((0, rp[1], "directive name"), (1, rp[2], "argument text")):
        k = f"{rd.fq}|run_directive parameter {idx} ({label}) <- {label} parameter"
        a = _deref(m.get(idx), rd)
        if isinstance(a, ast.Name) and a.id == want:
            rep.ok("C06.R2", k, site)
        else:
            rep.violation("C06.R2", k, site, f"run_directive's `{runp[idx]}` receives `{unparse(a) if a is not None else None}`, not render_directive's `{want}`")
    a = _deref(m.get(2), rd)
    k = f"{rd.fq}|run_directive body text <- token.content unchanged"
    core = a
    if isinstance(core, ast.Call) and dotted(core.func) == "str" and len(core.args) == 1:
        core = core.args[0]
    if core is not None and unparse(core) == f"{rp[0]}.content":
        rep.ok("C06.R2", k, site)
    elif core is not None and _derives(core, rd, lambda n: isinstance(n, ast.Attribute) and n.attr == "content" and unparse(n.value) == rp[0]):
        rep.violation("C06.R2", k, site, f"the body handed to run_directive is `{unparse(a)}`, a transformation of {rp[0]}.content: the nested parse sees other text than the same Markdown at top level")
    else:
        rep.violation("C06.R2", k, site, f"the body handed to run_directive is `{unparse(a) if a is not None else None}`, not {rp[0]}.content")
    # other callers of run_directive: listed
    for fi, call in g.callers().get(run.fq, []):
        if fi.fq != rd.fq:
            rep.listed("C06.R2", f"{fi.fq}|run_directive({short(call.args[0], 30) if call.args else ''}, ...)", fi.module.site(call), "synthetic directive call (HTML conversion), body is not fence content")
    rep.expect_min("C06.R2", 7, "name/arguments/guard comparisons, token hand-over x2, content untouched x2, three forwarded parameters")


# ---------------------------------------------------------------------------
# R3 node context


def _r3_nested_transitions(corpus: Corpus, rep: Report) -> None:
    """docutils' Transitions transform moves a transition that ends a section up and out of it (and asserts on other
    parents): a thematic break written inside a directive body / block quote stays where it was written only if it is
    hidden from that transform unless its chain of *section* ancestors ends at the document itself."""
    tm = corpus.mod("mdit_to_docutils.transforms")
    is_trans_ref = lambda n: isinstance(n, ast.Attribute) and n.attr == "transition" and tm.resolve(dotted(n) or "").endswith("nodes.transition") and not (isinstance(parent(n), ast.Call) and parent(n).func is n)

    def hides(f: FunctionInfo, var: str, depth: int = 0) -> list[ast.Call]:
        """calls in ``f`` that replace the node named ``var`` by a pending placeholder (directly, or in a helper that
        receives it)"""
        out = []
        direct = [x for x in f.local_nodes() if isinstance(x, ast.Call) and isinstance(x.func, ast.Attribute) and x.func.attr in ("replace_self", "replace") and var in _names_in(x)]
        if direct and any(isinstance(x, ast.Call) and f.module.resolve(dotted(x.func) or "").endswith("nodes.pending") for x in f.local_nodes()):
            out += direct
        if depth < 2:
            for x in f.local_nodes():
                if isinstance(x, ast.Call):
                    h = _package_callee(x, f)
                    if h is None or h.is_lambda or h.fq == f.fq:
                        continue
                    try:
                        m = _callee_param_index(h, x)
                    except Unsupported:
                        continue
                    hp = _pos_params(h)
                    for k_, a in m.items():
                        if isinstance(a, ast.Name) and a.id == var:
                            pn = hp[k_] if isinstance(k_, int) and k_ < len(hp) else k_
                            if isinstance(pn, str) and hides(h, pn, depth + 1):
                                out.append(x)
        return out

    hiders = []
    for ci in tm.classes.values():
        ap = ci.methods.get("apply")
        if ap is None:
            continue
        for loop in [n for n in ap.local_nodes() if isinstance(n, ast.For) and isinstance(n.target, ast.Name)]:
            if any(is_trans_ref(x) for x in ast.walk(loop.iter)):
                hs = [h for h in hides(ap, loop.target.id) if any(h is x for x in ast.walk(loop))]
                if hs:
                    hiders.append((ap, hs))
                    break
    if len(hiders) != 1:
        raise Unsupported(f"transforms.py: expected one transform that hides nodes.transition from docutils, found {len(hiders)}")
    ap, hide = hiders[0]
    cfg = get_cfg(ap)
    k = f"{ap.fq}|a transition is left to docutils only when its section ancestors end at the document"
    is_cls = lambda e, name: any(isinstance(x, ast.Attribute) and x.attr == name for x in ast.walk(e))
    from ..flow import facts as _facts

    def isinstance_facts(f: FunctionInfo, gs, depth: int = 0) -> list[tuple[ast.Call, bool, FunctionInfo]]:
        """isinstance tests among the facts - also those a package predicate called in a fact returns"""
        out = []
        for t, pol in gs:
            if isinstance(t, ast.Call) and dotted(t.func) == "isinstance" and len(t.args) == 2:
                out.append((t, pol, f))
            elif isinstance(t, ast.Call) and pol and depth < 2:
                h = _package_callee(t, f)
                if h is not None and not h.is_lambda and h.fq != f.fq:
                    for r in h.local_nodes():
                        if isinstance(r, ast.Return) and r.value is not None:
                            out += isinstance_facts(h, _facts(r.value, True), depth + 1)
        return out

    def climbed(subj: ast.AST, f: FunctionInfo, at) -> bool:
        if not isinstance(subj, ast.Name):
            return False
        fcfg = get_cfg(f)
        for w in f.local_nodes():
            if isinstance(w, ast.While) and isinstance(w.test, ast.Call) and dotted(w.test.func) == "isinstance" and len(w.test.args) == 2 and unparse(w.test.args[0]) == subj.id and is_cls(w.test.args[1], "section"):
                if any(isinstance(b, ast.Assign) and unparse(b.targets[0]) == subj.id and unparse(b.value) == f"{subj.id}.parent" for b in ast.walk(w)) and (at is None or fcfg.dominates(w, at)):
                    return True
        h_call = next((v for _, v in _local_defs(f, subj.id) if isinstance(v, ast.Call) and _package_callee(v, f) is not None), None)
        if h_call is not None:
            hf = _package_callee(h_call, f)
            return any(isinstance(w, ast.While) and is_cls(w.test, "section") and any(isinstance(x, ast.Attribute) and x.attr == "parent" for x in ast.walk(w)) for w in hf.local_nodes())
        return False

    verdicts = []
    for h in hide:
        st = cfg.stmt_of(h)
        tests = isinstance_facts(ap, cfg.guards(st))
        vis = [(t, f) for t, pol, f in tests if not pol and is_cls(t.args[1], "document")]
        if not vis:
            verdicts.append((False, h, ap, "the hiding is not conditional on `not isinstance(<ancestor>, nodes.document)`"))
            continue
        t, tf = vis[0]
        if is_cls(t.args[1], "section"):
            verdicts.append((False, t, tf, f"`{short(t, 60)}` also leaves a transition visible whose parent is a section - including a section opened by a heading inside a directive body"))
            continue
        at = None
        if tf.fq == ap.fq:
            at = st
        else:
            try:
                at = get_cfg(tf).stmt_of(t)
            except Unsupported:
                at = None
        if climbed(t.args[0], tf, at):
            verdicts.append((True, t, tf, f"`{short(t, 50)}` after climbing through every section ancestor"))
        else:
            verdicts.append((False, t, tf, f"`{short(t, 60)}` looks at one ancestor only; it is not reached by climbing `.parent` while the ancestor is a section"))
    if not verdicts:
        raise Unsupported(f"{ap.qualname}: no statement that hides the transition found")
    bad = [v for v in verdicts if not v[0]]
    if bad:
        rep.violation(
            "C06.R3",
            k,
            bad[0][2].module.site(bad[0][1]),
            f"{bad[0][3]}: a thematic break written last in the body of a directive that allows headings (```{{only}} latex / ## Sub / text / ---```) sits in a section nested in the directive; "
            "docutils' Transitions transform moves it up and out, so it is rendered after the directive instead of inside it, unlike the same text at top level",
        )
    else:
        rep.ok("C06.R3", k, verdicts[0][2].module.site(verdicts[0][1]), verdicts[0][3])


def _innermost_context(call: ast.Call, fi: FunctionInfo, cnc: FunctionInfo, corpus: Corpus):
    """The closest enclosing ``with <renderer>.current_node_context(X[, append])`` -> (X, append expr|None) or None."""
    g = get_callgraph(corpus)
    for a in ancestors(call):
        if isinstance(a, (ast.FunctionDef, ast.AsyncFunctionDef, ast.Lambda)):
            return None
        if isinstance(a, ast.With):
            for item in reversed(a.items):
                ce = item.context_expr
                if isinstance(ce, ast.Call) and (
                    any(t.fq == cnc.fq for t in g.flat_targets(g.resolve_call(ce, fi))) or (isinstance(ce.func, ast.Attribute) and ce.func.attr == "current_node_context")
                ):
                    m = _callee_param_index(cnc, ce)
                    return m.get(0), m.get(1)
    return None


def _is_fresh_node(e: ast.expr | None, fi: FunctionInfo) -> bool:
    """A local bound exactly once, to a docutils node constructor call."""
    if not isinstance(e, ast.Name) or e.id in fi.params:
        return False
    defs = _local_defs(fi, e.id)
    if len(defs) != 1:
        return False
    v = defs[0][1]
    return isinstance(v, ast.Call) and fi.module.resolve(dotted(v.func) or "").startswith("docutils.nodes.")


def _truthy_const(e: ast.expr | None) -> bool | None:
    if e is None:
        return False
    if isinstance(e, ast.Constant):
        return bool(e.value)
    return None


@rule("C06.R3")
def r3_node_context(corpus: Corpus, rep: Report, tier: str):
    _use(corpus)
    rep.rule("C06.R3", "nested_parse renders beneath its node argument; inliner.parse into a fresh container whose children it returns; include/substitution in place; current_node_context switches and restores")
    g = get_callgraph(corpus)
    nrt = corpus.func(f"{RENDERER}.nested_render_text")
    cnc = corpus.func(f"{RENDERER}.current_node_context")
    want = {
        "myst_parser.mocking:MockState.nested_parse": "param",
        "myst_parser.mocking:MockInliner.parse": "fresh-returned",
        "myst_parser.mocking:MockIncludeDirective.run": "in-place",
        "myst_parser.mdit_to_docutils.base:DocutilsRenderer.render_substitution": "in-place",
        "myst_parser.mdit_to_docutils.base:DocutilsRenderer.render_colon_fence": "fresh-appended",
    }
    seen = set()
    for fi, call in g.callers().get(nrt.fq, []):
        site = fi.module.site(call)
        ctx = _innermost_context(call, fi, cnc, corpus)
        mode = want.get(fi.fq)
        seen.add(fi.fq)
        text = call.args[0] if call.args else None
        k = f"{fi.fq}|node context of nested_render_text({short(text, 40) if text is not None else ''})"
        if mode is None:
            desc = "in place" if ctx is None else f"under current_node_context({unparse(ctx[0]) if ctx[0] is not None else ''}{', append' if ctx[1] is not None else ''})"
            rep.listed("C06.R3", k, site, desc)
            continue
        if mode == "in-place":
            if ctx is None:
                rep.ok("C06.R3", k, site, "renders at the current node")
            else:
                rep.violation("C06.R3", k, site, f"the inserted text is rendered under current_node_context({unparse(ctx[0]) if ctx[0] is not None else ''}) instead of at the current node: its nodes do not land where the same text written in place would")
            continue
        if ctx is None:
            rep.violation("C06.R3", k, site, "nested_render_text is not inside current_node_context(...): the nested nodes are appended to whatever node is current instead of the node the caller supplied")
            continue
        node_e, app_e = ctx
        app = _truthy_const(app_e)
        if mode == "param":
            pp = _pos_params(fi)
            if len(pp) < 3:
                raise Unsupported("nested_parse signature changed")
            node_param = pp[2]  # docutils: nested_parse(block, input_offset, node, match_titles=False)
            if not (isinstance(node_e, ast.Name) and node_e.id == node_param):
                rep.violation("C06.R3", k, site, f"the body is rendered beneath `{unparse(node_e) if node_e is not None else None}`, not beneath the `{node_param}` argument the directive passed")
            elif app is None:
                rep.error("C06.R3", f"{site}: append={unparse(app_e)} is not a constant")
            elif app:
                rep.violation("C06.R3", k, site, f"current_node_context({node_param}, append=True) also attaches the directive's node to the current node; the directive returns that node itself, so it would be attached twice")
            else:
                rep.ok("C06.R3", k, site, f"beneath parameter `{node_param}`, not appended")
        elif mode == "fresh-returned":
            rets = [n for n in fi.local_nodes() if isinstance(n, ast.Return) and n.value is not None]
            ret_ok = bool(rets)
            for r in rets:
                first = r.value.elts[0] if isinstance(r.value, ast.Tuple) and r.value.elts else r.value
                if not (isinstance(node_e, ast.Name) and _derives(first, fi, lambda n: isinstance(n, ast.Attribute) and n.attr == "children" and unparse(n.value) == node_e.id)):
                    ret_ok = False
            if not _is_fresh_node(node_e, fi):
                rep.violation("C06.R3", k, site, f"the inline text is rendered into `{unparse(node_e) if node_e is not None else None}`, which is not a container created for this call: the nodes are attached to an existing node as well as (or instead of) being returned to the role/directive")
            elif app is not False:
                rep.violation("C06.R3", k, site, "the temporary container is appended to the current node")
            elif not ret_ok:
                rep.violation("C06.R3", k, site, f"the function does not return `{node_e.id}.children`: the rendered inline nodes are lost")
            else:
                rep.ok("C06.R3", k, site, f"fresh container `{node_e.id}`, children returned")
        elif mode == "fresh-appended":
            if _is_fresh_node(node_e, fi) and app:
                rep.ok("C06.R3", k, site, f"fresh node `{unparse(node_e)}` appended once, content rendered beneath it")
            else:
                rep.violation("C06.R3", k, site, f"div content is rendered beneath `{unparse(node_e) if node_e is not None else None}` (append={unparse(app_e) if app_e is not None else False}): not a freshly created, once-attached container")
    for fq in want:
        if fq not in seen:
            rep.error("C06.R3", f"{fq} no longer calls nested_render_text (anchor moved)")

    # current_node_context: [append to old current] -> switch -> yield -> restore saved
    cfg = get_cfg(cnc)
    pp = _pos_params(cnc)
    ys = [n for n in cnc.local_nodes() if isinstance(n, ast.Yield)]
    if len(ys) != 1 or not pp:
        raise Unsupported("current_node_context: expected one yield")
    yst = cfg.stmt_of(ys[0])
    stores = [n for n in cnc.local_nodes() if isinstance(n, ast.Assign) and any(unparse(t) == "self.current_node" for t in n.targets)]
    before = [s for s in stores if yst in cfg.reachable_from(s) and s not in cfg.reachable_from(yst)]
    after = [s for s in stores if s in cfg.reachable_from(yst)]
    k = f"{cnc.fq}|switch to the node before the yield"
    if len(before) == 1 and isinstance(before[0].value, ast.Name) and before[0].value.id == pp[0] and cfg.dominates(before[0], yst):
        rep.ok("C06.R3", k, cnc.module.site(before[0]))
    else:
        rep.violation("C06.R3", k, cnc.site(), f"current_node is not set to the `{pp[0]}` argument on every path to the yield")
    k = f"{cnc.fq}|restore the saved current node after the yield"
    good = False
    if len(after) == 1 and isinstance(after[0].value, ast.Name) and before:
        saved = after[0].value.id
        sd = [(s, v) for s, v in _local_defs(cnc, saved)]
        good =len(sd) == 1 and unparse(sd[0][1]) == "self.current_node" and cfg.dominates(sd[0][0], before[0]) and cfg.postdominates(after[0], yst)
    if good:
        rep.ok("C06.R3", k, cnc.module.site(after[0]))
    else:
        rep.violation("C06.R3", k, cnc.site(), "after the nested render current_node is not reset to the value saved before the switch: everything after a directive/role lands inside it")
    apps = [n for n in cnc.local_nodes() if isinstance(n, ast.Call) and isinstance(n.func, ast.Attribute) and n.func.attr == "append" and unparse(n.func.value) == "self.current_node"]
    k = f"{cnc.fq}|append=True attaches the node to the old current node"
    if len(apps) == 1 and before:
        ast_ = cfg.stmt_of(apps[0])
        flag_ok = len(pp) > 1 and any(pol and isinstance(t, ast.Name) and t.id == pp[1] for t, pol in cfg.guards(ast_))
        order_ok = ast_ not in cfg.reachable_from(before[0]) and before[0] in cfg.reachable_from(ast_)
        arg_ok = len(apps[0].args) == 1 and unparse(apps[0].args[0]) == pp[0]
        if flag_ok and order_ok and arg_ok:
            rep.ok("C06.R3", k, cnc.module.site(apps[0]))
        else:
            rep.violation("C06.R3", k, cnc.module.site(apps[0]), "the append is not (guarded by the append flag, of the node argument, before the switch): the node would be attached to itself or unconditionally")
    else:
        rep.error("C06.R3", "current_node_context: expected exactly one self.current_node.append(node)")
    _r3_nested_transitions(corpus, rep)
    # system messages are moved only out of the node they are then placed after (a title / caption): a loop that collects
    # them from a larger subtree pulls the messages of the nested-parsed body out of their place
    base_m = corpus.mod("mdit_to_docutils.base")
    for f_ in base_m.functions.values():
        if f_.is_lambda:
            continue
        for loop in [n for n in f_.local_nodes() if isinstance(n, ast.For) and isinstance(n.target, ast.Name)]:
            roots = [c.args[0] for c in ast.walk(loop.iter) if isinstance(c, ast.Call) and (dotted(c.func) or "").split(".")[-1] == "findall" and len(c.args) == 1 and isinstance(c.args[0], ast.Name)]
            if not roots or not any(isinstance(x, ast.Attribute) and x.attr == "system_message" for x in ast.walk(loop.iter)):
                continue
            anchors = set()
            for c in ast.walk(loop):
                if isinstance(c, ast.Call) and isinstance(c.func, ast.Attribute) and c.func.attr == "insert" and len(c.args) == 2 and loop.target.id in _names_in(c.args[1]):
                    for ix in ast.walk(c.args[0]):
                        if isinstance(ix, ast.Call) and isinstance(ix.func, ast.Attribute) and ix.func.attr == "index" and len(ix.args) == 1 and isinstance(ix.args[0], ast.Name):
                            anchors.add(ix.args[0].id)
            if len(anchors) != 1:
                continue
            anchor = next(iter(anchors))
            k = f"{f_.fq}|system messages are moved only out of the node they are placed after"
            if all(r.id == anchor for r in roots):
                rep.ok("C06.R3", k, f_.module.site(loop), f"collected from `{anchor}`, re-inserted after `{anchor}`")
            else:
                rep.violation(
                    "C06.R3",
                    k,
                    f_.module.site(loop),
                    f"the loop collects system_message nodes from `{roots[0].id}` but re-inserts them after `{anchor}`: messages raised inside the nested-parsed body of the directive are pulled out of "
                    "the place where the same Markdown at top level leaves them",
                )
    rep.expect_min("C06.R3", 9, "six judged nested_render_text sites, three context-manager obligations, the transition hider")


# ---------------------------------------------------------------------------
# R4 state changed around a nested render is restored to the saved value


def _state_key(e: ast.AST | None) -> str | None:
    """Normal form of a piece of renderer/document state, for reads and store targets alike."""
    if e is None:
        return None
    if isinstance(e, ast.Attribute):
        d = dotted(e)
        return d if d and d.split(".")[0] == "self" and "." in d else None
    if isinstance(e, ast.Subscript) and isinstance(e.slice, ast.Constant):
        b = _state_key(e.value)
        return f"{b}[{e.slice.value!r}]" if b else None
    if isinstance(e, ast.Call):
        f = e.func
        if isinstance(f, ast.Attribute) and f.attr == "get" and e.args and isinstance(e.args[0], ast.Constant):
            b = _state_key(f.value)
            return f"{b}[{e.args[0].value!r}]" if b else None
        if isinstance(f, ast.Attribute) and f.attr in ("copy", "items") and not e.args:
            return _state_key(f.value)
        if isinstance(f, ast.Name) and f.id in ("dict", "list", "set", "copy", "deepcopy") and len(e.args) == 1:
            return _state_key(e.args[0])
        if isinstance(f, ast.Name) and f.id == "getattr" and len(e.args) >= 2 and isinstance(e.args[1], ast.Constant):
            b = _state_key(e.args[0])
            return f"{b}.{e.args[1].value}" if b else None
    return None


def _cm_functions_around(call: ast.AST, fi: FunctionInfo, corpus: Corpus) -> list[tuple[FunctionInfo, ast.Call]]:
    """Package ``@contextmanager`` generators entered by a ``with`` that encloses ``call`` (innermost first):
    nested functions, methods (``self.m(...)``) and module functions alike."""
    g = get_callgraph(corpus)
    out = []
    for a in ancestors(call):
        if isinstance(a, (ast.FunctionDef, ast.AsyncFunctionDef, ast.Lambda)):
            break
        if isinstance(a, ast.With):
            for item in reversed(a.items):
                ce = item.context_expr
                if not isinstance(ce, ast.Call):
                    continue
                for t in g.flat_targets(g.resolve_call(ce, fi)):
                    if not t.is_lambda and t.is_generator() and "contextmanager" in " ".join(t.decorators()):
                        out.append((t, ce))
    return out


def _guard_sig(cfg, st) -> list[str]:
    return sorted(f"{'' if pol else 'not '}{unparse(t)}" for t, pol in cfg.guards(st))


@rule("C06.R4")
def r4_state_restored(corpus: Corpus, rep: Report, tier: str):
    _use(corpus)
    rep.rule("C06.R4", "state changed around a nested render (heading offset, level map, temp root, document source, reporter, md_env keys) is restored to the value saved before it; in-progress markers are removed on every exit and keyed depth-independently")
    base = corpus.mod("mdit_to_docutils.base")
    nrt = corpus.func(f"{RENDERER}.nested_render_text")
    g = get_callgraph(corpus)
    rtok = corpus.func(f"{RENDERER}._render_tokens")

    def reaches_rtok(c: ast.Call) -> bool:
        for t in g.flat_targets(g.resolve_call(c, nrt)):
            if t.fq == rtok.fq or (t.fq != nrt.fq and rtok.fq in g.reachable([t], stop=lambda f: f.fq in (rtok.fq, nrt.fq))):
                return True
        return False

    rt_calls = [c for c in _fn_calls(nrt) if reaches_rtok(c)]
    if not rt_calls:
        raise Unsupported("nested_render_text: no call reaching _render_tokens")
    cms: dict[str, FunctionInfo] = {}
    unprotected = []
    unknown_cm: list[ast.Call] = []
    inline_ctx: list[tuple[FunctionInfo, ast.Call]] = []

    def collect(c: ast.Call, f: FunctionInfo, depth: int) -> None:
        around = [t for t, _ in _cm_functions_around(c, f, corpus) if any(_state_key(a.targets[0]) for a in t.local_nodes() if isinstance(a, ast.Assign) and len(a.targets) == 1)]
        for t in around:
            cms[t.fq] = t
        if around:
            return
        # the same save / set / try: render / finally: restore written in line (the generator's body inlined)
        for a in ancestors(c):
            if isinstance(a, (ast.FunctionDef, ast.AsyncFunctionDef, ast.Lambda)):
                break
            if isinstance(a, ast.Try) and a.finalbody and any(c is x for s_ in a.body for x in ast.walk(s_)) and any(
                isinstance(x, ast.Assign) and len(x.targets) == 1 and _state_key(x.targets[0]) for s_ in a.finalbody for x in ast.walk(s_)
            ):
                inline_ctx.append((f, c))
                return
        # the with-block may have moved into the helper that is called here
        helpers = [t for t in g.flat_targets(g.resolve_call(c, f)) if t.fq not in (rtok.fq, nrt.fq)]
        inner_calls = [(c2, h) for h in helpers for c2 in _fn_calls(h) if any(t.fq == rtok.fq or rtok.fq in g.reachable([t], stop=lambda x: x.fq in (rtok.fq, nrt.fq)) for t in g.flat_targets(g.resolve_call(c2, h)))]
        if depth < 2 and inner_calls:
            for c2, h in inner_calls:
                collect(c2, h, depth + 1)
        elif any(
            isinstance(a, ast.With) and any(isinstance(i.context_expr, ast.Call) and not g.flat_targets(g.resolve_call(i.context_expr, f)) and not (dotted(i.context_expr.func) or "").split(".")[-1] in ("suppress", "open", "current_node_context") for i in a.items)
            for a in ancestors(c)
        ):
            unknown_cm.append(c)
        else:
            unprotected.append(c)

    for c in rt_calls:
        collect(c, nrt, 0)
    k = f"{nrt.fq}|_render_tokens runs inside the restoring context"
    if unknown_cm and not unprotected:
        rep.error("C06.R4", f"{nrt.module.site(unknown_cm[0])}: the context manager entered around the nested render could not be resolved to a package function")
    elif unprotected or not (cms or inline_ctx):
        rep.violation("C06.R4", k, nrt.site(), "the nested tokens are rendered outside a state-restoring context manager: heading offset / level map / temp root leak into the rest of the document")
    else:
        rep.ok("C06.R4", k, nrt.module.site(rt_calls[0]), ", ".join(sorted(t.qualname for t in cms.values())) or "try/finally that restores the state")
    if len(cms) + len(inline_ctx) > 1:
        raise Unsupported(f"nested_render_text: {len(cms) + len(inline_ctx)} restoring contexts around the render call")
    if cms:
        _r4_restore_pairs(rep, next(iter(cms.values())))
    elif inline_ctx:
        _r4_restore_pairs(rep, inline_ctx[0][0], pivot=inline_ctx[0][1])

    _r4_markers(corpus, rep)
    _r4_include(corpus, rep)
    rep.expect_min("C06.R4", 12, "three _restore pairs, the with-block, five swaps in the include mock, marker removal/key frame for include and substitution")


def _r4_restore_pairs(rep: Report, rs: FunctionInfo, pivot: ast.AST | None = None) -> None:
    """Save / set / yield / restore pairing inside the context manager of nested_render_text - or, with ``pivot``
    (the render call inside a try/finally of ``rs``), the same pairing written in line around that call."""
    cfg = get_cfg(rs)
    if pivot is None:
        ys = [n for n in rs.local_nodes() if isinstance(n, ast.Yield)]
        if len(ys) != 1:
            raise Unsupported(f"{rs.qualname}: expected one yield")
        yst = cfg.stmt_of(ys[0])
    else:
        yst = cfg.stmt_of(pivot)
    after_set = cfg.reachable_from(yst)
    assigns = [n for n in rs.local_nodes() if isinstance(n, ast.Assign) and len(n.targets) == 1]
    pre = [a for a in assigns if a not in after_set and yst in cfg.reachable_from(a)]
    post = [a for a in assigns if a in after_set and a is not yst]
    saves = {a.targets[0].id: (_state_key(a.value), a) for a in pre if isinstance(a.targets[0], ast.Name) and _state_key(a.value)}
    if pivot is not None:
        # in line, the function also reads state into locals for its own use: a local is a save only if it is read
        # again after the render (every changed piece of state is still required to have one, below)
        read_after = {x.id for st_ in after_set if isinstance(st_, ast.stmt) and st_ is not yst for x in ast.walk(st_) if isinstance(x, ast.Name) and isinstance(x.ctx, ast.Load)}
        saves = {n_: sv_ for n_, sv_ in saves.items() if n_ in read_after}
    writes = [(_state_key(a.targets[0]), a) for a in pre if not isinstance(a.targets[0], ast.Name) and _state_key(a.targets[0])]
    restores = [(_state_key(a.targets[0]), a) for a in post if _state_key(a.targets[0])]
    for a in pre + post:
        t = a.targets[0]
        if pivot is not None and _root_name(t) != "self":
            continue  # in line, the function also fills local objects (tokens): not renderer state
        if not isinstance(t, ast.Name) and _state_key(t) is None:
            rep.error("C06.R4", f"{rs.module.site(a)}: store `{short(a, 60)}` in {rs.qualname} not understood")

    def restore_for(key: str, guard_of) -> tuple[bool, str]:
        for rk, ra in restores:
            if rk != key or not isinstance(ra.value, ast.Name):
                continue
            sv = saves.get(ra.value.id)
            if sv is None or sv[0] != key:
                continue
            g_restore, g_change, g_save = set(_guard_sig(cfg, ra)), set(_guard_sig(cfg, guard_of)), set(_guard_sig(cfg, sv[1]))
            # the restore must run at least whenever the state was changed (restoring an unchanged value is a no-op),
            # and the saved value must exist whenever the restore runs
            if not g_restore <= g_change:
                return False, f"the restore `{short(ra, 50)}` runs only under {sorted(g_restore)} but the change under {sorted(g_change) or 'no condition'}"
            if not g_save <= g_restore:
                return False, f"the restore `{short(ra, 50)}` runs under {sorted(g_restore) or 'no condition'} but the value is saved only under {sorted(g_save)}"
            return True, short(ra, 60)
        return False, f"no statement after the yield stores the saved value back into {key}"

    for key, w in writes:
        k = f"{rs.fq}|{key} changed for the nested render -> restored"
        sv = [name for name, (sk, sa) in saves.items() if sk == key and cfg.dominates(sa, w) and w in cfg.reachable_from(sa)]
        ok_, why = restore_for(key, w)
        if not sv:
            rep.violation("C06.R4", k, rs.module.site(w), f"`{short(w, 60)}` overwrites {key} without saving the previous value first")
        elif not ok_:
            rep.violation("C06.R4", k, rs.module.site(w), f"{key} is set for the nested render but not put back: {why}; text after the directive/include is rendered with the nested text's setting")
        else:
            rep.ok("C06.R4", k, rs.module.site(w), why)
    written = {k_ for k_, _ in writes}
    for name, (key, sa) in saves.items():
        if key in written:
            continue
        k = f"{rs.fq}|{key} saved before the nested render -> restored"
        ok_, why = restore_for(key, sa)
        if ok_:
            rep.ok("C06.R4", k, rs.module.site(sa), why)
        else:
            rep.violation("C06.R4", k, rs.module.site(sa), f"{key} is saved in `{name}` (the nested render mutates it) but never put back: {why}")


def _r4_include(corpus: Corpus, rep: Report) -> None:
    # the include mock: try/finally around the nested render
    inc = corpus.func("mocking:MockIncludeDirective.run")
    calls = [c for c in _fn_calls(inc) if isinstance(c.func, ast.Attribute) and c.func.attr == "nested_render_text"]
    if len(calls) != 1:
        raise Unsupported(f"include mock: expected one nested_render_text call, found {len(calls)}")
    tr = None
    owner = inc
    for a in ancestors(calls[0]):
        if isinstance(a, ast.Try) and a.finalbody:
            tr = a
            break
    if tr is None:
        # the save/restore pair may live in a context manager entered around the call
        for cm, _ce in _cm_functions_around(calls[0], inc, corpus):
            for y in (n for n in cm.local_nodes() if isinstance(n, ast.Yield)):
                for a in ancestors(y):
                    if isinstance(a, ast.Try) and a.finalbody and any(y in ast.walk(b_) for b_ in a.body):
                        tr, owner = a, cm
                        break
                if tr is not None:
                    break
            if tr is not None:
                break
    if tr is None:
        rep.violation("C06.R4", f"{inc.fq}|nested render inside try/finally", inc.module.site(calls[0]), "the include's nested render is not protected by a finally that restores document source / reporter / md_env")
        return
    icfg = get_cfg(owner)
    fin_nodes = [n for s in tr.finalbody for n in ast.walk(s)]
    body_assigns = [n for s in tr.body for n in ast.walk(s) if isinstance(n, ast.Assign)]
    n_w = 0
    for a in body_assigns:
        for t in a.targets:
            key = _state_key(t)
            if key is None:
                if isinstance(t, (ast.Attribute, ast.Subscript)):
                    rep.error("C06.R4", f"{owner.module.site(a)}: store `{short(a, 60)}` inside the include's try not understood")
                continue
            n_w += 1
            k = f"{inc.fq}|{key} changed for the included file -> restored in finally"
            site = owner.module.site(a)
            restored = None
            for n in fin_nodes:
                if isinstance(n, ast.Assign) and any(_state_key(x) == key for x in n.targets) and isinstance(n.value, ast.Name):
                    defs = _local_defs(owner, n.value.id)
                    if len(defs) == 1 and _state_key(defs[0][1]) == key and icfg.dominates(defs[0][0], tr):
                        restored = n
            if restored is None and key.endswith("]") and "[" in key:
                cont = key[: key.rindex("[")]
                for n in fin_nodes:
                    if isinstance(n, ast.Assign) and any(_state_key(x) == cont for x in n.targets) and isinstance(n.value, ast.Name):
                        defs = _local_defs(owner, n.value.id)
                        if len(defs) == 1 and _state_key(defs[0][1]) == cont and unparse(defs[0][1]) == cont and icfg.dominates(defs[0][0], tr):
                            restored = n  # the mapping itself is swapped for the include and put back
            if restored is None and key.endswith("]") and "[" in key:
                cont = key[: key.rindex("[")]
                for n in fin_nodes:
                    # <container>.update(<snapshot>) with snapshot = dict(<container>) / <container>.copy() taken before the try
                    if isinstance(n, ast.Call) and isinstance(n.func, ast.Attribute) and n.func.attr == "update" and _state_key(n.func.value) == cont and len(n.args) == 1 and isinstance(n.args[0], ast.Name):
                        defs = _local_defs(owner, n.args[0].id)
                        if len(defs) == 1 and unparse(defs[0][1]) != cont and _state_key(defs[0][1]) == cont and icfg.dominates(defs[0][0], tr):
                            restored = n  # every key gets back the value of the snapshot
            removed = None
            unknown = None
            for n in fin_nodes:
                if isinstance(n, ast.Call) and isinstance(n.func, ast.Attribute) and n.args and isinstance(n.args[0], ast.Constant):
                    b = _state_key(n.func.value)
                    if b and f"{b}[{n.args[0].value!r}]" == key and n.func.attr == "pop":
                        removed = n
                if isinstance(n, ast.Call) and isinstance(n.func, ast.Attribute) and n.func.attr in ("update", "clear", "setdefault", "__setitem__"):
                    b = _state_key(n.func.value)
                    if b and key.startswith(b + "["):
                        unknown = n
                if isinstance(n, ast.Delete) and any(_state_key(x) == key for x in n.targets):
                    removed = removed or n
            if restored is not None:
                rep.ok("C06.R4", k, site, f"finally: {short(restored, 60)}")
                continue
            k = k.replace(" -> restored in finally", " -> removed, not restored, in finally" if removed is not None else " -> not restored in finally")
            if unknown is not None:
                rep.error("C06.R4", f"{owner.module.site(unknown)}: `{short(unknown, 60)}` in the include's finally may restore {key}: idiom not understood")
            elif removed is not None:
                rep.violation(
                    "C06.R4",
                    k,
                    site,
                    f"{key} is set for the included file and *removed* in finally (`{short(removed, 50)}`) instead of being put back to the value it had before: "
                    "an include nested inside the included file wipes the outer include's setting, so the rest of the outer file is rendered without it",
                )
            else:
                rep.violation("C06.R4", k, site, f"{key} is changed for the included file and not restored in finally: everything after the include is rendered with the included file's value")
    if n_w < 3:
        rep.error("C06.R4", f"include mock: expected the source/reporter/md_env swaps inside the try, found {n_w} store(s)")

    # option-driven settings: an include that does not carry the option keeps what the enclosing include set
    def mentions_options(e: ast.AST) -> bool:
        return any(isinstance(x, ast.Attribute) and x.attr == "options" for x in ast.walk(e)) or any(
            isinstance(x, ast.Name) and any(isinstance(y, ast.Attribute) and y.attr == "options" for _, v in _local_defs(owner, x.id) for y in ast.walk(v)) for x in ast.walk(e)
        )

    option_keys = set()
    for f_ in {owner.fq: owner, inc.fq: inc}.values():
        for n in f_.local_nodes():
            if isinstance(n, ast.Compare) and isinstance(n.left, ast.Constant) and isinstance(n.left.value, str) and any(isinstance(o, (ast.In, ast.NotIn)) for o in n.ops) and any(mentions_options(c) for c in n.comparators):
                option_keys.add(n.left.value)
            if isinstance(n, ast.Subscript) and isinstance(n.ctx, ast.Load) and isinstance(n.slice, ast.Constant) and isinstance(n.slice.value, str) and isinstance(n.value, ast.Attribute) and n.value.attr == "options":
                option_keys.add(n.slice.value)
            if isinstance(n, ast.Call) and isinstance(n.func, ast.Attribute) and n.func.attr == "get" and isinstance(n.func.value, ast.Attribute) and n.func.value.attr == "options" and n.args and isinstance(n.args[0], ast.Constant):
                option_keys.add(n.args[0].value)
    n_opt = 0
    for a in body_assigns:
        for t in a.targets:
            key = _state_key(t)
            if key is None or not (isinstance(t, ast.Subscript) and isinstance(t.slice, ast.Constant) and t.slice.value in option_keys):
                continue
            n_opt += 1
            optname = t.slice.value
            k = f"{inc.fq}|{key} overridden only when the include carries :{optname}:"
            site = owner.module.site(a)
            # locals holding the value the key had before this include
            saved = {nm for nm in {n_.id for n_ in owner.local_nodes() if isinstance(n_, ast.Name)} if len(_local_defs(owner, nm)) == 1 and _state_key(_local_defs(owner, nm)[0][1]) == key}
            keeps = lambda e: e is not None and any(isinstance(x, ast.Name) and x.id in saved for x in ast.walk(e))
            def about(e: ast.AST, optname=optname) -> bool:
                """The expression talks about this option: options + the option's name (directly or through a local)."""
                if not mentions_options(e):
                    return False
                if any(isinstance(x, ast.Constant) and x.value == optname for x in ast.walk(e)):
                    return True
                return any(isinstance(x, ast.Name) and any(isinstance(y, ast.Constant) and y.value == optname for _, v in _local_defs(owner, x.id) for y in ast.walk(v)) for x in ast.walk(e))

            gs = [(t_, pol) for t_, pol in icfg.guards(icfg.stmt_of(a)) if about(t_)]

            def polarity(test: ast.AST, pol: bool) -> bool | None:
                """True if the fact says the option is present, False if absent, None if unclear."""
                if isinstance(test, ast.Compare) and len(test.ops) == 1 and isinstance(test.ops[0], (ast.In, ast.NotIn)):
                    return pol if isinstance(test.ops[0], ast.In) else not pol
                if isinstance(test, ast.Compare) and len(test.ops) == 1 and isinstance(test.ops[0], (ast.Is, ast.IsNot)) and isinstance(test.comparators[0], ast.Constant) and test.comparators[0].value is None:
                    return (not pol) if isinstance(test.ops[0], ast.Is) else pol
                if isinstance(test, (ast.Call, ast.Subscript, ast.Attribute, ast.Name)):
                    return pol  # truthiness of options.get(K) / a local bound from it
                return None

            pols = [polarity(t_, pol) for t_, pol in gs]
            val = a.value
            verdict = None
            if any(p_ is True for p_ in pols):
                verdict = (True, "stored under a test that the option is given")
            elif any(p_ is False for p_ in pols):
                verdict = (keeps(val), "stored on the path where the option is absent")
            elif gs:
                rep.error("C06.R4", f"{site}: cannot tell whether `{short(a, 60)}` runs when :{optname}: is given or absent (guards: {', '.join(short(t_, 30) for t_, _ in gs)})")
                continue
            elif isinstance(val, ast.IfExp) and about(val.test):
                from ..flow import facts as _facts

                fs = [polarity(t_, pol) for t_, pol in _facts(val.test, True) if about(t_)]
                if any(p_ is True for p_ in fs):
                    verdict = (keeps(val.orelse), f"falls back to `{short(val.orelse, 30)}` when the option is absent")
                elif any(p_ is False for p_ in fs):
                    verdict = (keeps(val.body), f"uses `{short(val.body, 30)}` when the option is absent")
                else:
                    rep.error("C06.R4", f"{site}: conditional value of `{short(a, 60)}` not understood")
                    continue
            else:
                verdict = (keeps(val), "stored for every include, whether or not it carries the option")
            if verdict[0]:
                rep.ok("C06.R4", k, site, verdict[1])
            else:
                rep.violation(
                    "C06.R4",
                    k,
                    site,
                    f"`{short(a, 70)}`: {verdict[1]}, and the value written then is not the one the enclosing include had set: an include without :{optname}: inside a file "
                    f"that is itself included with :{optname}: switches the setting off for the inner file, so its nodes differ from the same text written in place in the outer file",
                )
    if n_opt < 2:
        rep.error("C06.R4", f"include mock: expected the option-driven md_env settings (relative-images, relative-docs), found {n_opt}")


MARKER_INSERTS = {"add", "update", "append", "extend", "insert", "appendleft"}
MARKER_REMOVALS = {"difference_update", "discard", "remove", "pop", "popleft", "clear"}
RELATIVISING = {"relpath", "relative_to"}


def _doc_scoped(e: ast.AST) -> bool:
    d = dotted(e)
    if not d:
        return False
    parts = d.split(".")
    return parts[0] == "self" and "document" in parts[1:-1]


def _alias_norm(key: str, fi: FunctionInfo) -> str:
    """``self.renderer.document...`` and ``self.document...`` name the same object when the constructor
    binds ``self.document = <p>.document`` and ``self.renderer = <p>``."""
    owner = fi
    while owner is not None and owner.cls is None:
        owner = owner.parent_func
    if owner is None:
        return key
    init = owner.cls.methods.get("__init__")
    if init is None:
        return key
    binds = {}
    for n in init.local_nodes():
        if isinstance(n, ast.Assign) and len(n.targets) == 1 and isinstance(n.targets[0], ast.Attribute) and unparse(n.targets[0].value) == "self":
            binds[n.targets[0].attr] = unparse(n.value)
    for attr, val in binds.items():
        # self.<attr> = <p>.<x>   and   self.<r> = <p>   =>   self.<r>.<x> == self.<attr>
        if "." in val:
            p_, x_ = val.split(".", 1)
            for r_, v2 in binds.items():
                if v2 == p_ and key.startswith(f"self.{r_}.{x_}"):
                    return f"self.{attr}" + key[len(f"self.{r_}.{x_}"):]
    return key


def _def_closure(exprs: list[ast.AST], fi: FunctionInfo) -> list[ast.AST]:
    """The expressions plus, transitively, every value bound to a local they mention."""
    out: list[ast.AST] = []
    seen: set[str] = set()
    work = list(exprs)
    bs = _bindings(fi)
    while work:
        e = work.pop()
        out.append(e)
        for nm in _names_in(e):
            if nm in seen or nm == "self":
                continue
            seen.add(nm)
            for names, val in bs:
                if nm in names:
                    work.append(val)
    return out


def _r4_markers(corpus: Corpus, rep: Report) -> None:
    """In-progress markers (cycle guards of re-entrant nested renders): removed on every exit, keyed in a frame
    that does not change with the nesting depth.  The caller of nested_render_text and the context managers it
    enters around that call are analysed together."""
    g = get_callgraph(corpus)
    nrt = corpus.func(f"{RENDERER}.nested_render_text")
    n_markers = 0
    for fi in sorted({f for f, _ in g.callers().get(nrt.fq, [])}, key=lambda f: f.fq):
        if fi.is_lambda:
            continue
        group: list[FunctionInfo] = [fi]
        cm_calls: list[tuple[FunctionInfo, ast.Call]] = []
        for f2, call in g.callers().get(nrt.fq, []):
            if f2.fq == fi.fq:
                for cm, ce in _cm_functions_around(call, fi, corpus):
                    if cm.fq not in {x.fq for x in group}:
                        group.append(cm)
                        cm_calls.append((cm, ce))
        tested: dict[str, list[tuple[ast.AST, FunctionInfo]]] = {}  # collection text -> tested key expressions
        for f in group:
            dr = lambda e, f=f: _deref(e, f) if isinstance(e, ast.Name) else e  # simple local aliases of the collection
            for n in f.local_nodes():
                if isinstance(n, ast.Compare) and any(isinstance(o, (ast.In, ast.NotIn)) for o in n.ops):
                    for c in n.comparators:
                        if _doc_scoped(dr(c)):
                            tested.setdefault(unparse(dr(c)), []).append((n.left, f))
                elif isinstance(n, ast.Call) and isinstance(n.func, ast.Attribute) and n.func.attr in ("intersection", "isdisjoint", "issubset", "issuperset"):
                    both = [n.func.value] + list(n.args)
                    for x in both:
                        if _doc_scoped(dr(x)):
                            tested.setdefault(unparse(dr(x)), []).extend((y, f) for y in both if y is not x)
                elif isinstance(n, ast.BinOp) and isinstance(n.op, ast.BitAnd):
                    for x, y in ((n.left, n.right), (n.right, n.left)):
                        if _doc_scoped(dr(x)):
                            tested.setdefault(unparse(dr(x)), []).append((y, f))
        if not tested:
            continue
        swapped = {_alias_norm(_state_key(t), f) for f in group for n in f.local_nodes() if isinstance(n, ast.Assign) for t in n.targets if _state_key(t)}
        for coll, keys in sorted(tested.items()):
            inserts: list[tuple[ast.Call, FunctionInfo]] = []
            for f in group:
                dr = lambda e, f=f: _deref(e, f) if isinstance(e, ast.Name) else e
                inserts += [(n, f) for n in f.local_nodes() if isinstance(n, ast.Call) and isinstance(n.func, ast.Attribute) and n.func.attr in MARKER_INSERTS and unparse(dr(n.func.value)) == coll]
            if not inserts:
                continue
            n_markers += 1
            for ins, f in inserts:
                cfg = get_cfg(f)
                dr = lambda e, f=f: _deref(e, f) if isinstance(e, ast.Name) else e
                removals = {cfg.stmt_of(n) for n in f.local_nodes() if isinstance(n, ast.Call) and isinstance(n.func, ast.Attribute) and n.func.attr in MARKER_REMOVALS and unparse(dr(n.func.value)) == coll}
                st = cfg.stmt_of(ins)
                k = f"{fi.fq}|{coll}: in-progress marker removed on every exit"
                leaks = [t for t in ("EXIT", "RAISE") if cfg.paths_avoiding(st, t, lambda n: n in removals)]
                if not removals:
                    rep.violation("C06.R4", k, f.module.site(ins), f"`{short(ins, 60)}` marks the key as being rendered and nothing in {f.qualname} removes it again: every later use of the same key is refused as circular")
                elif leaks:
                    how = " and ".join("a return" if t == "EXIT" else "an exception" for t in leaks)
                    rep.violation(
                        "C06.R4",
                        k,
                        f.module.site(ins),
                        f"after `{short(ins, 60)}` {how} can leave {f.qualname} without passing {', '.join(sorted({short(r, 50) for r in removals}))}: "
                        "the key stays marked as in progress, so every later substitution/inclusion of it is refused as circular and yields no nodes",
                    )
                else:
                    rep.ok("C06.R4", k, f.module.site(ins), f"every path passes {', '.join(sorted({short(r, 40) for r in removals}))}")
            # the key frame
            k = f"{fi.fq}|{coll}: key does not depend on state swapped for the nested render"
            key_exprs: list[tuple[ast.AST, FunctionInfo]] = list(keys) + [(a, f) for ins, f in inserts for a in ins.args]
            # a key that is a parameter of the context manager is the argument at the with-statement
            for cm, ce in cm_calls:
                m = _callee_param_index(cm, ce)
                pn = _pos_params(cm)
                for e, f in list(key_exprs):
                    if f.fq == cm.fq:
                        for nm in _names_in(e):
                            if nm in pn and m.get(pn.index(nm)) is not None:
                                key_exprs.append((m[pn.index(nm)], fi))
            bad = []
            for e0, f in key_exprs:
                for e in _def_closure([e0], f):
                    for n in ast.walk(e):
                        if isinstance(n, ast.Call) and ((dotted(n.func) or "").split(".")[-1] in RELATIVISING or (isinstance(n.func, ast.Attribute) and n.func.attr in RELATIVISING)):
                            last = n.func.attr if isinstance(n.func, ast.Attribute) else dotted(n.func)
                            basearg = (n.args[1] if len(n.args) > 1 else kwarg(n, "start")) if last == "relpath" else (n.args[0] if n.args else None)
                            if basearg is None:
                                continue
                            reads = {_alias_norm(_state_key(x), f) for b in _def_closure([basearg], f) for x in ast.walk(b) if _state_key(x)}
                            hit = sorted(r for r in reads if any(r == s_ or r.startswith(s_ + "[") or s_.startswith(r + "[") for s_ in swapped))
                            exact = [r for r in hit if r in swapped]
                            hit = exact or hit
                            if hit:
                                bad.append((n, f, f"`{short(n, 60)}` makes the key relative to a base derived from {', '.join(hit)}, which {fi.qualname} itself swaps for the nested render: keys pushed at different nesting depths live in different frames and collide (spurious 'circular' refusals) or fail to match"))
                        if isinstance(n, ast.Call) and (dotted(n.func) or "").split(".")[-1] == "basename":
                            bad.append((n, f, f"`{short(n, 60)}` keeps only the last path component: different files share a key"))
                        if isinstance(n, ast.Attribute) and n.attr in ("name", "stem") and isinstance(n.value, ast.Name) and n.value.id != "self" and _is_pathlike(n.value, f):
                            bad.append((n, f, f"`{short(n, 40)}` keeps only the file name: different files share a key"))
            if bad:
                rep.violation("C06.R4", k, bad[0][1].module.site(bad[0][0]), bad[0][2])
            else:
                rep.ok("C06.R4", k, inserts[0][1].module.site(inserts[0][0]))
    if n_markers < 2:
        rep.error("C06.R4", f"expected the include stack and the substitution reference set as in-progress markers, found {n_markers}")


def _is_pathlike(e: ast.Name, fi: FunctionInfo) -> bool:
    """A local bound (somewhere) from a ``Path(...)`` / ``.joinpath`` / ``.parent`` / ``.absolute()`` expression."""
    for names, val in _bindings(fi):
        if e.id in names:
            for x in ast.walk(val):
                if isinstance(x, ast.Call) and ((dotted(x.func) or "").split(".")[-1] in ("Path", "PurePath", "joinpath", "absolute", "resolve")):
                    return True
                if isinstance(x, ast.Attribute) and x.attr == "parent":
                    return True
    return False


# ---------------------------------------------------------------------------
# R5 parsing-result fields reach the directive under the matching keyword


def _is_newline_split(n: ast.AST) -> bool:
    """``x.split("\\n")`` - the pieces between line feeds, nothing else."""
    return (
        isinstance(n, ast.Call)
        and isinstance(n.func, ast.Attribute)
        and n.func.attr == "split"
        and len(n.args) == 1
        and not n.keywords
        and isinstance(n.args[0], ast.Constant)
        and n.args[0].value == "\n"
    )


def _is_splitlines(n: ast.AST) -> bool:
    return isinstance(n, ast.Call) and isinstance(n.func, ast.Attribute) and n.func.attr == "splitlines" and not n.args and not n.keywords


def _line_splitter(h: FunctionInfo | None) -> str | None:
    """'\\n' / 'universal' when the package function returns the lines of its (single) text argument and does nothing
    else to them than dropping the trailing empty piece; None otherwise.  Judged by what the function does, not its name."""
    if h is None or h.is_lambda:
        return None
    pp = _pos_params(h)
    if len(pp) != 1:
        return None
    rets = [r.value for r in h.local_nodes() if isinstance(r, ast.Return) and r.value is not None]
    if not rets:
        return None
    kinds = set()
    for r in rets:
        found = None
        for e in _def_closure([r], h):
            for x in ast.walk(e):
                if (_is_newline_split(x) or _is_splitlines(x)) and isinstance(x.func.value, ast.Name) and x.func.value.id == pp[0]:
                    found = "\n" if _is_newline_split(x) else "universal"
        if found is None:
            return None
        kinds.add(found)
    for n in h.local_nodes():
        if isinstance(n, ast.Call) and isinstance(n.func, ast.Attribute):
            if n.func.attr in NORMALISING_METHODS or n.func.attr in ("append", "insert", "extend", "remove", "sort", "reverse", "clear"):
                return None
            if n.func.attr == "pop" and not (not n.args or (isinstance(n.args[0], ast.UnaryOp) and unparse(n.args[0]) == "-1")):
                return None
        if isinstance(n, ast.Call) and (dotted(n.func) or "").split(".")[-1] in NORMALISING_FUNCS:
            return None
    return "universal" if "universal" in kinds else "\n"


def _splits_lines(n: ast.AST, fi: FunctionInfo) -> str | None:
    """Kind of line split performed by the expression node (direct method call or a package helper modelled as one)."""
    if _is_newline_split(n):
        return "\n"
    if _is_splitlines(n):
        return "universal"
    if isinstance(n, ast.Call):
        return _line_splitter(_package_callee(n, fi))
    return None


def _dataclass_fields(ci) -> list[str]:
    return [st.target.id for st in ci.node.body if isinstance(st, ast.AnnAssign) and isinstance(st.target, ast.Name)]


def _is_field(e: ast.expr | None, var: str, field: str) -> bool:
    return isinstance(e, ast.Attribute) and isinstance(e.value, ast.Name) and e.value.id == var and e.attr == field


def _fields_closure(e: ast.AST | None, fi: FunctionInfo, var: str) -> set[str]:
    """Fields of ``var`` that ``e`` is computed from, through every definition of the locals it mentions."""
    out: set[str] = set()
    if e is None:
        return out
    for x in _def_closure([e], fi):
        out |= _fields_used(x, var)
    return out


def _from_field(e: ast.AST | None, fi: FunctionInfo, var: str, field: str) -> bool:
    """``e`` is the field itself, or is computed from it and from no other field of the result (e.g. defaults merged in)."""
    return e is not None and (_is_field(e, var, field) or _fields_closure(e, fi, var) == {field})


def _fields_used(e: ast.AST | None, var: str) -> set[str]:
    if e is None:
        return set()
    return {n.attr for n in ast.walk(e) if isinstance(n, ast.Attribute) and isinstance(n.value, ast.Name) and n.value.id == var}


@rule("C06.R5")
def r5_result_fields(corpus: Corpus, rep: Report, tier: str):
    _use(corpus)
    rep.rule("C06.R5", "DirectiveParsingResult fields flow to the directive constructor, the include mock and parse_directive_block under the matching keyword/position")
    g = get_callgraph(corpus)
    run = corpus.func(f"{RENDERER}.run_directive")
    pdt = corpus.func("parsers.directives:parse_directive_text")
    res = corpus.cls("parsers.directives:DirectiveParsingResult")
    fields = _dataclass_fields(res)
    if len(fields) < 5:
        raise Unsupported(f"DirectiveParsingResult has {len(fields)} fields, expected arguments/options/body/body_offset/warnings")
    F_ARGS, F_OPTS, F_BODY, F_OFF, F_WARN = fields[:5]
    runp = _pos_params(run)  # name, first_line, content, position, additional_options
    if len(runp) < 4:
        raise Unsupported("run_directive signature changed")
    P_FIRST, P_CONTENT, P_POS = runp[1], runp[2], runp[3]

    def judge(k, site, ok_, what_bad, what_ok=""):
        if ok_:
            rep.ok("C06.R5", k, site, what_ok)
        else:
            rep.violation("C06.R5", k, site, what_bad)

    # (a) run_directive -> parse_directive_text
    pcs = [c for c in _fn_calls(run) if any(t.fq == pdt.fq for t in g.flat_targets(g.resolve_call(c, run)))]
    if len(pcs) != 1:
        raise Unsupported(f"run_directive: expected one parse_directive_text call, found {len(pcs)}")
    pc = pcs[0]
    m = _callee_param_index(pdt, pc)
    pp = _pos_params(pdt)  # directive_class, first_line, content
    site = run.module.site(pc)
    for idx, want, label in ((1, P_FIRST, "first-line text"), (2, P_CONTENT, "body text")):
        a = _deref(m.get(idx), run)
        judge(
            f"{run.fq}|parse_directive_text parameter {idx} ({label}) <- run_directive's {label}",
            site,
            isinstance(a, ast.Name) and a.id == want,
            f"parse_directive_text's `{pp[idx]}` receives `{unparse(a) if a is not None else None}` instead of run_directive's `{want}`: arguments/options/body are split from the wrong text",
        )
    # the local holding the result
    st = parent(pc)
    if not (isinstance(st, ast.Assign) and len(st.targets) == 1 and isinstance(st.targets[0], ast.Name)):
        raise Unsupported("run_directive: result of parse_directive_text is not bound to a local")
    var = st.targets[0].id
    if len(_local_defs(run, var)) != 1:
        raise Unsupported(f"run_directive: `{var}` is rebound")

    # the construction sites may have been moved into helpers that receive the parsing result:
    # (function, name of the result there, name of the position there)
    contexts: list[tuple[FunctionInfo, str, str | None]] = [(run, var, P_POS)]
    work = [(run, var, P_POS, 0)]
    while work:
        f_, v_, p_, d_ = work.pop()
        if d_ >= 2:
            continue
        for c in _fn_calls(f_):
            h = _package_callee(c, f_)
            if h is None or h.is_lambda or h.fq == f_.fq or h.fq == pdt.fq:
                continue
            try:
                m_ = _callee_param_index(h, c)
            except Unsupported:
                continue
            hn = _pos_params(h)
            pname = lambda k_: hn[k_] if isinstance(k_, int) and k_ < len(hn) else (k_ if isinstance(k_, str) else None)
            is_name = lambda a, nm: (isinstance(a, ast.Name) and a.id == nm) or (isinstance(_deref(a, f_), ast.Name) and _deref(a, f_).id == nm)
            v_h = next((pname(k_) for k_, a in m_.items() if is_name(a, v_)), None)
            if v_h is None:
                continue
            p_h = next((pname(k_) for k_, a in m_.items() if p_ is not None and is_name(a, p_)), None)
            if all(x[0].fq != h.fq for x in contexts):
                contexts.append((h, v_h, p_h))
                work.append((h, v_h, p_h, d_ + 1))

    # (b) the docutils directive constructor (keywords fixed by docutils' Directive.__init__)
    DOCUTILS_KW = ("name", "arguments", "options", "content", "lineno", "content_offset", "block_text", "state", "state_machine")
    ctor = None
    ctx = None
    for f_, v_, p_ in contexts:
        for c in _fn_calls(f_):
            kws = {k.arg for k in c.keywords}
            if {"arguments", "options", "content", "content_offset"} <= kws:
                ctor, ctx = c, (f_, v_, p_)
            elif len(c.args) >= 6 and isinstance(c.func, ast.Name) and _derives(c.func, f_, lambda n: isinstance(n, ast.Attribute) and n.attr == "directive"):
                ctor, ctx = c, (f_, v_, p_)
    if ctor is None:
        raise Unsupported("run_directive: the docutils directive constructor call was not found (also not in helpers that receive the parsing result)")
    run_, var_, pos_ = ctx  # the function holding the constructor call and the names of result / position there
    cm: dict[str, ast.expr] = {DOCUTILS_KW[i]: a for i, a in enumerate(ctor.args) if i < len(DOCUTILS_KW)}
    cm.update({k.arg: k.value for k in ctor.keywords if k.arg})
    cm_raw = dict(cm)
    cm = {kk: (_deref(vv, run_) if kk not in ("state", "state_machine") else vv) for kk, vv in cm.items()}
    site = run_.module.site(ctor)
    kpre = f"{run.fq}|directive constructor"
    judge(f"{kpre} arguments <- .{F_ARGS}", site, _from_field(cm_raw.get("arguments"), run_, var_, F_ARGS), f"arguments={unparse(cm['arguments']) if 'arguments' in cm else None}: the directive does not get the parsed argument list")
    judge(f"{kpre} options <- .{F_OPTS}", site, _from_field(cm_raw.get("options"), run_, var_, F_OPTS), f"options={unparse(cm['options']) if 'options' in cm else None}: the directive does not get the validated options")
    ce = cm.get("content")
    content_ok = (
        isinstance(ce, ast.Call)
        and run_.module.resolve(dotted(ce.func) or "").endswith("StringList")
        and ce.args
        and _is_field(_deref(ce.args[0], run_), var_, F_BODY)
        and _fields_used(ce, var_) | _fields_used(_deref(ce.args[0], run_), var_) == {F_BODY}
    )
    judge(f"{kpre} content <- StringList(.{F_BODY})", site, bool(content_ok), f"content={unparse(ce) if ce is not None else None}: the directive body is not exactly the parsed body lines (options/first line stripped)")
    judge(
        f"{kpre} content_offset <- .{F_OFF}",
        site,
        _is_field(cm.get("content_offset"), var_, F_OFF),
        f"content_offset={unparse(cm['content_offset']) if 'content_offset' in cm else None}: nested_parse(self.content, self.content_offset, node) places the body on the wrong lines (option block / blank line not counted)",
    )
    le = cm.get("lineno")
    judge(f"{kpre} lineno <- position", site, isinstance(le, ast.Name) and pos_ is not None and le.id == pos_, f"lineno={unparse(le) if le is not None else None}: not the line of the directive's first line")
    if "block_text" in cm:
        rep.listed("C06.R5", f"{kpre} block_text", site, f"block_text={short(cm['block_text'], 50)} (docutils: the whole directive text; not judged)")
    # state / state_machine are the mocks built for this position
    for kwn, clsname in (("state", "MockState"), ("state_machine", "MockStateMachine")):
        e = cm.get(kwn)
        okm = False
        if isinstance(e, ast.Name):
            defs = _local_defs(run_, e.id)
            if len(defs) == 1 and isinstance(defs[0][1], ast.Call):
                t = g.expr_type(defs[0][1], run_)
                cargs = defs[0][1].args
                okm = t is not None and t[1].name == clsname and bool(cargs) and unparse(cargs[0]) == "self" and pos_ is not None and unparse(cargs[-1]) == pos_
        judge(f"{kpre} {kwn} <- {clsname}(self, ..., position)", site, okm, f"{kwn}={unparse(e) if e is not None else None}: the directive's nested parses would not re-enter this renderer at this line")

    # (c) the include mock
    inc_cls = corpus.cls("mocking:MockIncludeDirective")
    inc_init = corpus.lookup_method(inc_cls, "__init__")
    ics = []
    for f_, v_, p_ in contexts:
        ics += [(c, f_, v_, p_) for c in _fn_calls(f_) if inc_init is not None and any(t.fq == inc_init.fq for t in g.flat_targets(g.resolve_call(c, f_)))]
    if len(ics) != 1 or inc_init is None:
        raise Unsupported(f"run_directive: expected one MockIncludeDirective(...) call, found {len(ics)}")
    ic_call, irun, ivar, ipos = ics[0]
    im_raw = _callee_param_index(inc_init, ic_call)
    im = {kk: _deref(vv, irun) for kk, vv in _callee_param_index(inc_init, ic_call).items()}
    ip = _pos_params(inc_init)  # renderer, name, klass, arguments, options, body, lineno
    if len(ip) < 7:
        raise Unsupported("MockIncludeDirective.__init__ signature changed")
    site = irun.module.site(ic_call)
    kpre = f"{run.fq}|include mock"
    judge(f"{kpre} parameter 0 (renderer) <- self", site, unparse(im.get(0)) == "self" if im.get(0) is not None else False, "the include mock is not given this renderer")
    for idx, fld in ((3, F_ARGS), (4, F_OPTS), (5, F_BODY)):
        judge(f"{kpre} parameter {idx} ({ip[idx]}) <- .{fld}", site, _from_field(im_raw.get(idx), irun, ivar, fld), f"{ip[idx]}={unparse(im[idx]) if im.get(idx) is not None else None}: the include mock does not get the parsed {fld}")
    judge(f"{kpre} parameter 6 ({ip[6]}) <- position", site, isinstance(im.get(6), ast.Name) and ipos is not None and im[6].id == ipos, f"{ip[6]}={unparse(im[6]) if im.get(6) is not None else None}")
    # the mock stores each parameter under the attribute run() reads
    stored = {}
    for n in inc_init.local_nodes():
        if isinstance(n, ast.Assign) and len(n.targets) == 1 and isinstance(n.targets[0], ast.Attribute) and unparse(n.targets[0].value) == "self" and isinstance(n.value, ast.Name):
            stored[n.targets[0].attr] = n.value.id
    for attr in ("arguments", "options"):
        judge(f"{inc_init.fq}|self.{attr} <- parameter {attr}", inc_init.site(), stored.get(attr) == attr, f"self.{attr} is bound to `{stored.get(attr)}`: run() reads the path / start-line / heading-offset from the wrong object")

    # (d) construction of the result in parse_directive_text
    rcs = [c for c in _fn_calls(pdt) if g.expr_type(c, pdt) is not None and g.expr_type(c, pdt)[1].fq == res.fq]
    if not rcs:
        raise Unsupported("parse_directive_text: no DirectiveParsingResult(...) construction found")
    for rc in rcs:
        rm: dict[str, ast.expr] = {fields[i]: a for i, a in enumerate(rc.args) if i < len(fields)}
        rm.update({k.arg: k.value for k in rc.keywords if k.arg})
        site = pdt.module.site(rc)
        is_split = lambda n: _splits_lines(n, pdt) is not None
        is_argcall = lambda n: isinstance(n, ast.Call) and (dotted(n.func) or "").endswith("parse_directive_arguments")
        b, a_, o = rm.get(F_BODY), rm.get(F_ARGS), rm.get(F_OFF)
        judge(
            f"{pdt.fq}|result.{F_BODY} <- lines of the content",
            site,
            b is not None and _derives(b, pdt, is_split) and not _derives(b, pdt, is_argcall),
            f"{F_BODY}={unparse(b) if b is not None else None} does not derive from a split of the content into its lines",
        )
        judge(
            f"{pdt.fq}|result.{F_ARGS} <- parse_directive_arguments",
            site,
            a_ is not None and _derives(a_, pdt, is_argcall) and not _derives(a_, pdt, is_split),
            f"{F_ARGS}={unparse(a_) if a_ is not None else None} does not derive from parse_directive_arguments(first_line) alone",
        )
        num = lambda n: (isinstance(n, ast.Constant) and isinstance(n.value, int) and not isinstance(n.value, bool)) or (isinstance(n, ast.Call) and dotted(n.func) == "len")
        judge(
            f"{pdt.fq}|result.{F_OFF} <- a line count",
            site,
            isinstance(o, ast.Name) and bool(_local_defs(pdt, o.id)) and all(any(num(x) for x in ast.walk(v)) for _, v in _local_defs(pdt, o.id)),
            f"{F_OFF}={unparse(o) if o is not None else None} is not computed as a number of lines",
        )

    # (e) MockState.parse_directive_block: docutils order (arguments, options, content, content_offset)
    pdb = corpus.func("mocking:MockState.parse_directive_block")
    pcs2 = [c for c in _fn_calls(pdb) if any(t.fq == pdt.fq for t in g.flat_targets(g.resolve_call(c, pdb)))]
    rets = [n for n in pdb.local_nodes() if isinstance(n, ast.Return) and isinstance(n.value, ast.Tuple)]
    if len(pcs2) != 1 or not rets or not isinstance(parent(pcs2[0]), ast.Assign):
        raise Unsupported("parse_directive_block: shape not understood")
    v2 = parent(pcs2[0]).targets[0].id
    pbp = _pos_params(pdb)  # content, line_offset, directive, option_presets
    for r in rets:
        e = [_deref(x, pdb) for x in r.value.elts]
        raw = list(r.value.elts)
        site = pdb.module.site(r)
        if len(e) != 4:
            rep.violation("C06.R5", f"{pdb.fq}|returns the 4-tuple of the docutils contract", site, f"returns {len(e)} values; docutils unpacks (arguments, options, content, content_offset)")
            continue
        judge(f"{pdb.fq}|return[0] <- .{F_ARGS}", site, _from_field(raw[0], pdb, v2, F_ARGS), f"first value is `{unparse(e[0])}`, docutils expects the arguments")
        judge(f"{pdb.fq}|return[1] <- .{F_OPTS}", site, _from_field(raw[1], pdb, v2, F_OPTS), f"second value is `{unparse(e[1])}`, docutils expects the options")
        e2f = set(_fields_used(e[2], v2))
        for x in ast.walk(e[2]):
            if isinstance(x, ast.Name):
                e2f |= _fields_used(_deref(x, pdb), v2)
        judge(f"{pdb.fq}|return[2] <- StringList(.{F_BODY})", site, e2f == {F_BODY}, f"third value is `{unparse(e[2])}`, docutils expects the content lines")
        judge(
            f"{pdb.fq}|return[3] <- line_offset + .{F_OFF}",
            site,
            _fields_used(e[3], v2) == {F_OFF} and len(pbp) > 1 and _derives_from_param(e[3], pdb, pbp[1]) and isinstance(e[3], ast.BinOp) and isinstance(e[3].op, ast.Add),
            f"fourth value is `{unparse(e[3])}`, docutils expects the caller's line offset advanced by the body offset",
        )
    rep.expect_min("C06.R5", 20, "two text parameters, eight constructor keywords, five include parameters, two attribute bindings, three result fields, four returned values")


# ---------------------------------------------------------------------------
# R6 the inserted text reaches the nested parse unmodified

# str methods / functions that change the characters of (some) text they are applied to
NORMALISING_METHODS = {
    "strip", "lstrip", "rstrip", "expandtabs", "replace", "lower", "upper", "casefold", "title", "capitalize", "swapcase",
    "translate", "format", "removeprefix", "removesuffix", "center", "ljust", "rjust", "zfill", "sub", "subn",
}
NORMALISING_FUNCS = {"dedent", "indent", "escape", "unescape", "normalize", "quote", "unquote", "fill", "wrap", "shorten", "sub", "subn", "Markup"}
# uses whose result is a number/bool: the transformed string itself goes nowhere
PREDICATE_METHODS = {"startswith", "endswith", "isspace", "isalpha", "isdigit", "isalnum", "find", "rfind", "index", "rindex", "count", "match", "search", "fullmatch"}
PREDICATE_FUNCS = {"len", "bool", "any", "all", "isinstance", "int"}


def _comp_iter_of(x: ast.Name) -> ast.AST | None:
    """The iterable a comprehension variable ranges over (None if ``x`` is not bound by an enclosing comprehension)."""
    for a in ancestors(x):
        if isinstance(a, (ast.ListComp, ast.SetComp, ast.GeneratorExp, ast.DictComp)):
            for gen in a.generators:
                if any(isinstance(t, ast.Name) and t.id == x.id for t in ast.walk(gen.target)):
                    return gen.iter
        if isinstance(a, (ast.FunctionDef, ast.AsyncFunctionDef, ast.Lambda)):
            break
    return None


def _names_in(e: ast.AST, _depth: int = 0) -> set[str]:
    """Names an expression depends on; a comprehension variable stands for the names of the iterable it ranges over
    (it is local to its comprehension and must not connect two comprehensions that happen to reuse the name)."""
    out: set[str] = set()
    for n in ast.walk(e):
        if not isinstance(n, ast.Name):
            continue
        it = _comp_iter_of(n) if _depth < 4 else None
        if it is None:
            out.add(n.id)
        elif isinstance(n.ctx, ast.Load):
            out |= _names_in(it, _depth + 1)
    return out


def _root_name(e: ast.AST) -> str | None:
    while isinstance(e, (ast.Attribute, ast.Subscript, ast.Call)):
        e = e.func if isinstance(e, ast.Call) else e.value
    return e.id if isinstance(e, ast.Name) else None


def _bindings(fi: FunctionInfo) -> list[tuple[set[str], ast.AST]]:
    """(bound names, value expression) for every binding construct of the function, including
    comprehension variables and container mutators (``xs.append(v)`` binds ``xs`` from ``v``)."""
    cached = fi.__dict__.get("_c06_bindings")
    if cached is not None:
        return cached
    out: list[tuple[set[str], ast.AST]] = []
    fi.__dict__["_c06_bindings"] = out
    for n in fi.local_nodes():
        if isinstance(n, ast.Assign):
            out.append(({x.id for t in n.targets for x in ast.walk(t) if isinstance(x, ast.Name)}, n.value))
        elif isinstance(n, (ast.AnnAssign, ast.AugAssign)) and n.value is not None:
            out.append(({x.id for x in ast.walk(n.target) if isinstance(x, ast.Name)}, n.value))
        elif isinstance(n, ast.For):
            out.append(({x.id for x in ast.walk(n.target) if isinstance(x, ast.Name)}, n.iter))
        elif isinstance(n, ast.withitem) and n.optional_vars is not None:
            out.append(({x.id for x in ast.walk(n.optional_vars) if isinstance(x, ast.Name)}, n.context_expr))
        elif isinstance(n, ast.NamedExpr):
            out.append(({n.target.id}, n.value))
        elif isinstance(n, ast.Call) and isinstance(n.func, ast.Attribute) and n.func.attr in ("append", "insert", "extend", "appendleft", "add", "update") and n.args:
            r = _root_name(n.func.value)
            if r:
                out.append(({r}, n.args[-1]))
    return out


def _forward(fi: FunctionInfo, seeds: set[str]) -> set[str]:
    carriers = set(seeds)
    bs = _bindings(fi)
    changed = True
    while changed:
        changed = False
        for names, val in bs:
            if not names <= carriers and _names_in(val) & carriers:
                carriers |= names
                changed = True
    return carriers


def _backward(fi: FunctionInfo, sinks: list[ast.AST]) -> set[str]:
    need: set[str] = set()
    for s in sinks:
        need |= _names_in(s)
    bs = _bindings(fi)
    changed = True
    while changed:
        changed = False
        for names, val in bs:
            if names & need:
                new = _names_in(val) - need
                if new:
                    need |= new
                    changed = True
    return need


def _destination(call: ast.Call, sinks: list[ast.AST]) -> tuple[str, set[str]]:
    """Where the value of ``call`` goes: ('sink', .) | ('names', {...}) | ('return', .) | ('test', .) | ('dropped', .)."""
    node: ast.AST = call
    for a in ancestors(call):
        if any(a is s for s in sinks) or any(node is s for s in sinks):
            return "sink", set()
        if isinstance(a, ast.Attribute) and a.value is node and isinstance(parent(a), ast.Call) and parent(a).func is a and a.attr in PREDICATE_METHODS:
            return "test", set()
        if isinstance(a, ast.Call) and node in a.args and (dotted(a.func) or "").split(".")[-1] in PREDICATE_FUNCS | PREDICATE_METHODS:
            return "test", set()
        if isinstance(a, ast.Call) and node in a.args and isinstance(a.func, ast.Attribute) and a.func.attr in ("append", "insert", "extend", "appendleft", "add", "update"):
            r = _root_name(a.func.value)
            return ("names", {r}) if r else ("dropped", set())
        if isinstance(a, ast.Compare):
            return "test", set()
        if isinstance(a, (ast.If, ast.While, ast.IfExp, ast.Assert)) and a.test is node:
            return "test", set()
        if isinstance(a, ast.comprehension) and node in a.ifs:
            return "test", set()
        if isinstance(a, (ast.UnaryOp,)) and isinstance(a.op, ast.Not):
            return "test", set()
        if isinstance(a, ast.Assign):
            return "names", {x.id for t in a.targets for x in ast.walk(t) if isinstance(x, ast.Name)}
        if isinstance(a, (ast.AnnAssign, ast.AugAssign)):
            return "names", {x.id for x in ast.walk(a.target) if isinstance(x, ast.Name)}
        if isinstance(a, ast.NamedExpr):
            return "names", {a.target.id}
        if isinstance(a, ast.Return):
            return "return", set()
        if isinstance(a, ast.stmt):
            return "dropped", set()
        node = a
    return "dropped", set()


def _colon_prefix_test(t: ast.AST) -> str | None:
    """':' / '::' / ':::' for ``x.startswith("<colons>")``; ':(?!::)' for a regex match on a pattern that requires a colon
    not followed by two more; None otherwise."""
    if isinstance(t, ast.Call) and isinstance(t.func, ast.Attribute) and t.func.attr == "startswith" and len(t.args) == 1 and isinstance(t.args[0], ast.Constant) and isinstance(t.args[0].value, str):
        v = t.args[0].value
        if v and set(v) == {":"} and len(v) <= 3:
            return v
    if isinstance(t, ast.Call) and isinstance(t.func, ast.Attribute) and t.func.attr in ("match", "fullmatch"):
        pat = _regex_pattern_of(t)
        kinds = _regex_colon_kinds(pat) if pat is not None else set()
        if kinds >= {":", "excl"}:
            return ":(?!::)"
        if ":" in kinds:
            return ":"  # demands the colon but does not exclude a ':::' fence opener
    return None


def _regex_pattern_of(call: ast.Call) -> str | None:
    """The pattern text of ``re.match(PAT, s)`` / ``R.match(s)`` with ``R = re.compile(PAT)`` (a module constant of this
    or another package module, or a local), PAT a literal or a constant."""
    fi = None
    for a in ancestors(call):
        if hasattr(a, "_fi"):
            fi = a._fi
            break
    mod = getattr(call, "_mod", None)

    def const_str(e: ast.AST, depth: int = 0) -> str | None:
        if isinstance(e, ast.Constant) and isinstance(e.value, str):
            return e.value
        if isinstance(e, ast.Name) and depth < 3:
            if fi is not None and e.id not in fi.params:
                defs = _local_defs(fi, e.id)
                if len(defs) == 1:
                    return const_str(defs[0][1], depth + 1)
                if defs:
                    return None
            cv = _module_const(fi, e.id, _CORPUS) if fi is not None and _CORPUS is not None else (mod.const_nodes.get(e.id) if mod is not None else None)
            if cv is not None:
                return const_str(cv, depth + 1)
        if isinstance(e, ast.Call) and (dotted(e.func) or "").split(".")[-1] == "compile" and e.args:
            return const_str(e.args[0], depth + 1)
        return None

    recv = call.func.value
    if (dotted(recv) or "") == "re" or (dotted(recv) or "").endswith(".re"):
        return const_str(call.args[0]) if call.args else None
    return const_str(recv)


def _regex_colon_kinds(pattern: str) -> set[str]:
    """What a regex matched at the start of a line demands of it: {':'} if, after optional blanks, a colon is required;
    plus 'excl' if a negative lookahead right after that colon forbids two more colons (a ':::' fence opener)."""
    import re._parser as sre  # type: ignore[import-not-found]

    try:
        items = list(sre.parse(pattern))
    except Exception:
        return set()
    i = 0
    BLANK = {ord(" "), ord("\t")}

    def only_blanks(av) -> bool:
        sub = list(av)
        for op, arg in sub:
            if str(op) == "LITERAL" and arg in BLANK:
                continue
            if str(op) == "IN" and all((str(o2) == "LITERAL" and a2 in BLANK) for o2, a2 in arg):
                continue
            return False
        return True

    while i < len(items):
        op, av = items[i]
        if str(op) == "AT":
            i += 1
            continue
        if str(op) in ("MAX_REPEAT", "MIN_REPEAT", "POSSESSIVE_REPEAT") and only_blanks(av[2]):
            i += 1
            continue
        break
    out: set[str] = set()
    if i < len(items) and str(items[i][0]) == "LITERAL" and items[i][1] == ord(":"):
        out.add(":")
        if i + 1 < len(items) and str(items[i + 1][0]) == "ASSERT_NOT" and items[i + 1][1][0] == 1:
            sub = list(items[i + 1][1][1])
            if len(sub) >= 2 and all(str(o) == "LITERAL" and a == ord(":") for o, a in sub[:2]):
                out.add("excl")
            elif len(sub) == 1 and str(sub[0][0]) == "LITERAL" and sub[0][1] == ord(":"):
                out.add("excl")  # (?!:) forbids '::' and therefore ':::'
    return out


def _strips_bom(n: ast.AST) -> bool:
    """``x.removeprefix("\\ufeff")`` / ``x.lstrip("\\ufeff")``: drops nothing but a leading byte order mark."""
    return (
        isinstance(n, ast.Call)
        and isinstance(n.func, ast.Attribute)
        and n.func.attr in ("removeprefix", "lstrip")
        and len(n.args) == 1
        and not n.keywords
        and isinstance(n.args[0], ast.Constant)
        and isinstance(n.args[0].value, str)
        and n.args[0].value != ""
        and set(n.args[0].value) == {"\ufeff"}
    )


def _bound_params(h: FunctionInfo, call: ast.Call, carries) -> set[str]:
    """Parameters of helper ``h`` that receive a text-carrying argument at ``call``."""
    try:
        m = _callee_param_index(h, call)
    except Unsupported:
        return set()
    names = _pos_params(h)
    out = set()
    for k_, a in m.items():
        if carries(a):
            out.add(names[k_] if isinstance(k_, int) and k_ < len(names) else (k_ if isinstance(k_, str) else ""))
    out.discard("")
    return out


def _conserved_to_sink(rep: Report, fi: FunctionInfo, seeds: set[str], finder, label: str, sink_label: str, depth: int = 0) -> set[str] | None:
    """``_text_conserved`` towards the sink that ``finder`` locates in ``fi`` - or, when the function hands the text on
    with ``return helper(...)``, in that helper (two levels).  Returns the parameters of ``fi`` the sink depends on
    (None when no sink was found)."""
    all_sinks: list[ast.AST] = []
    sinks = finder(fi)
    if sinks:
        _text_conserved(rep, fi, seeds, sinks, label, sink_label, depth=depth)
        all_sinks += sinks
    if depth < 3:
        carriers = _forward(fi, seeds)
        carries = lambda e: bool(_names_in(e) & carriers)
        for r in [n for n in fi.local_nodes() if isinstance(n, ast.Return) and isinstance(n.value, ast.Call)]:
            h = _package_callee(r.value, fi)
            if h is None or h.is_lambda or h.fq == fi.fq:
                continue
            seeds_h = _bound_params(h, r.value, carries)
            if not seeds_h:
                continue
            needed_h = _conserved_to_sink(rep, h, seeds_h, finder, label, sink_label, depth + 1)
            if needed_h is None:
                # the helper could not be followed to a sink: its whole result is what flows on
                _text_conserved(rep, fi, seeds, [r.value], label, f"{h.name}()", depth=depth)
                all_sinks.append(r.value)
                continue
            try:
                m = _callee_param_index(h, r.value)
            except Unsupported:
                continue
            names = _pos_params(h)
            args = [a for k_, a in m.items() if (names[k_] if isinstance(k_, int) and k_ < len(names) else k_) in needed_h and carries(a)]
            if args:
                _text_conserved(rep, fi, seeds, args, label, f"{h.name}()", depth=depth)
                all_sinks += args
    if not all_sinks:
        return None
    return _backward(fi, all_sinks) & set(fi.params)


def _text_conserved(rep: Report, fi: FunctionInfo, seeds: set[str], sinks: list[ast.AST], label: str, sink_label: str, source_pred=None, depth: int = 0) -> None:
    """No character-changing operation lies on a data-flow path from the inserted text to the nested parse.
    Package helpers whose result flows on towards the sink are followed (parameters bound to the carrying arguments,
    their return values - element-wise for tuples - as the sink)."""
    k = f"{fi.fq}|{label} reaches {sink_label} unmodified"
    if not sinks:
        raise Unsupported(f"{fi.qualname}: {sink_label} not found")
    if not seeds:
        raise Unsupported(f"{fi.qualname}: source of {label} not found")
    carriers = _forward(fi, seeds)
    need = _backward(fi, sinks)
    if not any(_names_in(s) & carriers for s in sinks) and not (source_pred is not None and any(source_pred(x) for s_ in sinks for x in ast.walk(s_))):
        rep.violation("C06.R6", f"{fi.fq}|{sink_label} derives from {label}", fi.module.site(sinks[0]), f"{sink_label} (`{short(sinks[0], 60)}`) does not derive from {label}")
        return
    bad = []
    nodes_ = fi.local_nodes()

    def carries(e: ast.AST) -> bool:
        return bool(_names_in(e) & carriers) or (source_pred is not None and any(source_pred(x) for x in ast.walk(e)))

    for n in nodes_:
        if not isinstance(n, ast.Call):
            continue
        if _strips_bom(n):
            continue  # not a change of the text: the mark belongs to the encoding (docutils' input layer drops it too)
        if _is_splitlines(n) and carries(n.func.value):
            pass  # splits at \f, \v, \x1c-\x1e, \x85, U+2028/9 too: re-joined with "\n" the text is not the same
        elif _line_splitter(_package_callee(n, fi)) == "universal" and any(carries(a) for a in n.args):
            pass
        elif isinstance(n.func, ast.Attribute) and n.func.attr in NORMALISING_METHODS and carries(n.func.value) and not (_root_name(n.func.value) in fi.module.imports):
            pass
        elif (dotted(n.func) or "").split(".")[-1] in NORMALISING_FUNCS and any(carries(a) for a in list(n.args) + [kw.value for kw in n.keywords]):
            pass
        else:
            continue
        kind, names = _destination(n, sinks)
        ret_ = next((a for a in ancestors(n) if isinstance(a, ast.Return)), None)
        if kind == "sink" or (kind == "names" and names & need) or (kind == "return" and ret_ is not None and any(s_ is ret_.value for s_ in sinks)):
            # the changed value must be able to reach the sink at all: a statement on a branch that leaves the function
            # before the nested parse (e.g. the literal / code branches of the include) changes text that is never parsed
            if kind == "names":
                try:
                    cfg_t = get_cfg(fi)
                    st_n = cfg_t.stmt_of(n)
                    sink_sts = []
                    for s_ in sinks:
                        if hasattr(s_, "_parent"):
                            sink_sts.append(cfg_t.stmt_of(s_))
                    if sink_sts and not any(ss is st_n or ss in cfg_t.reachable_from(st_n) for ss in sink_sts):
                        continue
                except Unsupported:
                    pass
            bad.append(n)
    # helpers the text passes through on its way to the sink
    if depth < 2:
        for n in nodes_:
            if not isinstance(n, ast.Call) or (dotted(n.func) or "").split(".")[-1] in NORMALISING_FUNCS:
                continue
            h = _package_callee(n, fi)
            if h is None or h.is_lambda or h.fq == fi.fq or _line_splitter(h) is not None:
                continue
            seeds_h = _bound_params(h, n, carries)
            if not seeds_h:
                continue
            kind, names = _destination(n, sinks)
            if not (kind == "sink" or (kind == "names" and names & need)):
                continue
            idxs = None
            st = _stmt_of(n)
            if isinstance(st, ast.Assign) and st.value is n and len(st.targets) == 1 and isinstance(st.targets[0], ast.Tuple):
                elts = st.targets[0].elts
                idxs = (len(elts), [i for i, t in enumerate(elts) if isinstance(t, ast.Name) and t.id in need])
            # a result bound to one name of which only some attributes flow on: only those record fields matter
            attrs = None
            if isinstance(st, ast.Assign) and st.value is n and len(st.targets) == 1 and isinstance(st.targets[0], ast.Name):
                rv = st.targets[0].id
                attrs = set()
                exprs = list(sinks) + [val for names_, val in _bindings(fi) if names_ & need]
                for e in exprs:
                    for x in ast.walk(e):
                        if isinstance(x, ast.Name) and x.id == rv:
                            px = parent(x)
                            if isinstance(px, ast.Attribute) and px.value is x:
                                attrs.add(px.attr)
                            else:
                                attrs = None
                                break
                    if attrs is None:
                        break

            def returned(f: FunctionInfo, idxs=idxs, attrs=attrs) -> list[ast.AST]:
                """The parts of ``f``'s return values that flow on (``return helper(...)`` is followed by the caller)."""
                out_: list[ast.AST] = []
                for r in f.local_nodes():
                    if not (isinstance(r, ast.Return) and r.value is not None):
                        continue
                    rec = _record_fields(r.value, f) if isinstance(r.value, ast.Call) else None
                    if idxs is not None and isinstance(r.value, ast.Tuple) and len(r.value.elts) == idxs[0]:
                        out_ += [r.value.elts[i] for i in idxs[1]]
                    elif idxs is not None and rec is not None and len(rec[0]) == idxs[0]:
                        out_ += [rec[1][rec[0][i]] for i in idxs[1]]  # a NamedTuple unpacked positionally
                    elif attrs and rec is not None and attrs <= set(rec[0]):
                        out_ += [rec[1][a] for a in sorted(attrs)]
                    elif isinstance(r.value, ast.Call) and rec is None and _package_callee(r.value, f) is not None and _package_callee(r.value, f).fq != f.fq:
                        continue  # delegation
                    else:
                        out_.append(r.value)
                return out_

            _conserved_to_sink(rep, h, seeds_h, returned, label, f"{sink_label} (through {h.name}())", depth + 1)
    if not bad:
        rep.ok("C06.R6", k, fi.module.site(sinks[0]), f"via {sorted(need & carriers)[:6]}")
    for n in bad:
        op = n.func.attr if isinstance(n.func, ast.Attribute) else (dotted(n.func) or "?")
        if _is_splitlines(n) or _line_splitter(_package_callee(n, fi)) == "universal":
            why = (
                f"{op}() also splits at form feed, vertical tab, \\x1c-\\x1e, \\x85 and U+2028/U+2029, which markdown-it does not count as line ends: when the pieces are "
                f"joined with '\\n' again such a character in {label} has become a line feed (a paragraph breaks in two, a code line is split) and later lines are counted one off"
            )
        else:
            why = (
                f"{op}() changes characters of {label} before it is parsed as Markdown, so some text (leading indentation, tabs, blank lines, < & quotes ...) "
                "renders differently from the same text written in place / at top level"
            )
        rep.violation("C06.R6", f"{fi.fq}|{op}() applied to {label} on its way to {sink_label}", fi.module.site(n), f"`{short(_stmt_of(n), 90)}`: {why}")


@rule("C06.R6")
def r6_text_conserved(corpus: Corpus, rep: Report, tier: str):
    _use(corpus)
    rep.rule("C06.R6", "directive bodies, included files and substitution values reach the nested parse character for character (no strip/expandtabs/escape/dedent... on the way; template engine without output transformation)")
    g = get_callgraph(corpus)
    nrt = corpus.func(f"{RENDERER}.nested_render_text")

    def nrt_text_args(fi: FunctionInfo) -> list[ast.AST]:
        out = []
        for c in _fn_calls(fi):
            if any(t.fq == nrt.fq for t in g.flat_targets(g.resolve_call(c, fi))) or (isinstance(c.func, ast.Attribute) and c.func.attr == "nested_render_text"):
                m = _callee_param_index(nrt, c)
                if m.get(0) is not None:
                    out.append(m[0])
        return out

    def ctor_field_args(fi: FunctionInfo, cls_fq: str, idx: int, fname: str) -> list[ast.AST]:
        out = []
        for c in _fn_calls(fi):
            t = g.expr_type(c, fi)
            if t is not None and t[0] == "is" and t[1].fq == cls_fq and isinstance(c.func, (ast.Name, ast.Attribute)) and (dotted(c.func) or "").split(".")[-1] == t[1].name:
                a = c.args[idx] if len(c.args) > idx else kwarg(c, fname)
                if a is not None:
                    out.append(a)
        return out

    # 1. option block split
    pdo = corpus.func("parsers.directives:_parse_directive_options")
    oc = corpus.cls("parsers.directives:_DirectiveOptions")
    of = _dataclass_fields(oc)
    if None is _conserved_to_sink(rep, pdo, {_pos_params(pdo)[0]}, lambda f: ctor_field_args(f, oc.fq, 0, of[0]), "the directive's content", "the body left after the option block"):
        raise Unsupported("_parse_directive_options: the body left after the option block not found (also not in helpers it returns through)")
    # 1b. a line that opens a nested ``:::`` fence is body: every test that recognises an option line (':' prefix) on a
    # line of the content also excludes the ':::' prefix - whatever idiom takes the lines (pop loop, index scan + slices,
    # a predicate helper)
    scan_scope = {pdo.fq: pdo}
    for x in pdo.local_nodes():
        if isinstance(x, ast.Call):
            h_ = _package_callee(x, pdo)
            if h_ is not None and not h_.is_lambda and h_.module.name == pdo.module.name and _line_splitter(h_) is None:
                scan_scope.setdefault(h_.fq, h_)

    def local_values(e: ast.AST, f: FunctionInfo, at) -> list[ast.AST]:
        """What the locals mentioned in ``e`` are bound to when ``e`` is evaluated at statement ``at``
        (the reaching definition; every definition when that is not unique)."""
        out_ = []
        for nm in sorted({y.id for y in ast.walk(e) if isinstance(y, ast.Name)}):
            if nm in f.params:
                continue
            r = _reaching_def(f, nm, at) if at is not None else None
            out_ += [r[1]] if r is not None else [v_ for _, v_ in _local_defs(f, nm)]
        return out_

    def prefix_tests(e: ast.AST, f: FunctionInfo, depth: int = 0, at=None) -> list[tuple[str, ast.AST]]:
        """colon-prefix tests inside ``e`` - directly, in what its locals are bound to, or inside a package predicate
        it calls on the line."""
        out_ = []
        exprs = [e] + (local_values(e, f, at) if depth == 0 else [])
        for x in (y for e_ in exprs for y in ast.walk(e_)):
            v = _colon_prefix_test(x)
            if v is not None:
                out_.append((v, x))
                if v == ":(?!::)":
                    out_.append((":", x))  # the same match also demands the colon
            elif isinstance(x, ast.Call) and depth < 2:
                h2 = _package_callee(x, f)
                if h2 is not None and not h2.is_lambda and h2.fq != f.fq:
                    for y in h2.local_nodes():
                        if isinstance(y, ast.Return) and y.value is not None:
                            for e2 in _def_closure([y.value], h2):
                                out_ += prefix_tests(e2, h2, depth + 1)
        return out_

    n_take = 0
    for f_ in scan_scope.values():
        fcar = _forward(f_, set(_pos_params(f_)[:1]))
        line_lists = {nm for names, val in _bindings(f_) for nm in names if isinstance(val, ast.Call) and _splits_lines(val, f_) is not None and (_names_in(val) & fcar)}
        if not line_lists:
            continue

        cfg_t = get_cfg(f_)

        def about_line(t: ast.AST, at=None, f_=f_, line_lists=line_lists) -> bool:
            # the test looks at a line of the list (an element, a loop/comprehension variable over it, a local bound from
            # one), not at the content as a whole
            for x in ast.walk(t):
                if isinstance(x, ast.Name) and _names_in(x) & line_lists:
                    return True
            vals = local_values(t, f_, at)
            return bool(vals) and all(_names_in(v) & line_lists for v in vals)

        tests: list[tuple[ast.AST, object]] = []
        for n in f_.local_nodes():
            if isinstance(n, (ast.If, ast.While)):
                tests.append((n.test, n))
            elif isinstance(n, ast.IfExp):
                tests.append((n.test, cfg_t.stmt_of(n)))
            elif isinstance(n, ast.comprehension):
                tests += [(i_, cfg_t.stmt_of(i_)) for i_ in n.ifs]
        for t, at in tests:
            if not about_line(t, at):
                continue
            pts = prefix_tests(t, f_, at=at)
            if not any(v == ":" for v, _ in pts):
                continue
            n_take += 1
            k = f"{pdo.fq}|option-line consumption stops at a line opening a ':::' fence"
            # an exclusion written directly in this test must itself look at the line; one inside the predicate helper does
            excl = [x for v, x in pts if v in ("::", ":::", ":(?!::)") and (about_line(x, at) or not any(x is y for y in ast.walk(t)))]
            if excl:
                rep.ok("C06.R6", k, f_.module.site(t), f"`{short(t, 50)}` also tests {short(excl[0], 40)}")
            else:
                rep.violation(
                    "C06.R6",
                    k,
                    f_.module.site(t),
                    f"`{short(t, 70)}` recognises every line that starts with ':' as an option line; nothing in the test excludes a line starting with ':::': a nested colon fence that "
                    "directly follows the options (`:class: x` then `:::{tip}`) is consumed into the option block, so the nested directive vanishes from the body although the same text at top level renders it",
                )
    if n_take < 1:
        raise Unsupported("_parse_directive_options: no test recognising ':key:' option lines on the lines of the content was found")

    # 2. body lines
    pdt = corpus.func("parsers.directives:parse_directive_text")
    res = corpus.cls("parsers.directives:DirectiveParsingResult")
    rf = _dataclass_fields(res)
    pp = _pos_params(pdt)
    if None is _conserved_to_sink(rep, pdt, {pp[1], pp[2]}, lambda f: ctor_field_args(f, res.fq, 2, rf[2]), "the directive's first line/content", "the body lines of the parsing result"):
        raise Unsupported("parse_directive_text: the body lines of the parsing result not found (also not in helpers it returns through)")
    # 3./4. the mocks
    np_ = corpus.func("mocking:MockState.nested_parse")
    _text_conserved(rep, np_, {_pos_params(np_)[0]}, nrt_text_args(np_), "the block handed to nested_parse", "the nested parse")
    ip = corpus.func("mocking:MockInliner.parse")
    _text_conserved(rep, ip, {_pos_params(ip)[0]}, nrt_text_args(ip), "the text handed to inliner.parse", "the nested parse")
    pdb = corpus.func("mocking:MockState.parse_directive_block")
    sinks = []
    for c in _fn_calls(pdb):
        if any(t.fq == pdt.fq for t in g.flat_targets(g.resolve_call(c, pdb))):
            m = _callee_param_index(pdt, c)
            if m.get(2) is not None:
                sinks.append(m[2])
    _text_conserved(rep, pdb, {_pos_params(pdb)[0]}, sinks, "the content handed to parse_directive_block", "parse_directive_text")
    # 4b. a mock that splits the block it was given (block quote + attribution) renders all of it
    bq = corpus.func("mocking:MockState.block_quote")
    P = _pos_params(bq)[0]
    cfg_b = get_cfg(bq)
    renders = lambda c: any(t.fq == bq.fq or nrt.fq in g.reachable([t], stop=lambda f: f.fq == nrt.fq) for t in g.flat_targets(g.resolve_call(c, bq)))
    is_prefix = lambda x: isinstance(x, ast.Subscript) and isinstance(x.slice, ast.Slice) and isinstance(x.value, ast.Name) and x.value.id == P and x.slice.lower is None and x.slice.upper is not None
    is_tail = lambda x: isinstance(x, ast.Subscript) and isinstance(x.slice, ast.Slice) and isinstance(x.value, ast.Name) and x.value.id == P and x.slice.lower is not None and x.slice.upper is None and x.slice.step is None
    prefix_rendered = False
    for c in _fn_calls(bq):
        if renders(c) and c.args and _derives(c.args[0], bq, is_prefix):
            prefix_rendered = True
    k = f"{bq.fq}|the lines after the attribution are rendered too"
    if not prefix_rendered:
        rep.ok("C06.R6", k, bq.site(), "the block is not cut before it is rendered")
    else:
        tail_calls = [c for c in _fn_calls(bq) if renders(c) and c.args and any(is_tail(x) for x in ast.walk(c.args[0]))]
        if tail_calls:
            rep.ok("C06.R6", k, bq.module.site(tail_calls[0]), short(tail_calls[0], 70))
        else:
            rep.violation(
                "C06.R6",
                k,
                bq.site(),
                f"only a prefix `{P}[:i]` of the block is nested-parsed (plus the attribution); no tail `{P}[j:]` of the block is handed to a rendering call: every block written after the "
                "'-- Author' line of an {epigraph}/{highlights}/{pull-quote} body is silently missing from the output",
            )
    # the attribution ends at a blank line: what follows is the next block, not more attribution
    k = f"{bq.fq}|a blank line ends the attribution"
    judged = False
    for loop in [n for n in bq.local_nodes() if isinstance(n, ast.For) and any(is_tail(x) for x in ast.walk(n.iter)) and isinstance(n.target, ast.Name)]:
        for ap_ in [n for n in ast.walk(loop) if isinstance(n, ast.Call) and isinstance(n.func, ast.Attribute) and n.func.attr in ("append", "extend")]:
            judged = True
            st_ = cfg_b.stmt_of(ap_)
            nonblank = [t for t, pol in cfg_b.guards(st_) if pol and isinstance(t, ast.Call) and isinstance(t.func, ast.Attribute) and t.func.attr == "strip" and loop.target.id in _names_in(t)]
            if nonblank:
                rep.ok("C06.R6", k, bq.module.site(ap_), f"continuation lines are taken only while `{short(nonblank[0], 30)}`")
            else:
                rep.violation(
                    "C06.R6",
                    k,
                    bq.module.site(ap_),
                    f"`{short(st_, 60)}` takes continuation lines of the attribution without testing that the line is not blank: the blank line after '-- Author' and the blocks "
                    "that follow it are swallowed into the attribution text instead of being rendered",
                )
    if not judged and prefix_rendered:
        raise Unsupported("block_quote: the loop that collects the attribution's continuation lines was not found")

    # 5. include
    inc = corpus.func("mocking:MockIncludeDirective.run")
    seeds = set()
    is_read = lambda x: isinstance(x, ast.Call) and isinstance(x.func, ast.Attribute) and x.func.attr in ("read_text", "read", "read_bytes")

    def reads_file(h: FunctionInfo, depth: int = 0) -> bool:
        """The helper reads the file itself, or calls a package helper that does."""
        if any(is_read(x) for x in h.local_nodes()):
            return True
        if depth >= 2:
            return False
        for x in h.local_nodes():
            if isinstance(x, ast.Call):
                h2 = _package_callee(x, h)
                if h2 is not None and not h2.is_lambda and h2.fq != h.fq and reads_file(h2, depth + 1):
                    return True
        return False

    def is_src(x: ast.AST) -> bool:
        if is_read(x):
            return True
        if isinstance(x, ast.Call):
            h = _package_callee(x, inc)
            return h is not None and not h.is_lambda and h.fq != inc.fq and reads_file(h)
        return False

    for names, val in _bindings(inc):
        if any(is_src(x) for x in ast.walk(val)):
            seeds |= names
    # the helpers that produce the text: from the read to what they return
    seen_h: set[str] = set()
    for x in inc.local_nodes():
        if isinstance(x, ast.Call) and not is_read(x) and is_src(x):
            h = _package_callee(x, inc)
            if h.fq in seen_h:
                continue
            seen_h.add(h.fq)
            hseeds = set()
            for names, val in _bindings(h):
                if any(is_read(y) for y in ast.walk(val)):
                    hseeds |= names
            rets = [r.value for r in h.local_nodes() if isinstance(r, ast.Return) and r.value is not None]
            if rets and (hseeds or any(is_read(y) for r in rets for y in ast.walk(r))):
                _text_conserved(rep, h, hseeds or {"<read>"}, rets, "the included file's text", f"the text returned by {h.name}()", source_pred=is_read)
    _text_conserved(rep, inc, seeds, nrt_text_args(inc), "the included file's text", "the nested parse", source_pred=is_src)
    # the byte order mark of the file is not part of its text (docutils' input layer drops it for the top-level file)
    helpers_ = [h_ for h_ in (_package_callee(x, inc) for x in inc.local_nodes() if isinstance(x, ast.Call)) if h_ is not None and not h_.is_lambda and h_.fq != inc.fq]
    scope_f = [inc] + [h_ for h_ in helpers_ if reads_file(h_) or any(_strips_bom(y) for y in h_.local_nodes())]
    bom = None
    for f_ in {x.fq: x for x in scope_f}.values():
        fseeds = set()
        for names, val in _bindings(f_):
            if any((is_src(x) if f_.fq == inc.fq else is_read(x)) for x in ast.walk(val)):
                fseeds |= names
        fcar = _forward(f_, fseeds | (set(f_.params) if f_.fq != inc.fq else set()))
        for n in f_.local_nodes():
            if _strips_bom(n) and (_names_in(n.func.value) & fcar or any(is_read(x) or is_src(x) for x in ast.walk(n.func.value))):
                bom = (n, f_)
            if is_read(n):
                enc = kwarg(n, "encoding")
                if isinstance(enc, ast.Constant) and str(enc.value).lower().replace("_", "-") == "utf-8-sig":
                    bom = (n, f_)
    k = f"{inc.fq}|a byte order mark is dropped from the included file's text"
    if bom is not None:
        rep.ok("C06.R6", k, bom[1].module.site(bom[0]), short(bom[0], 60))
    else:
        rep.violation(
            "C06.R6",
            k,
            inc.module.site(nrt_text_args(inc)[0]) if nrt_text_args(inc) else inc.site(),
            "the file is read with read_text() and nothing removes a leading U+FEFF: the mark stays in front of the first line of an included UTF-8 file, so a first "
            "heading, list item or target is rendered as literal paragraph text, while docutils' input layer strips the mark of the same text when it is the document itself",
        )
    # 6. substitution
    sub = corpus.func(f"{RENDERER}.render_substitution")
    seeds = set()
    is_tmpl = lambda x: isinstance(x, ast.Call) and isinstance(x.func, ast.Attribute) and x.func.attr == "render"
    for names, val in _bindings(sub):
        if any(is_tmpl(x) for x in ast.walk(val)):
            seeds |= names
    _text_conserved(rep, sub, seeds, nrt_text_args(sub), "the substitution's value", "the nested parse", source_pred=is_tmpl)
    def env_class(c: ast.AST, f: FunctionInfo, depth: int = 0):
        """'library' for a jinja2 environment class, the package ClassInfo for a subclass of one, else None."""
        if not isinstance(c, ast.Call):
            return None
        full = f.module.resolve(dotted(c.func) or "")
        if full in ENV_CLASSES:
            return "library"
        ci_ = corpus.find_class(full)
        if ci_ is not None and any(b in ENV_CLASSES or (corpus.find_class(b) is not None and any(bb in ENV_CLASSES for bb in corpus.external_bases(corpus.find_class(b)))) for b in ci_.bases):
            return ci_
        return None

    is_env = lambda c, f: env_class(c, f) is not None
    # the function itself, the package helpers it calls (two levels), and instance attributes they read
    scope = {sub.fq: sub}
    for _ in range(2):
        for f in list(scope.values()):
            for c, targets in g.callees(f):
                for t in g.flat_targets(targets):
                    if t.cls is not None and _owner_class(sub) is not None and any(t.cls.fq == x.fq for x in corpus.mro(_owner_class(sub)) + corpus.subclasses(_owner_class(sub))) and not t.name.startswith("render_") and t.name not in ("create_warning", "nested_render_text"):
                        scope.setdefault(t.fq, t)
    envs: list[tuple[ast.Call, FunctionInfo]] = []
    for f in scope.values():
        envs += [(c, f) for c in _fn_calls(f) if is_env(c, f)]
        for n in f.local_nodes():
            if isinstance(n, ast.Attribute) and isinstance(n.value, ast.Name) and n.value.id == "self" and isinstance(n.ctx, ast.Load):
                for v in _self_attr_values(f, n.attr, corpus):
                    envs += [(c, f) for c in ast.walk(v) if is_env(c, f)]
        for n in f.local_nodes():
            if isinstance(n, ast.Name) and isinstance(n.ctx, ast.Load) and not _local_defs(f, n.id) and n.id not in f.params:
                cv = _module_const(f, n.id, corpus)
                if cv is not None:
                    envs += [(c, f) for c in ast.walk(cv) if is_env(c, f)]
    envs = list({id(c): (c, f) for c, f in envs}.values())
    if not envs:
        raise Unsupported("render_substitution: the jinja2 Environment construction was not found (looked in the function, its helpers and the instance attributes they read)")
    for c, envf in envs:
        k = f"{sub.fq}|template engine returns the value untransformed"
        bad = []
        for kw in c.keywords:
            if kw.arg is None:
                raise Unsupported("render_substitution: Environment(**kwargs)")
            if kw.arg == "autoescape" and not (isinstance(kw.value, ast.Constant) and not kw.value.value):
                bad.append(f"autoescape={unparse(kw.value)} HTML-escapes < > & ' \" in every substituted value")
            if kw.arg == "finalize":
                bad.append(f"finalize={short(kw.value, 40)} post-processes every substituted value")
        ec = env_class(c, envf)
        if ec is not None and ec != "library":
            # a subclass defined in the package: it must not switch the output transformations on itself
            for st_ in ec.node.body:
                tgt_names = [t.id for t in getattr(st_, "targets", []) if isinstance(t, ast.Name)] + ([st_.target.id] if isinstance(st_, ast.AnnAssign) and isinstance(st_.target, ast.Name) else [])
                if any(nm in ("autoescape", "finalize") for nm in tgt_names) or (isinstance(st_, ast.FunctionDef) and st_.name in ("finalize", "autoescape", "__init__")):
                    what_ = tgt_names[0] if tgt_names else st_.name
                    if what_ == "__init__":
                        raise Unsupported(f"{ec.name}.__init__ overrides the jinja2 environment constructor: options not traceable")
                    bad.append(f"class {ec.name} sets `{what_}` for every substitution environment")
        if len(c.args) > 0:
            raise Unsupported("render_substitution: positional Environment arguments")
        if bad:
            rep.violation("C06.R6", k, envf.module.site(c), "; ".join(bad) + ": the text that is nested-parsed is not the text of the substitution (code spans, code blocks and HTML blocks show entities / lose their markup)")
        else:
            rep.ok("C06.R6", k, envf.module.site(c), "no autoescape / finalize")
    # 7. div content, 8. nested_render_text itself
    cf = corpus.func(f"{RENDERER}.render_colon_fence")
    _text_conserved(rep, cf, {_pos_params(cf)[0]}, nrt_text_args(cf), "the fence content", "the nested parse")
    sinks = [c.args[0] for c in _fn_calls(nrt) if isinstance(c.func, ast.Attribute) and c.func.attr in ("parse", "parseInline") and unparse(_deref(c.func.value, nrt) or c.func.value).endswith("md") and c.args]
    _text_conserved(rep, nrt, {_pos_params(nrt)[0]}, sinks, "the text argument", "markdown-it")
    rep.expect_min("C06.R6", 10, "nine text paths and the template environment")


# ---------------------------------------------------------------------------
# R7 syntax-rule lookups name a rule of the chain they look in

CHAINS = ("core", "block", "inline", "inline2")


def _rule_catalogue(corpus: Corpus, rep: Report) -> dict[str, set[str]]:
    """chain -> rule names, read from markdown-it's rule tables and from the ``ruler.before/after/push/at``
    registrations of the plugin modules that parsers/mdit.py imports (sources parsed, never imported)."""
    cat: dict[str, set[str]] = {c: set() for c in CHAINS}
    for rel, table, chain in (
        ("markdown_it/parser_core.py", "_rules", "core"),
        ("markdown_it/parser_block.py", "_rules", "block"),
        ("markdown_it/parser_inline.py", "_rules", "inline"),
        ("markdown_it/parser_inline.py", "_rules2", "inline2"),
    ):
        m = corpus.sibling(rel)
        rep.saw_sibling(rel)
        node = m.const_nodes.get(table)
        if not isinstance(node, (ast.List, ast.Tuple)):
            raise Unsupported(f"{rel}: rule table {table} not found")
        for e in node.elts:
            if isinstance(e, (ast.Tuple, ast.List)) and e.elts and isinstance(e.elts[0], ast.Constant) and isinstance(e.elts[0].value, str):
                cat[chain].add(e.elts[0].value)
    mdit = corpus.mod("parsers.mdit")
    mods = sorted({v.rsplit(".", 1)[0] for v in mdit.imports.values() if v.startswith("mdit_py_plugins.")})
    for dm in mods:
        for cand in (dm, dm + ".index"):
            sm = corpus.sibling_module(cand)
            if sm is None:
                continue
            rep.saw_sibling(sm.rel)
            for n in ast.walk(sm.tree):
                if not (isinstance(n, ast.Call) and isinstance(n.func, ast.Attribute) and n.func.attr in ("before", "after", "push", "at")):
                    continue
                d = dotted(n.func.value) or ""
                parts = d.split(".")
                if len(parts) < 2 or parts[-1] not in ("ruler", "ruler2") or parts[-2] not in ("core", "block", "inline"):
                    continue
                chain = "inline2" if parts[-1] == "ruler2" else parts[-2]
                idx = 1 if n.func.attr in ("before", "after") else 0
                if len(n.args) > idx and isinstance(n.args[idx], ast.Constant) and isinstance(n.args[idx].value, str):
                    cat[chain].add(n.args[idx].value)
    return cat


@rule("C06.R7")
def r7_rule_lookups(corpus: Corpus, rep: Report, tier: str):
    _use(corpus)
    rep.rule("C06.R7", "a test '<rule>' in md.get_active_rules()[<chain>] names a rule that markdown-it / the configured plugins register on that chain (a rule looked up in the wrong chain is a constant-false test)")
    cat = corpus.cache("c06-rule-catalogue", lambda: _rule_catalogue(corpus, rep))
    sane = {"fence", "paragraph"} <= cat["block"] and "colon_fence" in cat["block"] and {"text", "backticks"} <= cat["inline"] and "inline" in cat["core"] and "emphasis" in cat["inline2"]
    if not sane:
        raise Unsupported(f"rule catalogue not understood (block={len(cat['block'])}, inline={len(cat['inline'])}, core={len(cat['core'])}, inline2={len(cat['inline2'])})")
    rep.ok("C06.R7", "catalogue|markdown-it + plugin rule names per chain", "markdown_it/parser_block.py", ", ".join(f"{c}:{len(cat[c])}" for c in CHAINS))
    for fi in corpus.all_functions():
        nodes_ = fi.local_nodes() if not fi.is_lambda else list(ast.walk(fi.node.body))
        for n in nodes_:
            if not (isinstance(n, ast.Compare) and len(n.ops) == 1 and isinstance(n.ops[0], (ast.In, ast.NotIn))):
                continue
            right = n.comparators[0]
            right = _deref(right, fi) if isinstance(right, ast.Name) and not fi.is_lambda else right
            if not isinstance(right, ast.Subscript):
                continue
            basev = _deref(right.value, fi) if isinstance(right.value, ast.Name) and not fi.is_lambda else right.value
            if not (isinstance(basev, ast.Call) and isinstance(basev.func, ast.Attribute) and basev.func.attr in ("get_active_rules", "get_all_rules")):
                continue
            site = fi.module.site(n)
            rep.saw_call(site)
            chain = right.slice.value if isinstance(right.slice, ast.Constant) else None
            name = n.left.value if isinstance(n.left, ast.Constant) else None
            k = f"{fi.fq}|{short(n, 90)}"
            if not isinstance(chain, str) or not isinstance(name, str):
                rep.listed("C06.R7", k, site, "rule name or chain is not a constant")
            elif chain not in cat:
                rep.violation("C06.R7", k, site, f"{basev.func.attr}() has no chain {chain!r} (chains: {', '.join(CHAINS)}): the lookup raises KeyError")
            elif name in cat[chain]:
                rep.ok("C06.R7", k, site, f"{name} is a {chain} rule")
            else:
                homes = [c for c in CHAINS if name in cat[c]]
                if homes:
                    rep.violation(
                        "C06.R7",
                        k,
                        site,
                        f"{name!r} is a {'/'.join(homes)} rule, it is never in the {chain!r} chain: the test is constantly {'False' if isinstance(n.ops[0], ast.In) else 'True'}, "
                        "so the syntax it is meant to recognise (e.g. a `:::` directive fence in a substituted value) is treated as not loaded and the text is parsed differently from the same text at top level",
                    )
                else:
                    rep.listed("C06.R7", k, site, f"{name!r} is not registered by markdown-it or the configured plugins (third-party rule?)")


@rule("C06.R8")
def r8_input_limits(corpus: Corpus, rep: Report, tier: str):
    _use(corpus)
    rep.rule("C06.R8", "a limit that the docutils front end checks on every line of the document (settings.line_length_limit) is also checked on the text of an included file")
    parse = corpus.func("parsers.docutils_:Parser.parse")
    inc = corpus.func("mocking:MockIncludeDirective.run")
    limits: dict[str, ast.AST] = {}
    for n in parse.local_nodes():
        if isinstance(n, ast.Compare) and len(n.ops) == 1 and isinstance(n.ops[0], (ast.Gt, ast.GtE, ast.Lt, ast.LtE)):
            sides = [n.left, n.comparators[0]]
            if any(isinstance(x, ast.Call) and dotted(x.func) == "len" for x in sides):
                for x in sides:
                    d = dotted(x) or ""
                    if isinstance(x, ast.Attribute) and "settings" in d.split("."):
                        limits[x.attr] = n
    if not limits:
        rep.ok("C06.R8", f"{parse.fq}|no per-line limit on the document text", parse.site(), "nothing to repeat for included text")
        return
    scope = {inc.fq: inc}
    for _ in range(2):
        for f in list(scope.values()):
            for x in f.local_nodes():
                if isinstance(x, ast.Call):
                    h = _package_callee(x, f)
                    if h is not None and not h.is_lambda and _owner_class(h) is not None and _owner_class(inc) is not None and _owner_class(h).fq == _owner_class(inc).fq:
                        scope.setdefault(h.fq, h)
    for attr, cmp_ in sorted(limits.items()):
        k = f"{inc.fq}|settings.{attr} checked for included text as for the document"
        hit = next(((n, f) for f in scope.values() for n in f.local_nodes() if (isinstance(n, ast.Attribute) and n.attr == attr) or (isinstance(n, ast.Constant) and n.value == attr)), None)
        if hit is not None:
            rep.ok("C06.R8", k, hit[1].module.site(hit[0]))
        else:
            rep.violation(
                "C06.R8",
                k,
                inc.site(),
                f"{parse.qualname} refuses a document with a line longer than settings.{attr} (`{short(cmp_, 60)}` at {parse.module.site(cmp_)}), but the include mock hands the file's text to the "
                f"nested parse without that check (docutils' own Include performs it): the same over-long line is an error when written in place and is rendered silently when it comes from an included file",
            )


SEARCH_METHODS = {"find", "index", "rfind", "rindex", "partition", "rpartition", "split", "rsplit", "search", "match"}


def _loop_selection(cfg, st, var: str, elts: list[str]) -> set[int] | None:
    """Indices of the elements of the iterated literal for which statement ``st`` of the loop body runs, from the
    guards of ``st`` that compare the loop variable with a string literal; None when a guard reads the loop variable
    in any other way."""
    sel = set(range(len(elts)))
    for t, pol in cfg.guards(st):
        if not any(isinstance(x, ast.Name) and x.id == var for x in ast.walk(t)):
            continue
        if not (isinstance(t, ast.Compare) and len(t.ops) == 1 and isinstance(t.ops[0], (ast.Eq, ast.NotEq))):
            return None
        sides = [t.left, t.comparators[0]]
        const = next((s for s in sides if isinstance(s, ast.Constant) and isinstance(s.value, str)), None)
        name = next((s for s in sides if isinstance(s, ast.Name) and s.id == var), None)
        if const is None or name is None:
            return None
        eq = pol if isinstance(t.ops[0], ast.Eq) else not pol
        sel &= {i for i, e in enumerate(elts) if (e == const.value) == eq}
    return sel


@rule("C06.R9")
def r9_cut_order(corpus: Corpus, rep: Report, tier: str):
    _use(corpus)
    rep.rule(
        "C06.R9",
        "when the include mock selects part of the file with one loop over the option names, each pass searching the text as cut so far, "
        "the pass that cuts the beginning off runs before every pass that cuts the end off (the end text is looked for after the start text)",
    )
    inc = corpus.func("mocking:MockIncludeDirective.run")
    owner = _owner_class(inc)
    if owner is None:
        raise Unsupported("the include mock's run() is not a method")
    n_judged = 0
    for f in sorted(owner.methods.values(), key=lambda x: x.fq):
        loops = [n for n in f.local_nodes() if isinstance(n, ast.For)]
        if not loops:
            continue
        cfg = get_cfg(f)
        for loop in loops:
            if not (isinstance(loop.target, ast.Name) and isinstance(loop.iter, (ast.List, ast.Tuple)) and loop.iter.elts and all(isinstance(e, ast.Constant) and isinstance(e.value, str) for e in loop.iter.elts)):
                continue
            var = loop.target.id
            elts = [e.value for e in loop.iter.elts]
            body_nodes = [x for s in loop.body for x in ast.walk(s)]
            heads: dict[str, list[ast.stmt]] = {}
            tails: dict[str, list[ast.stmt]] = {}
            for st in body_nodes:
                if not (isinstance(st, ast.Assign) and len(st.targets) == 1 and isinstance(st.targets[0], ast.Name)):
                    continue
                v = st.value
                if not (isinstance(v, ast.Subscript) and isinstance(v.slice, ast.Slice) and isinstance(v.value, ast.Name) and v.value.id == st.targets[0].id and v.slice.step is None):
                    continue
                lo, up = v.slice.lower, v.slice.upper
                lo_none = lo is None or (isinstance(lo, ast.Constant) and not lo.value)
                if not lo_none and up is None:
                    heads.setdefault(v.value.id, []).append(st)
                elif lo_none and up is not None:
                    tails.setdefault(v.value.id, []).append(st)
            for text in sorted(set(heads) & set(tails)):
                k = f"{f.fq}|the cut of the beginning of `{text}` runs in an earlier pass than the cut of its end"
                site = f.module.site(loop)
                searched = any(
                    isinstance(x, ast.Call) and isinstance(x.func, ast.Attribute) and x.func.attr in SEARCH_METHODS
                    and (any(isinstance(y, ast.Name) and y.id == text for y in ast.walk(x.func.value)) or any(isinstance(y, ast.Name) and y.id == text for a in x.args for y in ast.walk(a)))
                    for x in body_nodes
                )
                if not searched:
                    rep.error("C06.R9", f"{site}: `{text}` is cut at both ends in this loop but is not searched inside it: the order of the passes cannot be judged")
                    continue
                hsel: set[int] = set()
                tsel: set[int] = set()
                unknown = False
                for sts, acc in ((heads[text], hsel), (tails[text], tsel)):
                    for st in sts:
                        s_ = _loop_selection(cfg, st, var, elts)
                        if s_ is None:
                            unknown = True
                        else:
                            acc |= s_
                if unknown or not hsel or not tsel or (hsel & tsel):
                    rep.error("C06.R9", f"{site}: cannot tell which elements of `{short(loop.iter, 50)}` select the cut of the beginning / of the end of `{text}`")
                    continue
                n_judged += 1
                if max(hsel) < min(tsel):
                    rep.ok("C06.R9", k, site, f"{elts[max(hsel)]!r} precedes {elts[min(tsel)]!r} in `{short(loop.iter, 50)}`")
                else:
                    rep.violation(
                        "C06.R9",
                        k,
                        site,
                        f"`{short(loop.iter, 50)}`: the pass for {elts[min(tsel)]!r} cuts the end of `{text}` before the pass for {elts[max(hsel)]!r} cuts its beginning, so the end text is searched "
                        "from the top of the file instead of after the start text: when it also occurs at or before the start text the selection is empty or wrong ('text not found') "
                        "although the same snippet written in place renders",
                    )
    if n_judged == 0:
        # the same two cuts written as consecutive statements (the loop unrolled): the search that bounds the cut of the
        # end must come after the cut of the beginning, and never before it
        for f in sorted(owner.methods.values(), key=lambda x: x.fq):
            cfg = get_cfg(f)

            def searches(e: ast.AST, use_stmt, text: str, depth: int = 0) -> list[ast.stmt]:
                """statements binding a name that ``e`` (read at ``use_stmt``) derives from to a call that is given ``text``"""
                out_: list[ast.stmt] = []
                for x in ast.walk(e):
                    if not (isinstance(x, ast.Name) and x.id != text and x.id not in f.params):
                        continue
                    r = _reaching_def(f, x.id, use_stmt)
                    if r is None:
                        continue
                    st_, v_ = r
                    if any(isinstance(c_, ast.Call) and any(isinstance(y, ast.Name) and y.id == text for y in ast.walk(c_)) for c_ in ast.walk(v_)):
                        out_.append(st_)
                    elif depth < 3:
                        out_ += searches(v_, st_, text, depth + 1)
                return out_

            heads2: dict[str, list] = {}
            tails2: dict[str, list] = {}
            for st in f.local_nodes():
                if not (isinstance(st, ast.Assign) and len(st.targets) == 1 and isinstance(st.targets[0], ast.Name)):
                    continue
                v = st.value
                if not (isinstance(v, ast.Subscript) and isinstance(v.slice, ast.Slice) and isinstance(v.value, ast.Name) and v.value.id == st.targets[0].id and v.slice.step is None):
                    continue
                if st in cfg.loops or any(isinstance(a, (ast.For, ast.While)) for a in ancestors(st)):
                    continue
                lo, up = v.slice.lower, v.slice.upper
                lo_none = lo is None or (isinstance(lo, ast.Constant) and not lo.value)
                if not lo_none and up is None:
                    ss = searches(lo, st, v.value.id)
                    if ss:
                        heads2.setdefault(v.value.id, []).append((st, ss))
                elif lo_none and up is not None:
                    ss = searches(up, st, v.value.id)
                    if ss:
                        tails2.setdefault(v.value.id, []).append((st, ss))
            for text in sorted(set(heads2) & set(tails2)):
                if len(heads2[text]) != 1 or len(tails2[text]) != 1:
                    continue  # several cuts at one end: not a shape this rule decides
                (h, _hs), (t, ts) = heads2[text][0], tails2[text][0]
                k = f"{f.fq}|the cut of the beginning of `{text}` runs before the search that bounds the cut of its end"
                after_h = cfg.reachable_from(h)
                if all(s_ in after_h for s_ in ts) and not any(h in cfg.reachable_from(s_) for s_ in ts):
                    n_judged += 1
                    rep.ok("C06.R9", k, f.module.site(t), f"`{short(ts[0], 50)}` follows `{short(h, 50)}`")
                elif h in cfg.reachable_from(t) and not any(s_ in after_h for s_ in ts):
                    n_judged += 1
                    rep.violation(
                        "C06.R9",
                        k,
                        f.module.site(t),
                        f"`{short(t, 50)}` cuts the end of `{text}` at a position found (`{short(ts[0], 50)}`) before `{short(h, 50)}` cut its beginning: the end text is searched from the top of the file "
                        "instead of after the start text, so when it also occurs at or before the start text the selection is empty or wrong although the same snippet written in place renders",
                    )
    rep.expect_min("C06.R9", 1, "MockIncludeDirective selects :start-after: / :end-before: with one loop over the two option names (hand-checked)")


RULES = [r1_one_engine, r2_sibling_fences, r3_node_context, r4_state_restored, r5_result_fields, r6_text_conserved, r7_rule_lookups, r8_input_limits, r9_cut_order]


# ---------------------------------------------------------------------------
# mutants of the current tree


def _seg(mod, node) -> str:
    return ast.get_source_segment(mod.src, node) or ""


def _indent(mod, st) -> str:
    line = mod.lines[st.lineno - 1]
    return line[: len(line) - len(line.lstrip())]


def _stmt_of(node):
    n = node
    while not isinstance(n, ast.stmt):
        n = parent(n)
    return n


def mutants(corpus: Corpus):
    _use(corpus)
    out: list = []
    base = corpus.mod("mdit_to_docutils.base")
    mk = corpus.mod("mocking")
    R = "DocutilsRenderer."

    def add(mid, rule_, mod, node, text, expect, canary=False):
        if node is None:
            out.append((mid, "anchor construct not found on this tree"))
        else:
            out.append(Mutant(mid, rule_, mod.rel, splice(mod.src, node, text), expect=expect, canary=canary))

    is_call = lambda n, attr: isinstance(n, ast.Call) and isinstance(n.func, ast.Attribute) and n.func.attr == attr

    # ---- R1
    nrt = base.func(R + "nested_render_text")
    c = find_node(nrt, lambda n: is_call(n, "parse") and len(n.args) == 2)
    add("c06-nested-parse-fresh-env", "C06.R1", base, c.args[1] if c else None, "{}", "self.md.parse", canary=True)
    ife = find_node(nrt, lambda n: isinstance(n, (ast.IfExp, ast.If)) and isinstance(n.test, ast.Name) and any(is_call(x, "parseInline") for x in ast.walk(n)))
    add("c06-inline-flag-inverted", "C06.R1", base, ife.test if ife else None, f"not {ife.test.id}" if ife else "", "selected by the inline flag")
    inc = mk.func("MockIncludeDirective.run")
    c = find_node(inc, lambda n: is_call(n, "nested_render_text"))
    add(
        "c06-include-bypasses-nested-render-text",
        "C06.R1",
        mk,
        c,
        'self.renderer._render_tokens(self.renderer.md.parse(file_content + "\\n", self.renderer.md_env))',
        "MockIncludeDirective.run",
    )
    if c is not None:
        st = _stmt_of(c)
        add("c06-include-rebinds-md-env", "C06.R1", mk, st, "self.renderer.md_env = dict(self.renderer.md_env)\n" + _indent(mk, st) + _seg(mk, st), "binds .md_env")
    inl = mk.func("MockInliner.parse")
    c = find_node(inl, lambda n: is_call(n, "nested_render_text"))
    kw = next((k for k in c.keywords if k.arg == "inline"), None) if c else None
    add("c06-inliner-parses-as-block", "C06.R1", mk, kw.value if kw else None, "False", "MockInliner.parse")
    cf = base.func(R + "render_colon_fence")
    c = find_node(cf, lambda n: is_call(n, "nested_render_text"))
    add("c06-div-reenters-render", "C06.R1", base, c, "self.render(self.md.parse(token.content, self.md_env), self.md_options, self.md_env)", "re-enters")
    np_ = mk.func("MockState.nested_parse")
    c = find_node(np_, lambda n: is_call(n, "nested_render_text"))
    add("c06-nested-parse-renders-other-text", "C06.R1", mk, c.args[0] if c and c.args else None, '"\\n".join(self.state_machine.input_lines)', "MockState.nested_parse")

    # class: entries of the shared environment taken out again around a nested render
    tr_i = find_node(inc, lambda n: isinstance(n, ast.Try) and n.finalbody and any(is_call(x, "nested_render_text") for x in ast.walk(n)))
    if tr_i is not None:
        rest = sorted((n for s_ in tr_i.finalbody for n in ast.walk(s_) if isinstance(n, ast.Assign) and isinstance(n.targets[0], ast.Subscript) and unparse(n.targets[0].value).endswith("md_env")), key=lambda n: n.lineno)
        if len(rest) >= 2:
            env_txt = unparse(rest[0].targets[0].value)
            src = splice(mk.src, rest[-1], f"{env_txt}.update(env_before)")
            t_ = ast.parse(src)
            first = sorted((n for n in ast.walk(t_) if isinstance(n, ast.Assign) and n.lineno == rest[0].lineno), key=lambda n: n.col_offset)[0]
            src = splice(src, first, f"{env_txt}.clear()")
            t_ = ast.parse(src)
            tr2 = next(n for n in ast.walk(t_) if isinstance(n, ast.Try) and n.lineno == tr_i.lineno)
            out.append(Mutant("c06-include-rolls-back-env-from-snapshot", "C06.R1", mk.rel, splice(src, tr2, f"env_before = dict({env_txt})\n" + _indent(mk, tr_i) + (ast.get_source_segment(src, tr2) or "")), expect="drops entries of the shared environment"))
            add("c06-include-deletes-wordcount", "C06.R1", mk, rest[-1], _seg(mk, rest[-1]) + "\n" + _indent(mk, rest[-1]) + f'{env_txt}.pop("wordcount", None)', "drops entries of the shared environment")
        else:
            out.append(("c06-include-rolls-back-env-from-snapshot", "md_env restores not found in the include's finally"))
    c = find_node(nrt, lambda n: isinstance(n, ast.With))
    add("c06-nested-render-forgets-duplicate-refs", "C06.R1", base, c, _seg(base, c) + "\n" + _indent(base, c) + 'del self.md_env["duplicate_refs"]' if c is not None else "", "drops entries of the shared environment")

    # class: nested text rendered from tokens that were not produced in this call (cache keyed on the text)
    first = nrt.node.body[1] if isinstance(nrt.node.body[0], ast.Expr) and isinstance(nrt.node.body[0].value, ast.Constant) else nrt.node.body[0]
    last_parse = None
    for st_ in nrt.node.body:
        if any(is_call(x, "parse") or is_call(x, "parseInline") for x in ast.walk(st_)):
            last_parse = st_
    if last_parse is not None and first is not None and last_parse.lineno >= first.lineno:
        ind = _indent(base, first)
        lines_ = base.src.splitlines(keepends=True)
        block = "".join(lines_[first.lineno - 1 : last_parse.end_lineno])
        indented = "".join((("    " + ln) if ln.strip() else ln) for ln in block.splitlines(keepends=True))
        new_block = (
            ind + "_key = (text, inline)\n"
            + ind + "_cache = self.__dict__.setdefault('_nested_token_cache', {})\n"
            + ind + "if _key not in _cache:\n"
            + indented
            + ind + "    _cache[_key] = tokens\n"
            + ind + "tokens = list(_cache[_key])\n"
        )
        new_src = "".join(lines_[: first.lineno - 1]) + new_block + "".join(lines_[last_parse.end_lineno :])
        out.append(Mutant("c06-nested-tokens-cached-by-text", "C06.R1", base.rel, new_src, expect="renders the tokens it parsed"))
    else:
        out.append(("c06-nested-tokens-cached-by-text", "tokenising statements of nested_render_text not found"))

    # ---- R2
    c = find_node(cf, lambda n: is_call(n, "strip") and unparse(n.func.value).endswith(".info"))
    add("c06-colon-fence-info-not-stripped", "C06.R2", base, c, unparse(c.func.value) if c else "", "directive name", canary=True)
    fe = base.func(R + "render_fence")
    c = find_node(fe, lambda n: is_call(n, "split"))
    add("c06-fence-splits-on-space-only", "C06.R2", base, c, f"{_seg(base, c.func)}(' ', 1)" if c else "", "render_fence~render_colon_fence")
    c = find_node(cf, lambda n: is_call(n, "render_directive"))
    add("c06-colon-fence-name-lowercased", "C06.R2", base, c.args[1] if c and len(c.args) > 1 else None, f"{_seg(base, c.args[1])}.lower()" if c and len(c.args) > 1 else "", "directive name")
    g_ = find_node(cf, lambda n: isinstance(n, ast.If) and isinstance(n.test, ast.BoolOp) and "startswith" in unparse(n.test) and "endswith" in unparse(n.test))
    add("c06-colon-fence-guard-weakened", "C06.R2", base, g_.test if g_ else None, _seg(base, g_.test.values[0]) if g_ else "", "test selecting the directive route")
    a_ = find_node(cf, lambda n: isinstance(n, ast.Assign) and isinstance(n.targets[0], ast.Name) and n.targets[0].id == "arguments")
    add("c06-colon-fence-rebinds-arguments", "C06.R2", base, a_, _seg(base, a_) + "\n" + _indent(base, a_) + "arguments = arguments.lower()" if a_ is not None else "", "argument text")
    rd = base.func(R + "render_directive")
    c = find_node(rd, lambda n: is_call(n, "run_directive"))
    a = next((x for x in (c.args if c else []) if unparse(x).endswith(".content")), None)
    add("c06-directive-body-stripped", "C06.R2", base, a, f"{_seg(base, a)}.strip()" if a is not None else "", "body text")
    # a second content rewrite in the colon fence only (on a tree where the first one is gone this still fires)
    c = find_node(fe, lambda n: is_call(n, "render_directive"))
    if c is not None:
        st = _stmt_of(c)
        add(
            "c06-fence-rewrites-token-content",
            "C06.R2",
            base,
            st,
            "token.token.content = token.token.content.lstrip()\n" + _indent(base, st) + _seg(base, st),
            "render_fence|token handed",
        )

    # revert of 3a96f3b: the colon fence prefixes a newline again, the option scanner reads ':::' lines as options again
    dm = corpus.mod("parsers.directives")
    pdo = dm.func("_parse_directive_options")
    c = find_node(cf, lambda n: is_call(n, "render_directive"))
    br = find_node(pdo, lambda n: isinstance(n, ast.If) and "':::'" in unparse(n.test) and isinstance(n.test, ast.BoolOp) and isinstance(n.test.op, ast.And))
    if c is not None:
        st = _stmt_of(c)
        ind = _indent(base, st)
        hack = (
            'if token.content.startswith(":::"):\n'
            + ind + '    assert token.token is not None\n'
            + ind + "    linear_token = token.token.copy()\n"
            + ind + '    linear_token.content = "\\n" + linear_token.content\n'
            + ind + "    token.token = linear_token\n"
            + ind
        )
        more = {}
        if br is not None:
            more[dm.rel] = splice(dm.src, br.test, _seg(dm, br.test.values[0]))
        out.append(Mutant("c06-revert-3a96f3b-colon-fence-newline-hack", "C06.R2", base.rel, splice(base.src, st, hack + _seg(base, st)), expect="render_colon_fence|token handed", more=more))
    else:
        out.append(("c06-revert-3a96f3b-colon-fence-newline-hack", "render_colon_fence no longer calls render_directive"))

    # ---- R3
    c = find_node(np_, lambda n: is_call(n, "current_node_context"))
    add("c06-nested-parse-appends-node", "C06.R3", mk, c, f"{_seg(mk, c.func)}({_seg(mk, c.args[0])}, append=True)" if c else "", "MockState.nested_parse")
    withs = sorted((n for n in inl.local_nodes() if isinstance(n, ast.With)), key=lambda n: n.lineno)
    if len(withs) >= 2:
        ce = withs[-1].items[0].context_expr
        add("c06-inliner-renders-into-parent", "C06.R3", mk, ce.args[0], _pos_params(inl)[3] if len(_pos_params(inl)) > 3 else "parent", "MockInliner.parse")
    else:
        out.append(("c06-inliner-renders-into-parent", "MockInliner.parse no longer nests two contexts"))
    r = find_node(inl, lambda n: isinstance(n, ast.Return))
    add("c06-inliner-returns-nothing", "C06.R3", mk, r.value.elts[0] if r and isinstance(r.value, ast.Tuple) else None, "[]", "MockInliner.parse")
    cnc = base.func(R + "current_node_context")
    stores = sorted((n for n in cnc.local_nodes() if isinstance(n, ast.Assign) and unparse(n.targets[0]) == "self.current_node"), key=lambda n: n.lineno)
    add("c06-context-not-restored", "C06.R3", base, stores[-1] if len(stores) == 2 else None, "pass", "restore the saved current node")
    sub = base.func(R + "render_substitution")
    c = find_node(sub, lambda n: is_call(n, "nested_render_text") and not n.keywords)
    if c is not None:
        st = _stmt_of(c)
        ind = _indent(base, st)
        add("c06-substitution-wrapped-in-container", "C06.R3", base, st, "with self.current_node_context(nodes.container(), append=True):\n" + ind + "    " + _seg(base, st), "render_substitution")

    # ---- R4
    rs = base.func(R + "nested_render_text._restore")
    ys = find_node(rs, lambda n: isinstance(n, ast.Yield))
    post = [n for n in rs.local_nodes() if isinstance(n, ast.Assign) and ys is not None and n.lineno > ys.lineno]
    a = next((n for n in post if unparse(n.targets[0]) == "self._heading_offset"), None)
    add("c06-heading-offset-not-restored", "C06.R4", base, a, "pass", "_heading_offset", canary=True)
    a = next((n for n in post if unparse(n.targets[0]) == "self._level_to_section"), None)
    add("c06-level-map-not-restored", "C06.R4", base, a, "pass", "_level_to_section")
    a = next((n for n in post if "temp_root_node" in unparse(n.targets[0])), None)
    add("c06-temp-root-restored-to-none", "C06.R4", base, a.value if a else None, "None", "temp_root_node")
    tr = find_node(inc, lambda n: isinstance(n, ast.Try) and n.finalbody and any(is_call(x, "nested_render_text") for x in ast.walk(n)))
    if tr is not None:
        fin = [n for s_ in tr.finalbody for n in ast.walk(s_)]
        a = next((n for n in fin if isinstance(n, ast.Assign) and unparse(n.targets[0]).endswith("reporter.source")), None)
        add("c06-include-reporter-source-not-restored", "C06.R4", mk, a, "pass", "reporter.source")
        a = next((n for n in fin if isinstance(n, ast.Assign) and unparse(n.targets[0]).endswith("document['source']")), None)
        add("c06-include-document-source-not-restored", "C06.R4", mk, a, "pass", "document['source']")
        a = next((n for n in fin if isinstance(n, ast.Assign) and "relative-docs" in unparse(n.targets[0])), None)
        add("c06-include-relative-docs-leaks", "C06.R4", mk, a, "pass", "relative-docs'] changed for the included file -> not restored")
        # revert of aec6256: the enclosing include's settings are popped instead of restored
        src = mk.src
        okr = True
        for key in ("relative-images", "relative-docs"):
            a = next((n for n in fin if isinstance(n, ast.Assign) and key in unparse(n.targets[0]) and isinstance(n.targets[0], ast.Subscript)), None)
            if a is None:
                okr = False
        if okr:
            # splice from the bottom up so that earlier offsets stay valid
            for key in ("relative-docs", "relative-images"):
                t = ast.parse(src)
                cand = [n for n in ast.walk(t) if isinstance(n, ast.Assign) and isinstance(n.targets[0], ast.Subscript) and key in unparse(n.targets[0]) and isinstance(n.value, ast.Name)]
                a = sorted(cand, key=lambda n: n.lineno)[-1]
                src = splice(src, a, f"{unparse(a.targets[0].value)}.pop({key!r}, None)")
            out.append(Mutant("c06-revert-aec6256-include-pops-relative-settings", "C06.R4", mk.rel, src, expect="removed, not restored", canary=False))
        else:
            out.append(("c06-revert-aec6256-include-pops-relative-settings", "the restoring assignments are gone"))
    else:
        out.append(("c06-include-finally", "include mock has no try/finally around the nested render"))

    # in-progress markers (class: marker left behind on some exit / key computed in a depth-dependent frame)
    upd = find_node(sub, lambda n: isinstance(n, ast.Expr) and is_call(n.value, "update") and "sub_references" in unparse(n.value.func.value))
    tr0 = find_node(sub, lambda n: isinstance(n, ast.Try) and n.handlers and any(is_call(x, "render") for b_ in n.body for x in ast.walk(b_)))
    if upd is not None and tr0 is not None:
        # record the names before the (fallible) Jinja render: the error path returns without removing them
        src2 = splice(base.src, upd, "pass")
        t2 = ast.parse(src2)
        tr2 = next(n for n in ast.walk(t2) if isinstance(n, ast.Try) and n.lineno == tr0.lineno)
        refs = "{n.name for n in env.parse(f\"{{{{{token.content}}}}}\").find_all(jinja2.nodes.Name) if n.name != \"env\"}"
        ind = _indent(base, tr0)
        pre = (
            'self.document.sub_references = getattr(self.document, "sub_references", set())\n'
            + ind + "references = " + refs + "\n"
            + ind + "self.document.sub_references.update(references)\n"
            + ind
        )
        out.append(Mutant("c06-substitution-marks-before-fallible-render", "C06.R4", base.rel, splice(src2, tr2, pre + (ast.get_source_segment(src2, tr2) or "")), expect="in-progress marker removed on every exit"))
    else:
        out.append(("c06-substitution-marks-before-fallible-render", "update()/render try not found"))
    fin_sub = find_node(sub, lambda n: isinstance(n, ast.Expr) and is_call(n.value, "difference_update"))
    add("c06-substitution-marker-never-removed", "C06.R4", base, fin_sub, "pass", "sub_references: in-progress marker")
    if tr is not None:
        popst = next((s_ for s_ in tr.finalbody if isinstance(s_, ast.Expr) and is_call(s_.value, "pop") and "myst_include_stack" in unparse(s_.value.func.value)), None)
        add("c06-include-stack-not-popped", "C06.R4", mk, popst, "pass", "myst_include_stack: in-progress marker")
    kd = find_node(inc, lambda n: isinstance(n, ast.Assign) and isinstance(n.targets[0], ast.Name) and n.targets[0].id == "include_key")
    add("c06-include-key-relative-to-swapped-source", "C06.R4", mk, kd.value if kd else None, "os.path.relpath(path, source_dir)", "key does not depend on state swapped")
    add("c06-include-key-file-name-only", "C06.R4", mk, kd.value if kd else None, "path.name", "key does not depend on state swapped")
    add("c06-include-key-relative-to-document-dir", "C06.R4", mk, kd.value if kd else None, 'str(path.relative_to(Path(self.document["source"]).parent))', "key does not depend on state swapped")

    # ---- R7 (class: a syntax rule looked up in the wrong markdown-it chain)
    c = find_node(sub, lambda n: is_call(n, "match") and "REGEX_DIRECTIVE_START" in unparse(n.func.value))
    add("c06-colon-fence-looked-up-in-inline-chain", "C06.R7", base, c, f'({_seg(base, c)} and "colon_fence" in self.md.get_active_rules()["inline"])' if c is not None else "", "colon_fence", canary=False)
    t = find_node(nrt, lambda n: isinstance(n, ast.If) and "front_matter" in unparse(n.test))
    add("c06-front-matter-looked-up-in-core-chain", "C06.R7", base, t.test if t else None, f'{_seg(base, t.test)} and "front_matter" in self.md.get_active_rules()["core"]' if t else "", "front_matter")
    if c is not None:
        st = _stmt_of(c)
        add(
            "c06-substitution-rule-looked-up-via-local",
            "C06.R7",
            base,
            st,
            'active = self.md.get_active_rules()\n' + _indent(base, st) + 'if "substitution_inline" not in active["block"]:\n' + _indent(base, st) + "    inline = False\n" + _indent(base, st) + _seg(base, st),
            "substitution_inline",
        )

    # class: an include without the option overwrites the setting inherited from the enclosing include
    if tr is not None:
        body_stores = {}
        for n in (x for b_ in tr.body for x in ast.walk(b_)):
            if isinstance(n, ast.Assign) and isinstance(n.targets[0], ast.Subscript) and unparse(n.targets[0].value).endswith("md_env") and isinstance(n.targets[0].slice, ast.Constant):
                body_stores[n.targets[0].slice.value] = n
        a = body_stores.get("relative-images")
        g_ = next((x for b_ in tr.body for x in ast.walk(b_) if isinstance(x, ast.If) and a is not None and a in x.body), None)
        if a is not None and g_ is not None:
            add("c06-include-resets-relative-images-when-option-absent", "C06.R4", mk, g_, f"{_seg(mk, a.targets[0])} = ({_seg(mk, a.value)} if {_seg(mk, g_.test)} else None)", "overridden only when the include carries :relative-images:")
            add("c06-include-clears-relative-images-in-else", "C06.R4", mk, g_, _seg(mk, g_) + "\n" + _indent(mk, g_) + "else:\n" + _indent(mk, g_) + f'    {_seg(mk, a.targets[0])} = ""', "overridden only when the include carries :relative-images:")
        else:
            out.append(("c06-include-resets-relative-images-when-option-absent", "guarded relative-images store not found"))
        a = body_stores.get("relative-docs")
        g_ = next((x for b_ in tr.body for x in ast.walk(b_) if isinstance(x, ast.If) and a is not None and a in x.body), None)
        if a is not None and g_ is not None and isinstance(a.value, ast.Tuple):
            new_val = _seg(mk, a.value).replace('self.options["relative-docs"]', 'self.options.get("relative-docs")')
            add("c06-include-stores-relative-docs-unconditionally", "C06.R4", mk, g_, f"{_seg(mk, a.targets[0])} = {new_val}", "overridden only when the include carries :relative-docs:")
        else:
            out.append(("c06-include-stores-relative-docs-unconditionally", "guarded relative-docs store not found"))

    # ---- round 10: reverts of the landed repairs
    # 7eca433: the byte order mark of an included file
    bom_st = find_node(inc, lambda n: isinstance(n, ast.Assign) and _strips_bom(n.value))
    add("c06-revert-7eca433-include-keeps-bom", "C06.R6", mk, bom_st, "pass", "byte order mark")
    # ddbf2af: nested text parsed with the front-matter rule
    dis = find_node(nrt, lambda n: isinstance(n, ast.Expr) and is_call(n.value, "disable") and "front_matter" in unparse(n.value))
    add("c06-revert-ddbf2af-front-matter-rule-active", "C06.R1", base, dis, "pass", "front_matter rule")
    add("c06-front-matter-rule-misspelt", "C06.R1", base, dis.value.args[0] if dis is not None else None, '"frontmatter"', "front_matter rule")
    c = find_node(np_, lambda n: is_call(n, "nested_render_text"))
    add("c06-nested-parse-allows-front-matter", "C06.R1", mk, c, _seg(mk, c)[:-1].rstrip().rstrip(",") + ", allow_front_matter=True)" if c is not None else "", "passed only for the text of a file")
    # the restore of the heading offset under a narrower test than the change (offset 0 is a value)
    a = next((n for n in post if unparse(n.targets[0]) == "self._heading_offset"), None)
    gw = find_node(rs, lambda n: isinstance(n, ast.If) and any(isinstance(x, ast.Assign) and unparse(x.targets[0]) == "self._heading_offset" for x in n.body))
    if a is not None and gw is not None:
        pname = next((x.id for x in ast.walk(gw.test) if isinstance(x, ast.Name)), None)
        add("c06-heading-offset-restored-only-when-truthy", "C06.R4", base, a, f"if {pname}:\n" + _indent(base, a) + "    " + _seg(base, a), "_heading_offset")
    else:
        out.append(("c06-heading-offset-restored-only-when-truthy", "guarded heading-offset change not found"))
    # R8: another per-line limit of the top-level parse that the include mock does not repeat
    dparse = corpus.func("parsers.docutils_:Parser.parse")
    dmod = dparse.module
    cmp_ = find_node(dparse, lambda n: isinstance(n, ast.Compare) and any(isinstance(x, ast.Call) and dotted(x.func) == "len" for x in [n.left] + n.comparators) and any(isinstance(x, ast.Attribute) and x.attr == "line_length_limit" for x in [n.left] + n.comparators))
    lim = next((x for x in ([cmp_.left] + cmp_.comparators) if isinstance(x, ast.Attribute)), None) if cmp_ is not None else None
    add("c06-top-level-checks-another-limit", "C06.R8", dmod, lim, f"{_seg(dmod, lim.value)}.max_line_length" if lim is not None else "", "max_line_length")

    # class: one of the cooperating sites that keep a nested ':::' fence out of the option block is weakened
    loop_if = find_node(pdo, lambda n: isinstance(n, ast.If) and isinstance(n.test, ast.BoolOp) and isinstance(n.test.op, ast.Or) and any(_colon_prefix_test(v) == ":::" for v in n.test.values) and any(isinstance(x, ast.Break) for x in n.body))
    if loop_if is not None:
        keep = [v for v in loop_if.test.values if _colon_prefix_test(v) != ":::"]
        add("c06-option-loop-takes-fence-opener", "C06.R6", dm, loop_if.test, " or ".join(_seg(dm, v) for v in keep), "option-line consumption stops")
        fence_t = next(v for v in loop_if.test.values if _colon_prefix_test(v) == ":::")
        add("c06-option-loop-excludes-four-colons-only", "C06.R6", dm, fence_t.args[0], '"::::"', "option-line consumption stops")
        add("c06-option-loop-tests-whole-content-for-fence", "C06.R6", dm, fence_t, f'{_pos_params(pdo)[0]}.startswith(":::")', "option-line consumption stops")
        subj = _seg(dm, fence_t.func.value)
        add("c06-option-loop-regex-without-fence-lookahead", "C06.R6", dm, loop_if.test, f'not re.match(r"[ \\t]*:", {subj})', "option-line consumption stops")
    else:
        out.append(("c06-option-loop-takes-fence-opener", "the loop test excluding ':::' lines was not found"))

    # ---- round 14
    # e2aca75: front matter only at the real beginning of the file
    c = find_node(inc, lambda n: is_call(n, "nested_render_text"))
    afm = next((k_ for k_ in c.keywords if k_.arg == "allow_front_matter"), None) if c is not None else None
    add("c06-revert-e2aca75-front-matter-for-any-selection", "C06.R1", mk, afm.value if afm else None, "True", "is off when")
    add("c06-front-matter-off-for-start-line-only", "C06.R1", mk, afm.value if afm else None, "not startline", "is off when :start-after:")
    add("c06-front-matter-off-for-start-after-only", "C06.R1", mk, afm.value if afm else None, 'not self.options.get("start-after")', "is off when :start-line:")
    # the start index normalised against the selected lines instead of the whole file
    fl = find_node(inc, lambda n: isinstance(n, ast.Assign) and isinstance(n.targets[0], ast.Name) and isinstance(n.value, ast.Call) and _splits_lines(n.value, inc) is not None)
    sl = find_node(inc, lambda n: isinstance(n, ast.Subscript) and isinstance(n.slice, ast.Slice) and fl is not None and isinstance(n.value, ast.Name) and n.value.id == fl.targets[0].id and isinstance(parent(n), ast.Call))
    if fl is not None and sl is not None and fl.lineno < sl.lineno:
        src = splice(mk.src, sl, fl.targets[0].id)
        src = splice(src, fl.value, _seg(mk, fl.value) + "[" + _seg(mk, sl.slice.lower) + ":" + _seg(mk, sl.slice.upper) + "]")
        out.append(Mutant("c06-start-index-normalised-against-selection", "C06.R1", mk.rel, src, expect="normalised against all lines"))
    else:
        out.append(("c06-start-index-normalised-against-selection", "line list / slice of the include not found"))
    # messages collected from the whole directive output instead of from the title they are placed after
    runf = base.func(R + "run_directive")
    fa = None
    for f2 in [x for x in base.functions.values() if not x.is_lambda]:
        fa = fa or find_node(f2, lambda n: isinstance(n, ast.Call) and (dotted(n.func) or "").split(".")[-1] == "findall" and len(n.args) == 1 and isinstance(n.args[0], ast.Name) and n.args[0].id == "title" and isinstance(parent(n), ast.Call) and "system_message" in unparse(parent(n)))
    add("c06-messages-collected-from-whole-directive-output", "C06.R3", base, fa.args[0] if fa is not None else None, "node", "moved only out of the node")
    # cf2d18a: the block after an attribution
    bq = mk.func("MockState.block_quote")
    rec = find_node(bq, lambda n: isinstance(n, ast.AugAssign) and is_call(n.value, "block_quote"))
    add("c06-revert-cf2d18a-lines-after-attribution-dropped", "C06.R6", mk, rec, "pass", "after the attribution are rendered")
    tail = find_node(bq, lambda n: isinstance(n, ast.Subscript) and isinstance(n.slice, ast.Slice) and n.slice.upper is None and n.slice.lower is not None and isinstance(parent(n), ast.Call) and is_call(parent(n), "block_quote"))
    add("c06-rest-taken-from-the-quote-lines-only", "C06.R6", mk, tail.value if tail is not None else None, "blockquote_lines", "after the attribution are rendered")
    brk = find_node(bq, lambda n: isinstance(n, ast.If) and isinstance(n.test, ast.BoolOp) and isinstance(n.test.op, ast.Or) and any(isinstance(x, ast.Break) for x in n.body) and any(unparse(v).startswith("not ") and ".strip()" in unparse(v) for v in n.test.values))
    if brk is not None:
        keep = [v for v in brk.test.values if not (unparse(v).startswith("not ") and ".strip()" in unparse(v))]
        add("c06-attribution-swallows-blank-lines", "C06.R6", mk, brk.test, " or ".join(_seg(mk, v) for v in keep), "a blank line ends the attribution")
    else:
        out.append(("c06-attribution-swallows-blank-lines", "the break test of the attribution loop was not found"))
    # 81b6fce: transitions in sections nested in a directive body
    tm = corpus.mod("mdit_to_docutils.transforms")
    hap = tm.func("HideNestedTransitions.apply") if "HideNestedTransitions.apply" in tm.functions else None
    if hap is not None:
        wl = find_node(hap, lambda n: isinstance(n, ast.While))
        vis = find_node(hap, lambda n: isinstance(n, ast.If) and "isinstance" in unparse(n.test) and "document" in unparse(n.test))
        if wl is not None and vis is not None:
            # revert: look at the direct parent only, sections count as fine
            src = splice(tm.src, vis.test, "not isinstance(node.parent, nodes.document | nodes.section)")
            out.append(Mutant("c06-revert-81b6fce-direct-parent-only", "C06.R3", tm.rel, src, expect="section ancestors end at the document"))
            # partial: climbs one level only
            add("c06-hider-climbs-one-section-only", "C06.R3", tm, wl, "if " + _seg(tm, wl.test) + ":\n" + "".join(_indent(tm, b_) + _seg(tm, b_) + "\n" for b_ in wl.body).rstrip("\n"), "section ancestors end at the document")
        else:
            out.append(("c06-revert-81b6fce-direct-parent-only", "while/if of the hider not found"))
    else:
        out.append(("c06-revert-81b6fce-direct-parent-only", "HideNestedTransitions.apply not found"))

    # ---- R5
    run = base.func(R + "run_directive")
    ctor = find_node(run, lambda n: isinstance(n, ast.Call) and {"content_offset", "block_text"} <= {k.arg for k in n.keywords})
    kwv = lambda call, name: next((k.value for k in call.keywords if k.arg == name), None) if call is not None else None
    add("c06-content-offset-zero", "C06.R5", base, kwv(ctor, "content_offset"), "0", "content_offset")
    v = kwv(ctor, "lineno")
    add("c06-lineno-off-by-one", "C06.R5", base, v, f"{_seg(base, v)} + 1" if v is not None else "", "lineno")
    v = kwv(ctor, "content")
    a0 = v.args[0] if isinstance(v, ast.Call) and v.args else None
    add("c06-directive-gets-raw-content", "C06.R5", base, a0, "content.splitlines()", "content <- StringList")
    ic = find_node(run, lambda n: isinstance(n, ast.Call) and unparse(n.func) == "MockIncludeDirective")
    add("c06-include-gets-unsplit-argument", "C06.R5", base, kwv(ic, "arguments"), "[first_line]", "include mock")
    pdb = mk.func("MockState.parse_directive_block")
    r = find_node(pdb, lambda n: isinstance(n, ast.Return) and isinstance(n.value, ast.Tuple))
    e3 = r.value.elts[3] if r is not None and len(r.value.elts) == 4 else None
    add("c06-parse-directive-block-offset-dropped", "C06.R5", mk, e3, unparse(e3.left) if isinstance(e3, ast.BinOp) else "", "return[3]")
    pc = find_node(run, lambda n: isinstance(n, ast.Call) and unparse(n.func) == "parse_directive_text")
    if pc is not None and len(pc.args) >= 3:
        add("c06-first-line-joined-into-content", "C06.R5", base, pc.args[2], f"{_seg(base, pc.args[1])} + '\\n' + {_seg(base, pc.args[2])}", "body text")

    # ---- R6 (class: a character-changing operation on the inserted text before the nested parse)
    def split_of(f, pname):
        """(assignment, the argument node naming ``pname``) of ``x = <line split of pname>`` in ``f``."""
        for n in sorted((x for x in f.local_nodes() if isinstance(x, ast.Assign) and isinstance(x.value, ast.Call)), key=lambda x: x.lineno):
            v = n.value
            if _splits_lines(v, f) is None:
                continue
            arg = v.func.value if isinstance(v.func, ast.Attribute) and v.func.attr in ("splitlines", "split") else (v.args[0] if v.args else None)
            if isinstance(arg, ast.Name) and arg.id == pname:
                return n, arg
        return None, None

    a, arg = split_of(pdo, _pos_params(pdo)[0])
    add("c06-option-scan-skips-leading-blank-lines", "C06.R6", dm, arg, f"{_pos_params(pdo)[0]}.lstrip()", "lstrip() applied", canary=True)
    pdt = dm.func("parse_directive_text")
    a, arg = split_of(pdt, _pos_params(pdt)[2])
    add("c06-body-dedented", "C06.R6", dm, arg, f"dedent({_pos_params(pdt)[2]})", "dedent() applied")
    # revert of 21f23ad: universal-newline splits on the way to the nested parse
    add("c06-revert-21f23ad-body-split-with-splitlines", "C06.R6", dm, a.value if a else None, f"{_pos_params(pdt)[2]}.splitlines()", "splitlines() applied")
    sl = dm.functions.get("split_lines")
    sp = find_node(sl, _is_newline_split) if sl is not None else None
    add("c06-revert-21f23ad-helper-splits-universally", "C06.R6", dm, sp, f"{_seg(dm, sp.func.value)}.splitlines()" if sp is not None else "", "applied to")
    c = find_node(np_, lambda n: is_call(n, "nested_render_text"))
    add("c06-nested-parse-strips-block", "C06.R6", mk, c.args[0] if c and c.args else None, f"{_seg(mk, c.args[0])}.strip()" if c and c.args else "", "strip() applied")
    def lines_of(n):
        """the call that splits the file text into the lines that ``n`` (a sliced expression) names"""
        if isinstance(n, ast.Call) and _splits_lines(n, inc) is not None:
            return n
        if isinstance(n, ast.Name):
            ds = [v for _, v in _local_defs(inc, n.id) if isinstance(v, ast.Call) and _splits_lines(v, inc) is not None]
            return ds[0] if len(ds) == 1 else None
        return None

    a = find_node(inc, lambda n: isinstance(n, ast.Subscript) and isinstance(n.slice, ast.Slice) and lines_of(n.value) is not None and isinstance(parent(n), ast.Call))
    sc = lines_of(a.value) if a is not None else None
    add("c06-revert-21f23ad-include-slice-with-splitlines", "C06.R6", mk, sc, f"{_seg(mk, sc.args[0])}.splitlines()" if sc is not None and sc.args else "", "splitlines() applied")
    add("c06-include-rstrips-lines", "C06.R6", mk, a, f"[ln.rstrip() for ln in {_seg(mk, a)}]" if a is not None else "", "rstrip() applied")
    c = find_node(inc, lambda n: is_call(n, "read_text"))
    add("c06-include-expands-tabs", "C06.R6", mk, c, f"{_seg(mk, c)}.expandtabs(8)" if c is not None else "", "expandtabs() applied")
    c = find_node(sub, lambda n: is_call(n, "nested_render_text") and not n.keywords)
    add("c06-substitution-value-stripped", "C06.R6", base, c.args[0] if c and c.args else None, f"{_seg(base, c.args[0])}.strip()" if c and c.args else "", "strip() applied")
    e = find_node(sub, lambda n: isinstance(n, ast.Call) and base.resolve(dotted(n.func) or "") in ENV_CLASSES)
    if e is not None:
        inner = _seg(base, e)
        add("c06-substitution-autoescape", "C06.R6", base, e, inner[:-1].rstrip().rstrip(",") + ", autoescape=True)", "template engine")
        add("c06-substitution-finalize-hook", "C06.R6", base, e, inner[:-1].rstrip().rstrip(",") + ', finalize=lambda v: "" if v is None else v)', "template engine")
    else:
        out.append(("c06-substitution-autoescape", "jinja2.Environment(...) not found"))

    # ---- seed round 10
    # the front-matter parameter made opt-out: callers that leave it out (substitution, div) would accept front matter
    c = find_node(inc, lambda n: is_call(n, "nested_render_text"))
    afm = next((k_ for k_ in c.keywords if k_.arg and "front" in k_.arg), None) if c is not None else None
    dflt = _param_default(nrt, afm.arg) if afm is not None else None
    add("c06-front-matter-parameter-defaults-to-true", "C06.R1", base, dflt, "True", "passed only for the text of a file")
    # R9: the two text cuts of the include mock run in the other order
    inc_cls = _owner_class(inc)
    lp = lf = None
    for f_ in sorted(inc_cls.methods.values(), key=lambda x: x.fq) if inc_cls is not None else []:
        lp = find_node(f_, lambda n: isinstance(n, ast.For) and isinstance(n.iter, (ast.List, ast.Tuple)) and len(n.iter.elts) == 2 and all(isinstance(e_, ast.Constant) and isinstance(e_.value, str) for e_ in n.iter.elts) and any(isinstance(x, ast.Subscript) and isinstance(x.slice, ast.Slice) for x in ast.walk(n)))
        if lp is not None:
            lf = f_
            break
    if lp is not None:
        lm = lf.module
        add("c06-include-cuts-end-before-start", "C06.R9", lm, lp.iter, "[" + ", ".join(_seg(lm, e_) for e_ in reversed(lp.iter.elts)) + "]", "runs in an earlier pass")
        cmp_ = next((x for x in ast.walk(lp) if isinstance(x, ast.If) and isinstance(x.test, ast.Compare) and isinstance(x.test.left, ast.Name) and x.test.left.id == lp.target.id and isinstance(x.test.comparators[0], ast.Constant)), None)
        other = next((e_ for e_ in lp.iter.elts if cmp_ is not None and e_.value != cmp_.test.comparators[0].value), None)
        add("c06-include-cut-branches-swapped", "C06.R9", lm, cmp_.test.comparators[0] if cmp_ is not None and other is not None else None, repr(other.value) if other is not None else "", "runs in an earlier pass")
    else:
        out.append(("c06-include-cuts-end-before-start", "the loop over the two cut options was not found"))
    return out
